#!/usr/bin/env python3
"""tools/mutation_campaign.py <module> <PID,PID,...> [--limit N] [--seed S] [--functions f1,f2]
Maintenance tool (not a registered check): AST-level mutants of one sievelib module, each applied to a scratch copy of
/repo; mutants that still pass the repository's test suite are run against the given checks (quick tier).  Prints one line
per mutant: killed-by-tests | detected by <PIDs> | SURVIVED (to be triaged by hand: equivalent mutant, or a blind spot).
"""
import ast, copy, json, os, random, shutil, subprocess, sys, tempfile

module = sys.argv[1]
pids = sys.argv[2].split(",")
limit = int(sys.argv[sys.argv.index("--limit") + 1]) if "--limit" in sys.argv else 60
seed = int(sys.argv[sys.argv.index("--seed") + 1]) if "--seed" in sys.argv else 1
only = sys.argv[sys.argv.index("--functions") + 1].split(",") if "--functions" in sys.argv else None
src_path = "/repo/sievelib/%s.py" % module
src = open(src_path).read()
tree = ast.parse(src)

sites = []      # (description, mutator(tree_copy) -> None)


def enclosing_functions(t):
    out = {}

    def walk(node, qual):
        for ch in ast.iter_child_nodes(node):
            q = qual
            if isinstance(ch, (ast.FunctionDef, ast.ClassDef)):
                q = (qual + "." if qual else "") + ch.name
            out[ch] = q
            walk(ch, q)
    walk(t, "")
    return out


owners = enclosing_functions(tree)
nodes = list(ast.walk(tree))
index = {id(n): i for i, n in enumerate(nodes)}


def add(node, desc, fn):
    q = owners.get(node, "")
    if only and not any(q.endswith(f) or ("." + f + ".") in ("." + q + ".") for f in only):
        return
    if "tests" in q or "dump" in q or "__dprint" in q or "__repr__" in q:
        return
    sites.append(("%s:%d %s" % (q, getattr(node, "lineno", 0), desc), index[id(node)], fn))


CMP = {ast.Eq: ast.NotEq, ast.NotEq: ast.Eq, ast.Lt: ast.LtE, ast.LtE: ast.Lt, ast.Gt: ast.GtE, ast.GtE: ast.Gt,
       ast.Is: ast.IsNot, ast.IsNot: ast.Is, ast.In: ast.NotIn, ast.NotIn: ast.In}
for n in nodes:
    if isinstance(n, ast.Compare) and len(n.ops) == 1 and type(n.ops[0]) in CMP:
        add(n, "%s -> %s" % (type(n.ops[0]).__name__, CMP[type(n.ops[0])].__name__),
            lambda m: setattr(m, "ops", [CMP[type(m.ops[0])]()]))
    if isinstance(n, ast.BoolOp):
        add(n, "and<->or", lambda m: setattr(m, "op", ast.Or() if isinstance(m.op, ast.And) else ast.And()))
    if isinstance(n, ast.If) and not isinstance(n.test, ast.Constant):
        add(n, "negate if", lambda m: setattr(m, "test", ast.UnaryOp(op=ast.Not(), operand=m.test)))
    if isinstance(n, ast.While) and not isinstance(n.test, ast.Constant):
        add(n, "negate while", lambda m: setattr(m, "test", ast.UnaryOp(op=ast.Not(), operand=m.test)))
    if isinstance(n, ast.Constant) and isinstance(n.value, bool):
        add(n, "%r -> %r" % (n.value, not n.value), lambda m: setattr(m, "value", not m.value))
    if isinstance(n, ast.Constant) and isinstance(n.value, int) and not isinstance(n.value, bool) and abs(n.value) < 10:
        add(n, "%d -> %d" % (n.value, n.value + 1), lambda m: setattr(m, "value", m.value + 1))
    if isinstance(n, ast.BinOp) and isinstance(n.op, (ast.Add, ast.Sub)) and not isinstance(n.left, ast.Constant):
        add(n, "+ <-> -", lambda m: setattr(m, "op", ast.Sub() if isinstance(m.op, ast.Add) else ast.Add()))
    if isinstance(n, (ast.Expr, ast.Assign, ast.AugAssign)) and not (isinstance(n, ast.Expr) and isinstance(n.value, ast.Constant)):
        add(n, "statement removed", "REMOVE")
    if isinstance(n, ast.Return) and n.value is not None and isinstance(n.value, ast.Constant) and isinstance(n.value.value, bool):
        pass    # covered by the boolean constant rule
    if isinstance(n, (ast.Break, ast.Continue)):
        add(n, "%s removed" % type(n).__name__.lower(), "REMOVE")
    if isinstance(n, ast.Raise):
        add(n, "raise removed", "REMOVE")

rng = random.Random(seed)
rng.shuffle(sites)
print("%d mutation sites in sievelib/%s.py; trying %d" % (len(sites), module, min(limit, len(sites))), flush=True)


class Remover(ast.NodeTransformer):
    def __init__(self, target):
        self.target = target

    def generic_visit(self, node):
        for field, old in ast.iter_fields(node):
            if isinstance(old, list):
                new = []
                for x in old:
                    if x is self.target:
                        new.append(ast.Pass())
                    else:
                        if isinstance(x, ast.AST):
                            self.generic_visit(x)
                        new.append(x)
                setattr(node, field, new)
            elif isinstance(old, ast.AST):
                self.generic_visit(old)
        return node


results = []
for (desc, idx, fn) in sites[:limit]:
    t2 = copy.deepcopy(tree)
    n2 = list(ast.walk(t2))[idx]
    if fn == "REMOVE":
        Remover(n2).generic_visit(t2)
    else:
        fn(n2)
    ast.fix_missing_locations(t2)
    try:
        code = ast.unparse(t2)
        compile(code, src_path, "exec")
    except Exception as e:
        print("%-90s | does not compile (%s)" % (desc[:90], type(e).__name__), flush=True)
        continue
    scratch = tempfile.mkdtemp(prefix="mut.", dir="/tmp")
    try:
        shutil.copytree("/repo/sievelib", os.path.join(scratch, "sievelib"))
        open(os.path.join(scratch, "sievelib", "%s.py" % module), "w").write(code)
        try:
            tests = subprocess.run(["/venv/bin/python", "-m", "pytest", "-q", "-x", "-p", "no:cacheprovider"], cwd=scratch, capture_output=True,
                                   text=True, timeout=300)
            passed = tests.returncode == 0
        except subprocess.TimeoutExpired:
            passed = False
        if not passed:
            print("%-90s | killed by the test suite" % desc[:90], flush=True)
            results.append((desc, "tests"))
            continue
        hit = []
        und = []
        for pid in pids:
            try:
                chk = subprocess.run(["/verif/bin/check", pid, "--tier", "quick"], env=dict(os.environ, SIEVELIB_REPO=scratch), capture_output=True,
                                     text=True, timeout=1500)
                rc = chk.returncode
            except subprocess.TimeoutExpired:
                rc = 2
            if rc == 1:
                first = next((l for l in chk.stdout.splitlines() if l.startswith("VIOLATION")), "")
                hit.append("%s(%s)" % (pid, first.split("replay=")[-1].split("/")[-1][:60]))
                break       # one detecting check is enough
            elif rc != 0:
                und.append("%s:exit%d" % (pid, rc))
        if hit:
            print("%-90s | detected by %s" % (desc[:90], " ".join(hit)), flush=True)
            results.append((desc, "detected"))
        else:
            print("%-90s | SURVIVED %s" % (desc[:90], " ".join(und)), flush=True)
            results.append((desc, "survived"))
    finally:
        shutil.rmtree(scratch, ignore_errors=True)
n = len(results)
print("summary: %d mutants; %d killed by tests, %d detected by the checks, %d survived" % (
    n, sum(1 for r in results if r[1] == "tests"), sum(1 for r in results if r[1] == "detected"), sum(1 for r in results if r[1] == "survived")))
