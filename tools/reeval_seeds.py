#!/usr/bin/env python3
"""Re-run every stored seeded change against the current /repo (scratch copy) and refresh meta.json."""
import glob, json, os, shutil, subprocess, sys, tempfile

only = sys.argv[1:]
for d in sorted(glob.glob("/verif/seeded/*")):
    sid = os.path.basename(d)
    if only and sid not in only:
        continue
    meta = json.load(open(os.path.join(d, "meta.json")))
    pid = meta["property"]
    scratch = tempfile.mkdtemp(prefix="seed.", dir="/tmp")
    try:
        shutil.copytree("/repo/sievelib", os.path.join(scratch, "sievelib"))
        demo = os.path.join(d, "demo.py")
        base = subprocess.run(["/venv/bin/python", demo, scratch], capture_output=True, text=True, timeout=300)
        ap = subprocess.run(["patch", "-p1", "-s", "--no-backup-if-mismatch", "-i", os.path.join(d, "patch.diff")], cwd=scratch, capture_output=True, text=True)
        if ap.returncode != 0:
            meta["recheck"] = {"applies": False, "note": "patch no longer applies to the current tree (a later fix: commit touched the same lines): " + (ap.stdout + ap.stderr)[:200]}
            print(sid, "PATCH DOES NOT APPLY")
        else:
            tests = subprocess.run(["/venv/bin/python", "-m", "pytest", "-q", "-p", "no:cacheprovider"], cwd=scratch, capture_output=True, text=True, timeout=600)
            tline = tests.stdout.strip().splitlines()[-1] if tests.stdout.strip() else ""
            mut = subprocess.run(["/venv/bin/python", demo, scratch], capture_output=True, text=True, timeout=300)
            chk = subprocess.run(["/verif/bin/check", pid], env=dict(os.environ, SIEVELIB_REPO=scratch), capture_output=True, text=True, timeout=1800)
            lines = [l for l in chk.stdout.splitlines() if l.startswith(("VIOLATION", "UNDECIDED", "CHECKER", pid))]
            meta["recheck"] = {"applies": True, "tests": tline, "demo_without": base.returncode, "demo_with": mut.returncode,
                               "check_exit": chk.returncode, "check_output": lines[:8]}
            print(sid, "| tests", tline[:12], "| demo", base.returncode, "->", mut.returncode, "| check exit", chk.returncode)
        json.dump(meta, open(os.path.join(d, "meta.json"), "w"), indent=1)
    finally:
        shutil.rmtree(scratch, ignore_errors=True)
