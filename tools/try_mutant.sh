#!/bin/bash
# usage: tools/try_mutant.sh <patch-file | -e 'sed-expr' file> -- PID [PID...]
# Applies a change to a scratch copy of /repo (never to /repo), runs the repo tests and the named checks there.
set -u
scratch=$(mktemp -d /tmp/mut.XXXXXX)
trap 'rm -rf "$scratch"' EXIT
cp -r /repo/sievelib "$scratch/sievelib"
if [ "$1" = "-e" ]; then
  sed -i "$2" "$scratch/sievelib/$3"; shift 3
else
  (cd "$scratch" && patch -p1 -s < "$1") || { echo "patch failed"; exit 9; }; shift
fi
[ "$1" = "--" ] && shift
diff -ru /repo/sievelib "$scratch/sievelib" | grep -E '^[+-][^+-]' | head -10
(cd "$scratch" && /venv/bin/python -m pytest -q -p no:cacheprovider -x 2>&1 | tail -2)
for pid in "$@"; do
  SIEVELIB_REPO="$scratch" /verif/bin/check "$pid" 2>&1 | grep -E "VIOLATION|UNDECIDED|CHECKER|KNOWN|tier=" | head -8
  echo "exit=${PIPESTATUS[0]}"
done
