#!/usr/bin/env python3
"""tools/seed_eval.py <worktree _seed/mk dir> <PID> [<seed-id>]
Confirms a seeded change in a scratch copy (tests still pass; demo passes without / fails with), runs the check
of PID against the scratch copy, and stores the change under /verif/seeded/<seed-id>/."""
import json, os, shutil, subprocess, sys, tempfile

src, pid = sys.argv[1], sys.argv[2]
sid = sys.argv[3] if len(sys.argv) > 3 else "%s-%s" % (pid, os.path.basename(src.rstrip("/")))
patch = os.path.join(src, "patch.diff")
demo = os.path.join(src, "demo.py")
scratch = tempfile.mkdtemp(prefix="seed.", dir="/tmp")
try:
    shutil.copytree("/repo/sievelib", os.path.join(scratch, "sievelib"))
    base_demo = subprocess.run(["/venv/bin/python", demo, scratch], capture_output=True, text=True, timeout=300)
    ap = subprocess.run(["patch", "-p1", "-s", "-i", patch], cwd=scratch, capture_output=True, text=True)
    if ap.returncode != 0:
        print("PATCH FAILED", ap.stdout, ap.stderr); sys.exit(9)
    tests = subprocess.run(["/venv/bin/python", "-m", "pytest", "-q", "-p", "no:cacheprovider"], cwd=scratch, capture_output=True, text=True, timeout=600)
    tline = tests.stdout.strip().splitlines()[-1] if tests.stdout.strip() else ""
    mut_demo = subprocess.run(["/venv/bin/python", demo, scratch], capture_output=True, text=True, timeout=300)
    env = dict(os.environ, SIEVELIB_REPO=scratch)
    chk = subprocess.run(["/verif/bin/check", pid], env=env, capture_output=True, text=True, timeout=1800)
    lines = [l for l in chk.stdout.splitlines() if l.startswith(("VIOLATION", "UNDECIDED", "CHECKER", "KNOWN", pid))]
    meta = {"seed": sid, "property": pid, "tests_with_change": tline, "demo_exit_without_change": base_demo.returncode,
            "demo_exit_with_change": mut_demo.returncode, "check_exit": chk.returncode,
            "check_output": lines[:12], "detected": chk.returncode == 1,
            "confirmed_input": any(l.startswith("VIOLATION") and "no-failing-input-found" not in l for l in lines)}
    notes = os.path.join(src, "notes.txt")
    meta["what_it_needs"] = open(notes).read() if os.path.exists(notes) else ""
    meta["ran"] = ["cp -r /repo/sievelib <scratch>; patch -p1 < patch.diff", "/venv/bin/python -m pytest -q (in scratch)",
                   "/venv/bin/python demo.py <scratch>  (before and after the patch)", "SIEVELIB_REPO=<scratch> bin/check %s" % pid]
    dst = os.path.join("/verif/seeded", sid)
    os.makedirs(dst, exist_ok=True)
    shutil.copy(patch, os.path.join(dst, "patch.diff"))
    shutil.copy(demo, os.path.join(dst, "demo.py"))
    json.dump(meta, open(os.path.join(dst, "meta.json"), "w"), indent=1)
    print(sid, "| tests:", tline[:22], "| demo", base_demo.returncode, "->", mut_demo.returncode, "| check exit", chk.returncode,
          "| confirmed" if meta["confirmed_input"] else "")
    for l in lines[:4]:
        print("    ", l[:200])
finally:
    shutil.rmtree(scratch, ignore_errors=True)
