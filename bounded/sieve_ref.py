"""Independent reference recognizer / tree builder for the supported Sieve language.

Written from RFC 5228 section 8 (lexical tokens 8.1, generic grammar 8.2) and the frozen command table
(contracts/tables_frozen.py, itself written from the RFCs) -- it shares no code with sievelib.  It is the oracle of
the bounded stand-ins (C01.P, C02.P, C03.P, C04.R, C07, C18, C20.P).

verdict(script) -> Result with
   status   'valid' | 'invalid' | 'outside'      ('outside' = one of the three irregularities the properties exclude:
                                                   omitted trailing positional arguments, a repeated optional tag,
                                                   an unknown capability name in `require`)
   reason   machine-readable class of the first problem (invalid / outside)
   index    index of the token at which the script becomes invalid (None: only at end of input)
   tree     list of Node for valid/outside scripts
"""
import re

from contracts import tables_frozen as frozen

KNOWN_CAPABILITIES = {"fileinto", "reject", "envelope", "body", "vacation", "vacation-seconds", "copy", "mailbox",
                      "imap4flags", "relational", "regex", "date", "variables", "comparator-i;octet",
                      "comparator-i;ascii-casemap", "encoded-character", "index", "subaddress", "xext"}


class Tok:
    __slots__ = ("kind", "text", "pos", "line")

    def __init__(self, kind, text, pos, line):
        self.kind = kind
        self.text = text
        self.pos = pos
        self.line = line

    def __repr__(self):
        return "%s:%r" % (self.kind, self.text)


class LexError(Exception):
    def __init__(self, pos, line):
        self.pos = pos
        self.line = line


_IDENT = re.compile(rb"[A-Za-z_][A-Za-z0-9_]*")
_TAG = re.compile(rb":[A-Za-z_][A-Za-z0-9_]*")
_NUM = re.compile(rb"[0-9]+[KMGkmg]?")
_WS = re.compile(rb"[ \t\r\n]+")
_QUOTED = re.compile(rb'"(?:[^"\\]|\\[\s\S])*"')
_HASH = re.compile(rb"#[^\r\n]*(?:\r\n|\n|\r|$)")
_BRACKET = re.compile(rb"/\*[\s\S]*?\*/")
# multi-line: "text:" *(SP / HTAB) (hash-comment / CRLF) *(multiline-literal / multiline-dotstart) "." CRLF
_MULTI_HEAD = re.compile(rb"text:[ \t]*(?:#[^\r\n]*)?(?:\r\n|\n)")
PUNCT = {b"[": "lbracket", b"]": "rbracket", b"(": "lparen", b")": "rparen", b"{": "lbrace", b"}": "rbrace",
         b";": "semicolon", b",": "comma"}


def lex(data):
    """RFC 5228 8.1 tokens; comments and white space are dropped; LF accepted wherever CRLF is."""
    toks = []
    pos = 0
    n = len(data)
    line = 1
    while pos < n:
        m = _WS.match(data, pos)
        if m:
            line += data.count(b"\n", pos, m.end())
            pos = m.end()
            continue
        c = data[pos:pos + 1]
        if c == b"#":
            m = _HASH.match(data, pos)
            line += data.count(b"\n", pos, m.end())
            pos = m.end()
            continue
        if data.startswith(b"/*", pos):
            m = _BRACKET.match(data, pos)
            if not m:
                raise LexError(pos, line)
            line += data.count(b"\n", pos, m.end())
            pos = m.end()
            continue
        if c in PUNCT:
            toks.append(Tok(PUNCT[c], c, pos, line))
            pos += 1
            continue
        if c == b'"':
            m = _QUOTED.match(data, pos)
            if not m:
                raise LexError(pos, line)
            toks.append(Tok("string", m.group(0), pos, line))
            line += data.count(b"\n", pos, m.end())
            pos = m.end()
            continue
        if data[pos:pos + 5].lower() == b"text:":
            m = _MULTI_HEAD.match(data, pos)
            if m:
                end = _multiline_end(data, m.end())
                if end is None:
                    raise LexError(pos, line)
                toks.append(Tok("multiline", data[pos:end], pos, line))
                line += data.count(b"\n", pos, end)
                pos = end
                continue
        if c == b":":
            m = _TAG.match(data, pos)
            if not m:
                raise LexError(pos, line)
            toks.append(Tok("tag", m.group(0), pos, line))
            pos = m.end()
            continue
        m = _NUM.match(data, pos)
        if m:
            toks.append(Tok("number", m.group(0), pos, line))
            pos = m.end()
            continue
        m = _IDENT.match(data, pos)
        if m:
            toks.append(Tok("identifier", m.group(0), pos, line))
            pos = m.end()
            continue
        raise LexError(pos, line)
    return toks


def _multiline_end(data, start):
    """index just after the terminating '.' line (the CRLF after the dot is left to white space), or None"""
    pos = start
    n = len(data)
    while pos <= n:
        if data[pos:pos + 1] == b"." and (data[pos + 1:pos + 3] == b"\r\n" or data[pos + 1:pos + 2] == b"\n"
                                          or pos + 1 == n):
            return pos + 1
        nl = data.find(b"\n", pos)
        if nl < 0:
            return None
        pos = nl + 1
    return None


class Node:
    """generic-grammar node: a command or a test"""

    def __init__(self, name, tok_index):
        self.name = name          # lower-case identifier
        self.tok_index = tok_index
        self.args = []            # ('tag', text) | ('number', text) | ('string', text) | ('stringlist', [texts])
        self.tests = []           # Node
        self.testlist = False     # tests were given in parentheses
        self.block = None         # list of Node | None
        self.named = {}           # filled by validation: slot name -> value ; tag parameters under ('extra', name)

    def shape(self):
        return (self.name, tuple((k, tuple(v) if isinstance(v, list) else v) for k, v in self.args),
                tuple(t.shape() for t in self.tests), self.testlist,
                None if self.block is None else tuple(c.shape() for c in self.block))


class Invalid(Exception):
    def __init__(self, reason, index, cmd=None):
        self.reason = reason
        self.index = index  # token index; None = detected at end of input
        self.cmd = cmd      # name of the command whose arguments are at fault (semantic errors)


class _P:
    def __init__(self, toks):
        self.toks = toks
        self.i = 0

    def peek(self):
        return self.toks[self.i] if self.i < len(self.toks) else None

    def commands(self, in_block):
        out = []
        while True:
            t = self.peek()
            if t is None:
                if in_block:
                    raise Invalid("unclosed-block", None)
                return out
            if t.kind == "rbrace":
                if in_block:
                    return out
                raise Invalid("unopened-block", self.i)
            if t.kind != "identifier":
                raise Invalid("command-expected", self.i)
            out.append(self.command())

    def command(self):
        t = self.peek()
        node = Node(t.text.decode("ascii").lower(), self.i)
        self.i += 1
        self.arguments(node)
        t = self.peek()
        if t is None:
            raise Invalid("missing-semicolon-or-block-at-end", None)
        if t.kind == "semicolon":
            self.i += 1
            node.end_index = self.i - 1
            return node
        if t.kind == "lbrace":
            self.i += 1
            node.block_index = self.i - 1
            node.block = self.commands(True)
            t = self.peek()
            if t is None or t.kind != "rbrace":
                raise Invalid("unclosed-block", None if t is None else self.i)
            self.i += 1
            node.end_index = self.i - 1
            return node
        raise Invalid("semicolon-or-block-expected", self.i)

    def arguments(self, node):
        while True:
            t = self.peek()
            if t is None:
                return
            if t.kind in ("string", "multiline"):
                node.args.append(("string", t.text, self.i))
                self.i += 1
            elif t.kind == "number":
                node.args.append(("number", t.text, self.i))
                self.i += 1
            elif t.kind == "tag":
                node.args.append(("tag", t.text, self.i))
                self.i += 1
            elif t.kind == "lbracket":
                start = self.i
                self.i += 1
                items = []
                while True:
                    t = self.peek()
                    if t is None:
                        raise Invalid("unclosed-string-list", None)
                    if t.kind not in ("string", "multiline"):
                        raise Invalid("string-expected-in-list", self.i)
                    items.append(t.text)
                    self.i += 1
                    t = self.peek()
                    if t is None:
                        raise Invalid("unclosed-string-list", None)
                    if t.kind == "comma":
                        self.i += 1
                        continue
                    if t.kind == "rbracket":
                        self.i += 1
                        break
                    raise Invalid("comma-or-bracket-expected-in-list", self.i)
                node.args.append(("stringlist", items, start))
            else:
                break
        t = self.peek()
        if t is None:
            return
        if t.kind == "identifier":
            node.tests.append(self.test())
        elif t.kind == "lparen":
            node.testlist = True
            node.testlist_index = self.i
            self.i += 1
            while True:
                t = self.peek()
                if t is None:
                    raise Invalid("unclosed-test-list", None)
                if t.kind != "identifier":
                    raise Invalid("test-expected-in-list", self.i)
                node.tests.append(self.test())
                t = self.peek()
                if t is None:
                    raise Invalid("unclosed-test-list", None)
                if t.kind == "comma":
                    self.i += 1
                    continue
                if t.kind == "rparen":
                    self.i += 1
                    break
                raise Invalid("comma-or-paren-expected-in-test-list", self.i)

    def test(self):
        t = self.peek()
        node = Node(t.text.decode("ascii").lower(), self.i)
        self.i += 1
        self.arguments(node)
        return node


class Result:
    def __init__(self, status, reason=None, index=None, tree=None, flags=(), missing_ext=None, cmd=None):
        self.cmd = cmd
        self.status = status
        self.reason = reason
        self.index = index
        self.tree = tree
        self.flags = tuple(flags)
        self.missing_ext = missing_ext

    def __repr__(self):
        return "Result(%s, %s, %s, flags=%s)" % (self.status, self.reason, self.index, self.flags)


def _unq(b):
    """value of a quoted string token / multi-line token as the library stores it (the token text, decoded)"""
    return b.decode("utf-8", "replace")


class Validator:
    def __init__(self, commands=None):
        self.commands = commands or frozen.COMMANDS
        self.loaded = set()
        self.flags = []

    def run(self, tree):
        self.block(tree, top=True)

    def block(self, nodes, top=False):
        prev = None
        for n in nodes:
            self.command(n, prev)
            prev = n

    def command(self, n, prev):
        spec = self.commands.get(n.name)
        if spec is None:
            raise Invalid("unknown-command", n.tok_index)
        if spec["kind"] == "test":
            raise Invalid("test-in-command-position", n.tok_index)
        if spec["ext"] and spec["ext"] not in self.loaded:
            raise InvalidExt(spec["ext"], n.tok_index)
        self.arguments(n, spec)
        if spec["block"]:
            if n.block is None:
                raise Invalid("block-expected", n.end_index)
        else:
            if n.block is not None:
                raise Invalid("block-after-command-without-block", n.block_index)
        if spec["follows"]:
            if prev is None or prev.name not in spec["follows"]:
                raise Invalid("must-follow-if", n.tok_index)
        if n.name == "require":
            v = n.named.get("capabilities")
            caps = v if isinstance(v, list) else ([v] if v is not None else [])
            for c in caps:
                name = c.decode("utf-8", "replace").strip('"')
                if name not in KNOWN_CAPABILITIES:
                    self.flags.append("unknown-capability-in-require")
                self.loaded.add(name)
                if name == "vacation-seconds":
                    self.loaded.add("vacation")      # RFC 6131 section 2: "vacation-seconds" implies "vacation"
        if n.block is not None:
            self.block(n.block)

    def test(self, n):
        spec = self.commands.get(n.name)
        if spec is None:
            raise Invalid("unknown-command", n.tok_index)
        if spec["kind"] != "test":
            raise Invalid("non-test-in-test-position", n.tok_index)
        if spec["ext"] and spec["ext"] not in self.loaded:
            raise InvalidExt(spec["ext"], n.tok_index)
        self.arguments(n, spec)

    def arguments(self, n, spec):
        tagged = spec["tagged"]
        pos = spec["positional"]
        seen = set()
        args = list(n.args)
        i = 0
        npos = 0
        plain_pos = [p for p in pos if p["type"] not in ("test", "testlist")]
        # optional positional (imap4flags): decided by the number of string-like arguments that follow the tags
        while i < len(args):
            kind, val, tix = args[i]
            if kind == "tag" and npos == 0:
                low = val.decode("ascii").lower()
                slot = None
                for t in tagged:
                    if low in t["tags"]:
                        slot = t
                if slot is not None:
                    need = slot["tags"][low] or slot["ext"]
                    if need and need not in self.loaded:
                        raise InvalidExt(need, tix)
                    if slot["name"] in seen:
                        self.flags.append("repeated-optional-tag")
                    seen.add(slot["name"])
                    n.named[slot["name"]] = val
                    prm = slot["param"]
                    i += 1
                    if prm is not None and (prm["only_for"] is None or low in prm["only_for"]):
                        if i >= len(args):
                            # the tag is the last argument and its parameter is omitted: an omitted TRAILING required argument,
                            # which the property places outside the claim (like `reject;`); a parameter missing in the middle
                            # of the arguments is a type error below
                            self.flags.append("omitted-trailing-arguments")
                            continue
                        k2, v2, t2 = args[i]
                        ok = (k2 == prm["type"]) or (prm["type"] == "stringlist" and k2 == "string")
                        if not ok:
                            raise Invalid("bad-tag-parameter-type", t2, cmd=n.name)
                        if prm["values"] is not None and v2.decode("utf-8", "replace") not in prm["values"]:
                            raise Invalid("bad-tag-parameter-value", t2, cmd=n.name)
                        n.named[("extra", slot["name"])] = v2
                        i += 1
                    continue
            # positional
            remaining = plain_pos[npos:] if npos < len(plain_pos) else []
            if not remaining:
                raise Invalid("surplus-argument" if kind != "tag" else "unexpected-tag", tix, cmd=n.name)
            p = remaining[0]
            if p["optional"]:
                # [optional] required : the optional one is present iff two more arguments follow
                rest = [a for a in args[i:]]
                if len(rest) >= 2:
                    if not (kind == p["type"] or (p["type"] == "stringlist" and kind == "string")):
                        raise Invalid("bad-argument-type", tix, cmd=n.name)
                    n.named[p["name"]] = val
                    npos += 1
                    i += 1
                    continue
                npos += 1
                continue
            ok = (kind == p["type"]) or (p["type"] == "stringlist" and kind == "string")
            if ok and p["type"] == "tag":
                ok = val.decode("ascii").lower() in p["values"]
            if not ok:
                raise Invalid("bad-argument-type" if kind != "tag" else "unexpected-tag", tix, cmd=n.name)
            n.named[p["name"]] = val
            npos += 1
            i += 1
        req_plain = [p for p in plain_pos if not p["optional"]]
        got_req = len([p for p in plain_pos[:npos] if not p["optional"]])
        if got_req < len(req_plain):
            self.flags.append("omitted-trailing-arguments")
        # tests
        tpos = [p for p in pos if p["type"] in ("test", "testlist")]
        if not tpos:
            if n.tests or n.testlist:
                raise Invalid("test-given-to-command-without-test", n.tests[0].tok_index if n.tests else n.testlist_index, cmd=n.name)
        elif tpos[0]["type"] == "test":
            if n.testlist:
                raise Invalid("test-list-where-single-test-expected", n.testlist_index, cmd=n.name)
            if len(n.tests) != 1:
                raise Invalid("test-missing", getattr(n, "end_index", None), cmd=n.name)
            self.test(n.tests[0])
        else:
            if not n.testlist:
                raise Invalid("test-list-expected", n.tests[0].tok_index if n.tests else getattr(n, "end_index", None), cmd=n.name)
            for t in n.tests:
                self.test(t)


class InvalidExt(Invalid):
    def __init__(self, ext, index):
        Invalid.__init__(self, "extension-not-loaded", index)
        self.ext = ext


def verdict(data, commands=None):
    if isinstance(data, str):
        data = data.encode("utf-8")
    try:
        toks = lex(data)
    except LexError as e:
        return Result("invalid", "lexical-error", None, missing_ext=None, flags=("lex@%d" % e.pos,))
    return verdict_tokens(toks, commands)


def verdict_tokens(toks, commands=None):
    p = _P(toks)
    try:
        tree = p.commands(False)
    except Invalid as e:
        return Result("invalid", e.reason, e.index)
    v = Validator(commands)
    try:
        v.run(tree)
    except InvalidExt as e:
        return Result("invalid", e.reason, e.index, missing_ext=e.ext)
    except Invalid as e:
        return Result("invalid", e.reason, e.index, cmd=e.cmd)
    if v.flags:
        return Result("outside", v.flags[0], None, tree, v.flags)
    return Result("valid", None, None, tree)
