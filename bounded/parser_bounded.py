"""Bounded stand-ins for the push-down layer of the parser (never counted as proved).

The REAL sievelib Parser is run natively on enumerated / generated scripts and compared with the independent
reference recognizer (bounded/sieve_ref.py).  One comparison serves several properties; each disagreement is
classified into an obligation id  <PID>.P.<class>  so that known findings are keyed by the class of the first
contract broken, not by the script.
"""
import io
import itertools
import random
import re
import sys
import time

from bounded import sieve_ref as ref


def real_parse(data):
    """-> dict(verdict True/False/'exception', error, error_pos, tree (list of shapes), exc)"""
    from sievelib.parser import Parser
    p = Parser()
    try:
        ok = p.parse(data)
    except Exception as e:  # C02: must never happen
        return {"verdict": "exception", "exc": "%s: %s" % (type(e).__name__, e), "parser": p}
    out = {"verdict": ok, "parser": p}
    if ok:
        out["result"] = p.result
    else:
        out["error"] = getattr(p, "error", None)
        out["error_pos"] = getattr(p, "error_pos", None)
    return out


def real_tree(cmds):
    """shape of the real result, in the vocabulary of the reference tree:
    (name, {slot: value}, [tests], [children])  -- values: str, list of str, or nested shapes"""
    out = []
    for c in cmds:
        out.append(_real_node(c))
    return out


def _real_node(c):
    from sievelib.commands import Command
    args = {}
    tests = []
    for k, v in c.arguments.items():
        if isinstance(v, Command):
            tests.append(_real_node(v))
        elif isinstance(v, list) and v and all(isinstance(x, Command) for x in v):
            tests.extend(_real_node(x) for x in v)
        else:
            args[k] = v
    for k, v in c.extra_arguments.items():
        args[("extra", k)] = v
    return (c.name, args, tests, [_real_node(ch) for ch in c.children])


def ref_tree(nodes):
    return [_ref_node(n) for n in nodes]


def _ref_node(n):
    args = {}
    for k, v in n.named.items():
        if isinstance(v, list):
            args[k] = [x.decode("utf-8", "replace") for x in v]
        else:
            args[k] = v.decode("utf-8", "replace")
    return (n.name, args, [_ref_node(t) for t in n.tests], [_ref_node(c) for c in (n.block or [])])


def tree_diff(a, b, path="result"):
    """first difference between real (a) and reference (b) trees, or None"""
    if len(a) != len(b):
        return "%s: %d commands in the result, %d in the source" % (path, len(a), len(b))
    for i, (x, y) in enumerate(zip(a, b)):
        p = "%s[%d:%s]" % (path, i, y[0])
        if x[0] != y[0]:
            return "%s: command %r recorded as %r" % (p, y[0], x[0])
        if x[1] != y[1]:
            keys = set(x[1]) | set(y[1])
            for k in sorted(keys, key=str):
                if x[1].get(k) != y[1].get(k):
                    return "%s: argument %r is %r in the result, %r in the source" % (p, k, x[1].get(k), y[1].get(k))
        d = tree_diff(x[2], y[2], p + ".tests")
        if d:
            return d
        d = tree_diff(x[3], y[3], p + ".children")
        if d:
            return d
    return None


def error_class(err):
    """coarse class of the real parser's error text"""
    if err is None:
        return "none"
    e = err.split(": ", 1)[1] if ": " in err else err
    for pat, name in ((r"unknown token", "unknown-token"), (r"unknown command", "unknown-command"),
                      (r"extension '.*' not loaded", "extension-not-loaded"), (r"bad argument", "bad-argument"),
                      (r"bad value", "bad-value"), (r"end of script reached", "end-of-script"),
                      (r"found while .* expected", "unexpected-token-kind"), (r"unexpected token", "unexpected-token"),
                      (r"may not appear as a first command", "test-as-command"), (r"Expected test command", "non-test-as-test"),
                      (r"must follow", "must-follow"), (r"unexpected closing bracket", "closing-bracket"),
                      (r"unexpected after", "child-not-accepted")):
        if re.search(pat, e):
            return name
    return "other"


def compare(data):
    """-> list of (pid, class, detail) disagreements for one script (empty = agree)"""
    r = real_parse(data)
    v = ref.verdict(data)
    out = []
    if r["verdict"] == "exception":
        out.append(("C02", "exception.%s" % r["exc"].split(":")[0], r["exc"]))
        return out, r, v
    if v.status == "valid":
        if r["verdict"] is not True:
            out.append(("C01", "rejects-valid.%s" % error_class(r.get("error")), r.get("error")))
        else:
            d = tree_diff(real_tree(r["result"]), ref_tree(v.tree))
            if d:
                out.append(("C03", "tree." + _tree_class(d), d))
    elif v.status == "invalid":
        if r["verdict"] is True:
            out.append(("C01", "accepts-invalid.%s" % v.reason, "reference: %s at token %s" % (v.reason, v.index)))
    else:  # outside the claim of C01; C07 still applies (gating) and C02 (no exception) was checked above
        pass
    return out, r, v


def _tree_class(d):
    if "commands in the result" in d:
        return "command-count"
    if "argument" in d:
        return "argument"
    return "other"


# ----------------------------------------------------------------------------- exhaustive token sequences

VOCAB = [
    b"if", b"elsif", b"else", b"require", b"stop", b"keep", b"discard", b"fileinto", b"redirect", b"reject", b"setflag",
    b"header", b"size", b"not", b"allof", b"anyof", b"true", b"false", b"exists", b"hasflag",
    b":is", b":over", b":copy", b":comparator", b":count", b":flags", b":IS",
    b'"a"', b'"fileinto"', b'"gt"', b"1", b"[", b"]", b"(", b")", b"{", b"}", b";", b",",
]


def enumerate_sequences(maxlen, budget_s, vocab=None, prefix_script=b""):
    """pruned depth-first enumeration of all token sequences up to maxlen over the vocabulary: a prefix is extended
    unless BOTH parsers have already rejected it at one of its tokens (then every extension is rejected by both)."""
    vocab = vocab or VOCAB
    t0 = time.time()
    stats = {"sequences": 0, "viable": 0, "timeout": False}
    findings = {}
    samples = []

    def visit(seq):
        if time.time() - t0 > budget_s:
            stats["timeout"] = True
            return
        data = prefix_script + b" ".join(seq)
        stats["sequences"] += 1
        dis, r, v = compare(data)
        for (pid, cls, detail) in dis:
            findings.setdefault((pid, cls), (data.decode("latin-1"), detail))
        if len(samples) < 5 and not dis and v.status == "valid" and len(seq) >= 3:
            samples.append({"script": data.decode("latin-1"), "verdict": "both accept, trees equal"})
        if len(seq) >= maxlen:
            return
        dead_real = r["verdict"] is False and "end of script reached" not in (r.get("error") or "")
        dead_real = dead_real or r["verdict"] == "exception"
        dead_ref = v.status == "invalid" and v.index is not None
        if dead_real and dead_ref:
            return
        stats["viable"] += 1
        for t in vocab:
            visit(seq + [t])

    for t in vocab:
        visit([t])
    return stats, findings, samples
