"""Bounded stand-ins for the push-down layer of the parser (never counted as proved).

The REAL sievelib Parser is run natively on enumerated / generated scripts and compared with the independent
reference recognizer (bounded/sieve_ref.py).  One comparison serves several properties; each disagreement is
classified into an obligation id  <PID>.P.<class>  so that known findings are keyed by the class of the first
contract broken, not by the script.
"""
import io
import itertools
import random
import re
import sys
import time

from bounded import sieve_ref as ref


def real_parse(data):
    """-> dict(verdict True/False/'exception', error, error_pos, tree (list of shapes), exc)"""
    from sievelib.parser import Parser
    p = Parser()
    try:
        ok = p.parse(data)
    except Exception as e:  # C02: must never happen
        return {"verdict": "exception", "exc": "%s: %s" % (type(e).__name__, e), "parser": p}
    out = {"verdict": ok, "parser": p}
    if ok:
        out["result"] = p.result
    else:
        out["error"] = getattr(p, "error", None)
        out["error_pos"] = getattr(p, "error_pos", None)
    return out


def real_tree(cmds):
    """shape of the real result, in the vocabulary of the reference tree:
    (name, {slot: value}, [tests], [children])  -- values: str, list of str, or nested shapes"""
    out = []
    for c in cmds:
        out.append(_real_node(c))
    return out


def _real_node(c):
    from sievelib.commands import Command
    args = {}
    tests = []
    for k, v in c.arguments.items():
        if isinstance(v, Command):
            tests.append(_real_node(v))
        elif isinstance(v, list) and v and all(isinstance(x, Command) for x in v):
            tests.extend(_real_node(x) for x in v)
        else:
            args[k] = v
    for k, v in c.extra_arguments.items():
        args[("extra", k)] = v
    return (c.name, args, tests, [_real_node(ch) for ch in c.children])


def ref_tree(nodes):
    return [_ref_node(n) for n in nodes]


def _ref_node(n):
    args = {}
    for k, v in n.named.items():
        if isinstance(v, list):
            args[k] = [x.decode("utf-8", "replace") for x in v]
        else:
            args[k] = v.decode("utf-8", "replace")
    return (n.name, args, [_ref_node(t) for t in n.tests], [_ref_node(c) for c in (n.block or [])])


def tree_diff(a, b, path="result"):
    """first difference between real (a) and reference (b) trees, or None"""
    if len(a) != len(b):
        return "%s: %d commands in the result, %d in the source" % (path, len(a), len(b))
    for i, (x, y) in enumerate(zip(a, b)):
        p = "%s[%d:%s]" % (path, i, y[0])
        if x[0] != y[0]:
            return "%s: command %r recorded as %r" % (p, y[0], x[0])
        if x[1] != y[1]:
            keys = set(x[1]) | set(y[1])
            for k in sorted(keys, key=str):
                if x[1].get(k) != y[1].get(k):
                    return "%s: argument %r is %r in the result, %r in the source" % (p, k, x[1].get(k), y[1].get(k))
        d = tree_diff(x[2], y[2], p + ".tests")
        if d:
            return d
        d = tree_diff(x[3], y[3], p + ".children")
        if d:
            return d
    return None


def error_class(err):
    """coarse class of the real parser's error text"""
    if err is None:
        return "none"
    e = err.split(": ", 1)[1] if ": " in err else err
    for pat, name in ((r"unknown token", "unknown-token"), (r"unknown command", "unknown-command"),
                      (r"extension '.*' not loaded", "extension-not-loaded"), (r"bad argument", "bad-argument"),
                      (r"bad value", "bad-value"), (r"end of script reached", "end-of-script"),
                      (r"found while .* expected", "unexpected-token-kind"), (r"unexpected token", "unexpected-token"),
                      (r"may not appear as a first command", "test-as-command"), (r"Expected test command", "non-test-as-test"),
                      (r"must follow", "must-follow"), (r"unexpected closing bracket", "closing-bracket"),
                      (r"unexpected after", "child-not-accepted")):
        if re.search(pat, e):
            return name
    return "other"


def compare(data):
    """-> list of (pid, class, detail) disagreements for one script (empty = agree)"""
    r = real_parse(data)
    v = ref.verdict(data)
    out = []
    if r["verdict"] == "exception":
        out.append(("C02", "exception.%s" % r["exc"].split(":")[0], r["exc"]))
        return out, r, v
    if v.status == "valid":
        if r["verdict"] is not True:
            out.append(("C01", "rejects-valid.%s%s" % (error_class(r.get("error")), _cmd_in_error(r.get("error"), data)), r.get("error")))
        else:
            d = tree_diff(real_tree(r["result"]), ref_tree(v.tree))
            if d:
                out.append(("C03", "tree." + _tree_class(d), d))
    elif v.status == "invalid":
        if r["verdict"] is True:
            out.append(("C01", "accepts-invalid.%s%s" % (v.reason, "@" + v.cmd if v.cmd else ""),
                        "reference: %s at token %s" % (v.reason, v.index)))
    else:  # outside the claim of C01; C07 still applies (gating) and C02 (no exception) was checked above
        pass
    return out, r, v


def _cmd_in_error(err, data):
    """which command the real parser was in when it rejected a valid script (from its error position)"""
    m = re.search(r"for command (\w+)", err or "")
    if m:
        return "@" + m.group(1)
    try:
        from sievelib.parser import Parser
        p = Parser()
        p.parse(data)
        line, col, ln = p.error_pos
        lines = data.split(b"\n")
        off = sum(len(x) + 1 for x in lines[:line - 1]) + col - 1
        toks = ref.lex(data[:off])
        depth = 0
        for t in reversed(toks):
            if t.kind == "identifier" and t.text.decode().lower() in ref.frozen.COMMANDS:
                return "@" + t.text.decode().lower()
    except Exception:
        pass
    return ""


def _tree_class(d):
    m = re.search(r"\[\d+:(\w+)\]: (argument|command)", d)
    where = "@" + m.group(1) if m else ""
    if "commands in the result" in d:
        return "command-count"
    if "argument" in d:
        return "argument" + where
    return "other" + where


# ----------------------------------------------------------------------------- exhaustive token sequences

VOCAB = [
    b"if", b"elsif", b"else", b"require", b"stop", b"keep", b"discard", b"fileinto", b"redirect", b"reject", b"setflag",
    b"header", b"size", b"not", b"allof", b"anyof", b"true", b"false", b"exists", b"hasflag",
    b":is", b":over", b":copy", b":comparator", b":count", b":flags", b":IS",
    b'"a"', b'"fileinto"', b'"gt"', b"1", b"[", b"]", b"(", b")", b"{", b"}", b";", b",",
]


def enumerate_sequences(maxlen, budget_s, vocab=None, prefix_script=b""):
    """pruned depth-first enumeration of all token sequences up to maxlen over the vocabulary: a prefix is extended
    unless BOTH parsers have already rejected it at one of its tokens (then every extension is rejected by both)."""
    vocab = vocab or VOCAB
    t0 = time.time()
    stats = {"sequences": 0, "viable": 0, "timeout": False}
    findings = {}
    samples = []

    def visit(seq):
        if time.time() - t0 > budget_s:
            stats["timeout"] = True
            return
        data = prefix_script + b" ".join(seq)
        stats["sequences"] += 1
        dis, r, v = compare(data)
        for (pid, cls, detail) in dis:
            findings.setdefault((pid, cls), (data.decode("latin-1"), detail))
        if len(samples) < 5 and not dis and v.status == "valid" and len(seq) >= 3:
            samples.append({"script": data.decode("latin-1"), "verdict": "both accept, trees equal"})
        if len(seq) >= maxlen:
            return
        dead_real = r["verdict"] is False and "end of script reached" not in (r.get("error") or "")
        dead_real = dead_real or r["verdict"] == "exception"
        dead_ref = v.status == "invalid" and v.index is not None
        if dead_real and dead_ref:
            return
        stats["viable"] += 1
        for t in vocab:
            visit(seq + [t])

    for t in vocab:
        visit([t])
    return stats, findings, samples


# ----------------------------------------------------------------------------- drivers used by the property plans

class Findings(dict):
    """class -> [count, order-independent digest of every failing (script, detail), first script, first detail]"""

    def note(self, key, script, detail):
        import hashlib
        h = int(hashlib.sha256((script + "\x00" + str(detail)).encode("utf-8", "replace")).hexdigest()[:12], 16)
        e = self.get(key)
        if e is None:
            self[key] = [1, h, script, detail]
        else:
            e[0] += 1
            e[1] = (e[1] + h) % (1 << 48)
            if script < e[2]:
                e[2], e[3] = script, detail

    def merge(self, other):
        for k, e in other.items():
            m = self.get(k)
            if m is None:
                self[k] = list(e)
            else:
                m[0] += e[0]
                m[1] = (m[1] + e[1]) % (1 << 48)
                if e[2] < m[2]:
                    m[2], m[3] = e[2], e[3]

    def violations(self, pid, group, pids):
        out = []
        for (p, cls), (n, dig, script, detail) in sorted(self.items()):
            if p in pids:
                out.append(("%s.P.%s.%s" % (pid, group, cls), {"script": script, "failing_cases_in_class": n},
                            "%d case(s) in this class, digest %012x; first: %s" % (n, dig, detail)))
        return out


STRUCT_VOCAB = [b"if", b"elsif", b"else", b"anyof", b"not", b"true", b"keep", b"stop", b"(", b")", b"{", b"}", b";", b",", b"require",
                b'"a"', b"header", b":is", b"/*c*/", b"["]


def _enum_task(args):
    first, maxlen, budget, vocab, frontier_only = args
    t0 = time.time()
    stats = {"sequences": 0, "viable": 0, "timeout": False, "lexer_steps_max_ratio": 0.0}
    findings = Findings()
    samples = []

    def visit(seq):
        if time.time() - t0 > budget:
            stats["timeout"] = True
            return
        data = b" ".join(seq)
        stats["sequences"] += 1
        dis, r, v = compare(data)
        for (pid, cls, detail) in dis:
            if b"text:" in data:
                cls += "+multiline"
            findings.note((pid, cls), data.decode("latin-1"), detail)
        if len(samples) < 2 and not dis and v.status == "valid" and len(seq) >= 4:
            samples.append({"script": data.decode("latin-1"), "verdict": "both accept, trees equal"})
        dead_real = (r["verdict"] is False and "end of script reached" not in (r.get("error") or "")) or r["verdict"] == "exception"
        dead_ref = v.status == "invalid" and v.index is not None
        if dead_real != dead_ref and r["verdict"] != "exception":
            # the two parsers disagree on whether this prefix can still become a script: look for a completion on which
            # their verdicts differ (only an actual script with differing verdicts is reported)
            for comp in COMPLETIONS:
                d2 = data + b" " + comp
                dis2, r2, v2 = compare(d2)
                stats["sequences"] += 1
                for (pid, cls, detail) in dis2:
                    if pid == "C01":
                        findings.note((pid, cls), d2.decode("latin-1"), detail)
                if dis2:
                    break
        if len(seq) >= maxlen:
            return
        if (dead_real and dead_ref) or (frontier_only and (dead_real or dead_ref)):
            # dead for both: every extension is rejected by both.  Dead for one only: that parser rejects every extension,
            # so only completions the other one accepts matter -- they were searched just above (deep mode); the exhaustive
            # mode keeps extending such prefixes as well
            return
        stats["viable"] += 1
        for t in vocab:
            visit(seq + [t])

    visit(list(first))
    return stats, findings, samples


COMPLETIONS = [b";", b") { }", b") { keep ; }", b"{ }", b"{ keep ; }", b"] ;", b"] { }", b") ) { }", b"true ) { }", b'"a" ;', b'"a" "b" { }',
               b"} ", b"; }", b", true ) { }", b'"a" ] ;']


def enumerate_parallel(maxlen, budget_s, jobs=16, vocab=None, frontier_only=False):
    import multiprocessing as mp
    vocab = vocab or VOCAB
    tasks = [((a, b), maxlen, budget_s, vocab, frontier_only) for a in vocab for b in vocab] if frontier_only else \
        [((a,), maxlen, budget_s, vocab, frontier_only) for a in vocab]
    ctx = mp.get_context("fork")
    with ctx.Pool(jobs) as pool:
        results = pool.map(_enum_task, tasks, chunksize=1)
    stats = {"sequences": 0, "viable": 0, "timeout": False}
    findings = Findings()
    samples = []
    for st, f, s in results:
        stats["sequences"] += st["sequences"]
        stats["viable"] += st["viable"]
        stats["timeout"] = stats["timeout"] or st["timeout"]
        findings.merge(f)
        samples += s
    return stats, findings, samples[:4]


def bounded_tokens(pid, tier, seed, pids=None):
    """exhaustive token sequences (pruned where both parsers have already rejected a prefix)"""
    maxlen = 4 if tier == "quick" else 5
    stats, findings, samples = enumerate_parallel(maxlen, 120 if tier == "quick" else 1500)
    # a second, deeper enumeration over the structural tokens only (blocks, test lists, elsif/else chains, semicolons)
    smax = 7 if tier == "quick" else 9
    st2, f2, s2 = enumerate_parallel(smax, 240 if tier == "quick" else 2400, vocab=STRUCT_VOCAB, frontier_only=True)
    findings.merge(f2)
    stats["sequences"] += st2["sequences"]
    stats["viable"] += st2["viable"]
    stats["timeout"] = stats["timeout"] or st2["timeout"]
    vio = findings.violations(pid, "tokens", pids or (pid,))
    return {"name": "token-sequences", "bound": "all sequences of <= %d tokens over a %d-token vocabulary (every token class, "
            "commands of each kind, tags incl. upper case) and, over the %d structural tokens, all sequences of <= %d tokens every proper prefix of which "
            "both parsers still consider viable (+ 15 completions wherever they disagree on viability): %d sequences run, %d viable prefixes extended%s"
            % (maxlen, len(VOCAB), len(STRUCT_VOCAB), smax, stats["sequences"], stats["viable"], "; TIME BUDGET HIT" if stats["timeout"] else ""),
            "rule": "distinct = token sequence; a prefix is not extended once both the real parser and the reference have "
                    "rejected it at one of its tokens", "evaluations": stats["sequences"], "distinct": stats["viable"],
            "samples": samples, "exhaustive": not stats["timeout"], "stable": not stats["timeout"], "violations": vio}


def bounded_generated(pid, tier, seed, pids=None):
    """generated valid scripts x rendering styles, and single-token edits of them"""
    from bounded import sieve_gen as g
    # deterministic on purpose (VERIF_SEED is NOT used here): the known-finding signatures pin how each listed class fails
    # on exactly this corpus, so the corpus must not vary from run to run
    rng = random.Random(1)
    S = g.scripts(1) + g.nested_scripts()
    evals = 0
    distinct = set()
    findings = Findings()
    samples = []
    gen_bugs = 0
    for toks in S:
        for style in ((0, 2, 5, 9) if tier == "quick" else range(12)):
            data = g.render(toks, style)
            v = ref.verdict(data)
            if v.status != "valid":
                gen_bugs += 1
                continue
            evals += 1
            distinct.add(data)
            dis, r, v = compare(data)
            for (p, cls, detail) in dis:
                if b"text:" in data:
                    cls += "+multiline"
                findings.note((p, cls), data.decode("latin-1"), detail)
            if not dis and len(samples) < 2 and style:
                samples.append({"script": data.decode("latin-1")[-120:], "verdict": "accepted, tree equals the source"})
        for kind, i, t2 in g.single_edits(toks, rng, 6 if tier == "quick" else 30) + \
                g.construct_edits(toks, rng, 6 if tier == "quick" else 30):
            data = g.render(t2, 0)
            evals += 1
            distinct.add(data)
            dis, r, v = compare(data)
            for (p, cls, detail) in dis:
                if b"text:" in data:
                    cls += "+multiline"
                findings.note((p, cls), data.decode("latin-1"), detail)
            if not dis and v.status == "invalid" and len(samples) < 4:
                samples.append({"script": data.decode("latin-1")[-100:], "edit": kind, "verdict": "both reject (%s)" % v.reason})
    vio = findings.violations(pid, "generated", pids or (pid,))
    return {"name": "generated-scripts", "bound": "%d generated valid scripts (every command, each tag alone and all tags in both "
            "orders, string/list/multi-line values, nesting <= 2) x rendering styles (LF/CRLF/tabs, upper-case identifiers, "
            "comments) + single-token edits: %d cases (%d generator outputs the reference itself did not accept were skipped)"
            % (len(S), evals, gen_bugs), "rule": "distinct = script text", "evaluations": evals, "distinct": len(distinct),
            "samples": samples, "exhaustive": False, "stable": True, "violations": vio}


class _Timeout(Exception):
    pass


def _alarm(signum, frame):
    raise _Timeout()


def counted_parse(data, seconds=3):
    """real parse with a lexer-step counter (tokens yielded by Lexer.scan) and a wall-clock watchdog"""
    import signal
    old = signal.signal(signal.SIGALRM, _alarm)
    signal.setitimer(signal.ITIMER_REAL, seconds)
    try:
        return _counted_parse(data)
    except _Timeout:
        return "hang", "no verdict within %d s for %d bytes" % (seconds, len(data)), 0, None
    finally:
        signal.setitimer(signal.ITIMER_REAL, 0)
        signal.signal(signal.SIGALRM, old)


def _counted_parse(data):
    from sievelib.parser import Parser
    p = Parser()
    real_scan = p.lexer.scan
    steps = {"n": 0}

    def scan(text):
        for tok in real_scan(text):
            steps["n"] += 1
            if steps["n"] > 4 * (len(text) + 2):
                raise RuntimeError("lexer steps exceed 4*(len+2): no progress")
            yield tok

    p.lexer.scan = scan
    try:
        ok = p.parse(data)
    except RuntimeError as e:
        return "hang", str(e), steps["n"], p
    except Exception as e:
        return "exception", "%s: %s" % (type(e).__name__, e), steps["n"], p
    return ok, None, steps["n"], p


def check_c02_case(data):
    """problems of one input w.r.t. C02: [(class, detail)]"""
    ok, err, steps, p = counted_parse(data)
    if ok == "hang":
        return [("hang", err)]
    if ok == "exception":
        return [("exception.%s" % err.split(":")[0], err)]
    out = []
    raw = data.encode("utf-8") if isinstance(data, str) else data
    if steps > 2 * len(raw) + 1:
        out.append(("lexer-steps", "%d lexer steps for %d bytes" % (steps, len(raw))))
    if ok is True:
        if not isinstance(p.result, list):
            out.append(("result-shape", repr(type(p.result))))
    elif ok is False:
        m = re.match(r"line (\d+): .+", p.error or "", re.S)
        nl = raw.count(b"\n")
        if not m or not (1 <= int(m.group(1)) <= 1 + nl):
            out.append(("error-text", "error %r for %d newlines" % (p.error, nl)))
        ep = getattr(p, "error_pos", None)
        if not (isinstance(ep, tuple) and len(ep) == 3 and all(isinstance(x, int) for x in ep)):
            out.append(("error-pos-shape", repr(ep)))
    else:
        out.append(("verdict-not-bool", repr(ok)))
    return out


def check_parse_file(data, tmpdir):
    """the same bytes through Parser.parse_file: no exception, and the same verdict and error as parse(bytes)"""
    import os
    from sievelib.parser import Parser
    path = os.path.join(tmpdir, "script.sieve")
    with open(path, "wb") as f:
        f.write(data)
    import signal
    p1 = Parser()
    old = signal.signal(signal.SIGALRM, _alarm)
    signal.setitimer(signal.ITIMER_REAL, 3)
    try:
        v1 = p1.parse_file(path)
    except _Timeout:
        return []      # no verdict in time: reported as a hang by check_c02_case on the same bytes
    except BaseException as e:
        return [("parse_file.exception.%s" % type(e).__name__, "%s: %s" % (type(e).__name__, e))]
    finally:
        signal.setitimer(signal.ITIMER_REAL, 0)
        signal.signal(signal.SIGALRM, old)
    p2 = Parser()
    old = signal.signal(signal.SIGALRM, _alarm)
    signal.setitimer(signal.ITIMER_REAL, 3)
    try:
        v2 = p2.parse(data)
    except BaseException as e:
        return []      # parse() itself raising / hanging is reported by check_c02_case
    finally:
        signal.setitimer(signal.ITIMER_REAL, 0)
        signal.signal(signal.SIGALRM, old)
    if v1 is not v2 or (v1 is False and p1.error != p2.error):
        return [("parse_file.differs-from-parse", "parse_file -> %r %r, parse -> %r %r" % (v1, p1.error, v2, p2.error))]
    return []


def bounded_bytes(pid, tier, seed):
    """byte-level mutations of valid scripts: invalid UTF-8, NUL, multi-byte text before the error point, truncation at
    every offset, unterminated strings/comments/text blocks, identifiers colliding with internal class names"""
    from bounded import sieve_gen as g
    rng = random.Random(seed or 1)
    base = [g.render(t, s) for t in g.scripts(seed or 1)[:: (12 if tier == "quick" else 3)] for s in (0, 2)]
    extra = [b"control;", b"action;", b"test;", b"unknown;", b"command;", b"require;", b"if hasflag {", b"if hasflag ,",
             "#ééééééé\nkeep \"a\";".encode(), b'keep "\xff";', b'require ["\xff"];', b"/* unterminated", b'"unterminated',
             b"text:\nnever ends", b"if true { stop; } \xff", b'"' + b"a" * 64, b'keep "' + b"ab\\" * 24, b"/*" + b"*a" * 40,
             b"text:\n" + b".x\n" * 30, b"text:" + b"\n" * 60000, b"text:\n" + b"a\n\n" * 20000, b"/*" + b"*/ /*" * 20000, b"#" + b"x" * 200, b"a" * 300, b":" + b"t" * 100 + b" " * 50 + b"1" * 80 + b"K", b"\x00", b"stop (true);", b"stop (true) header", b"",
             "if header :is \"é\" \"é\" { keep } ".encode(), b"if anyof(true,) {}", b"[", b"]", b")", b"}", b";", b","]
    evals = 0
    distinct = set()
    findings = {}
    samples = []
    import tempfile, shutil
    tmpdir = tempfile.mkdtemp(prefix="c02files.")
    for data in extra:
        evals += 1
        distinct.add(data)
        for cls, detail in check_c02_case(data) + check_parse_file(data, tmpdir):
            findings.setdefault(cls, (data.decode("latin-1"), detail))
    inject = [b"\xff", b"\x00", b"\xc3", "é".encode(), b'"', b"/*", b"#", b"text:", b"{", b"("]
    for data in base:
        cuts = range(0, len(data), 7) if tier == "quick" else range(0, len(data), 2)
        for c in cuts:
            evals += 1
            d2 = data[:c]
            distinct.add(d2)
            for cls, detail in check_c02_case(d2):
                findings.setdefault(cls, (d2.decode("latin-1"), detail))
        for _ in range(10 if tier == "quick" else 60):
            i = rng.randrange(0, len(data) + 1)
            d2 = data[:i] + rng.choice(inject) + data[i + rng.choice((0, 1)):]
            evals += 1
            distinct.add(d2)
            probs = check_c02_case(d2)
            if _ % 3 == 0:
                probs = probs + check_parse_file(d2, tmpdir)
            for cls, detail in probs:
                findings.setdefault(cls, (d2.decode("latin-1"), detail))
            if not probs and len(samples) < 3:
                samples.append({"script": d2.decode("latin-1")[-80:], "verdict": "terminated with True/False and a well-formed error"})
    shutil.rmtree(tmpdir, ignore_errors=True)
    vio = [("%s.P.bytes.%s" % (pid, cls), {"script": s}, d) for cls, (s, d) in sorted(findings.items())]
    return {"name": "byte-mutations", "bound": "%d inputs: truncation of %d rendered scripts at regular offsets, random single "
            "byte-sequence injections (invalid UTF-8, NUL, quote, comment/text openers), and %d hand-picked degenerate inputs"
            % (evals, len(base), len(extra)), "rule": "distinct = input bytes", "evaluations": evals, "distinct": len(distinct),
            "samples": samples, "exhaustive": False, "violations": vio}


# ----------------------------------------------------------------------------- C18: error positions

def _positions(tokens, sep):
    """byte offset of every token when the tokens are joined by sep"""
    out = []
    pos = 0
    for t in tokens:
        out.append(pos)
        pos += len(t) + len(sep)
    return out


def _line_col(data, off):
    line = data.count(b"\n", 0, off) + 1
    col = off - data.rfind(b"\n", 0, off)
    return line, col


def bounded_positions(pid, tier, seed):
    """(valid script, insertion point, offending token) triples: the reported line/column/length must be those of the
    offending token; and the reported position must not depend on what follows it."""
    from bounded import sieve_gen as g
    rng = random.Random(seed or 1)
    S = g.scripts(seed or 1)
    S = [t for t in S if b"addflag" not in t and b"setflag" not in t and b"removeflag" not in t and b"hasflag" not in t
         and not any(x.startswith(b"text:") for x in t)]
    if tier == "quick":
        S = S[::4]
    h = len(g.require_all())
    evals = 0
    distinct = set()
    findings = Findings()
    samples = []
    seps = [b"\n", b"\r\n", b" "]
    prefixes = [b"", "# caf\xc3\xa9 \xe2\x82\xac\n".encode("latin-1"),
                b'if header :is "a\nb" "c\r\nd" { keep; }\n/* x\ny */ ']
    for toks in S:
        if real_parse(b"\n".join(toks))["verdict"] is not True:
            continue  # the base script itself is one the parser rejects (a C01 finding such as `keep :flags`): not a C18 case
        # where may a command start / where do arguments of a complete command end
        cmd_starts = [i for i in range(h, len(toks) + 1) if i == h or toks[i - 1] in (b";", b"{", b"}")]
        semis = [i for i in range(h, len(toks)) if toks[i] == b";"]
        ifs = [i for i in range(h, len(toks)) if toks[i].lower() in (b"if", b"elsif")]
        cases = []
        for i in cmd_starts[:6]:
            cases.append(("unknown-command", i, [b"bogus", b";"], 0))
            cases.append(("test-in-command-position", i, [b"true", b";"], 0))
            cases.append(("no-token", i, [b"@"], 0))
        for i in semis[:4]:
            cases.append(("surplus-string", i, [b'"surplus"'], 0))
            cases.append(("tag-not-taken", i, [b":bogus"], 0))
            cases.append(("surplus-number", i, [b"42"], 0))
            cases.append(("no-token", i, [b"$"], 0))
        for i in ifs[:3]:
            cases.append(("non-test-in-test-position", i + 1, [b"keep"], 0))
        for (kind, i, ins, which) in cases:
            t2 = toks[:i] + ins + toks[i:]
            for sep in seps:
                for pre in prefixes:
                    body = sep.join(t2)
                    data = pre + body
                    off = len(pre) + _positions(t2, sep)[i + which]
                    tok = ins[which]
                    exp_line, exp_col = _line_col(data, off)
                    r = real_parse(data)
                    evals += 1
                    distinct.add((kind, sep, bool(pre), len(toks), i))
                    if r["verdict"] is not False:
                        findings.note((pid, "accepted." + kind), data[len(pre):].decode("latin-1")[-90:], "verdict %r" % (r["verdict"],))
                        continue
                    ep = r["error_pos"]
                    m = re.match(r"line (\d+):", r["error"] or "")
                    got_line = int(m.group(1)) if m else None
                    want = (exp_line, exp_col) if kind == "no-token" else (exp_line, exp_col, len(tok))
                    got = tuple(ep[:2]) if kind == "no-token" else tuple(ep)
                    if got != want or got_line != exp_line:
                        findings.note((pid, "position." + kind), data[len(pre):].decode("latin-1")[-90:],
                                      "reported %r (line %r), offending token %r is at %r" % (ep, got_line, tok, want))
                    elif len(samples) < 3 and pre.startswith(b"#") and sep == b"\r\n":
                        samples.append({"script_tail": data.decode("latin-1")[-70:], "offending": tok.decode(), "error_pos": list(ep)})
                    # independence from what follows the offending token
                    cut = off + len(tok)
                    for tail in (b"", b" ;", b"\n\xff\xfe garbage {{{"):
                        r2 = real_parse(data[:cut] + tail)
                        evals += 1
                        if r2["verdict"] is False and r2["error_pos"] != ep and kind != "no-token":
                            findings.note((pid, "depends-on-suffix." + kind), data[len(pre):cut].decode("latin-1")[-90:],
                                          "error_pos %r with the original continuation, %r with %r" % (ep, r2["error_pos"], tail))
                        elif r2["verdict"] == "exception":
                            findings.note((pid, "depends-on-suffix.exception"), (data[:cut] + tail).decode("latin-1")[-60:], r2["exc"])
    vio = findings.violations(pid, "positions", (pid,))
    return {"name": "error-positions", "bound": "%d generated scripts x insertion points (<= 6 command starts, <= 4 argument ends, "
            "<= 3 test positions) x 7 kinds of offending token x {LF, CRLF, space} x {no prefix, multi-byte comment prefix} x 3 "
            "continuations = %d parses" % (len(S), evals), "rule": "distinct = (kind, separator, prefix, script, insertion point)",
            "evaluations": evals, "distinct": len(distinct), "samples": samples, "exhaustive": False, "violations": vio}


def bounded_linecol(pid, tier, seed):
    """Lexer.curlineno / curcolno against an independent definition, exhaustively on small texts"""
    from sievelib.parser import Lexer, Parser
    lx = Lexer(Parser.lrules)
    n = 6 if tier == "quick" else 8
    evals = 0
    findings = Findings()
    try:
        lx.text = b"a\nb"
        lx.pos = 2
        lx.curlineno(), lx.curcolno()
    except Exception as e:
        return {"name": "line-column-arithmetic", "bound": "not applicable to this tree: curlineno/curcolno need more than (text, pos): %s; the "
                "end-to-end error-position check decides" % e, "rule": "-", "evaluations": 1, "distinct": 2, "samples": [{"skipped": str(e)}],
                "exhaustive": False, "violations": []}
    for ln in range(n + 1):
        for tup in itertools.product(b"a\n\r", repeat=ln):
            text = bytes(tup)
            lx.text = text
            for pos in range(ln + 1):
                lx.pos = pos
                evals += 1
                line = 1
                col = 1
                for i in range(pos):
                    if text[i] == 10:
                        line += 1
                        col = 1
                    else:
                        col += 1
                if (lx.curlineno(), lx.curcolno()) != (line, col):
                    findings.note((pid, "linecol"), repr(text) + "@%d" % pos, "curlineno/curcolno = %r, expected %r"
                                  % ((lx.curlineno(), lx.curcolno()), (line, col)))
    return {"name": "line-column-arithmetic", "bound": "all texts of length <= %d over {a, LF, CR} x every position: %d cases" % (n, evals),
            "rule": "distinct = (text, position)", "evaluations": evals, "distinct": evals,
            "samples": [{"text": "a\\n\\ra", "pos": 3, "line_col": [2, 2]}], "exhaustive": True,
            "violations": findings.violations(pid, "linecol", (pid,))}


# ----------------------------------------------------------------------------- C13: histories

HISTORY_CORPUS = [
    b'require ["fileinto"]; fileinto "a";', b'fileinto "a";', b'require ["regex", "relational"]; if header :regex "a" "b" { keep; }',
    b'if header :regex "a" "b" { keep; }', b'if header :count "gt" "a" "1" { keep; }', b'require ["imap4flags"]; if true {',
    b'require "copy"; redirect :copy', b'keep;', b'if anyof(true, false { stop; }', b'require ["vacation"]; vacation "x";',
    b'vacation "x";', b'# c\nrequire ["body"]; if body :text :contains "x" { discard; }', b'# Filter: a\nkeep; # trailing comment\n',
]


def _outcome(p, data):
    try:
        ok = p.parse(data)
    except Exception as e:
        return ("exception", "%s: %s" % (type(e).__name__, e))
    if ok:
        buf = io.StringIO()
        for c in p.result:
            c.tosieve(target=buf)
        return ("True", buf.getvalue(), [[h.decode("latin-1") if isinstance(h, bytes) else h for h in c.hash_comments] for c in p.result])
    return ("False", p.error, p.error_pos)


def _factory_outcome():
    from sievelib.factory import FiltersSet
    out = []
    for conds in ([("Subject", ":regex", "a.*")], [("Subject", ":count", "1")], [("Subject", ":is", "x")],
                  [("envelope", ":regex", ["from"], ["x"])], [("body", ":raw", ":regex", "x")]):
        fs = FiltersSet("t")
        try:
            fs.addfilter("r", conds, [("keep",)])
            out.append(("ok", str(fs)))
        except Exception as e:
            out.append(("raise", type(e).__name__, str(e)))
    return out


def bounded_histories(pid, tier, seed):
    import subprocess, json, os
    from sievelib.parser import Parser
    n = len(HISTORY_CORPUS)
    # pristine outcomes: one fresh interpreter per script / for the factory probes
    code = ("import sys, json; sys.path.insert(0, %r); sys.path.insert(0, %r)\n"
            "from bounded import parser_bounded as pb\nfrom sievelib.parser import Parser\n"
            "i = int(sys.argv[1])\n"
            "print(json.dumps(pb._factory_outcome() if i < 0 else pb._outcome(Parser(), pb.HISTORY_CORPUS[i])))\n")
    verif = os.path.dirname(os.path.dirname(os.path.abspath(__file__)))
    repo = os.environ.get("SIEVELIB_REPO", "/repo")
    pristine = {}
    for i in list(range(n)) + [-1]:
        out = subprocess.run([sys.executable, "-c", code % (repo, verif), str(i)], capture_output=True, text=True, timeout=120)
        try:
            pristine[i] = json.loads(out.stdout.strip().splitlines()[-1])
        except Exception:
            pristine[i] = ["exception", "pristine interpreter failed: " + out.stderr.strip()[-200:]]
    evals = 0
    findings = Findings()
    samples = []
    depth = 2 if tier == "quick" else 3
    for hist in itertools.product(range(n), repeat=depth):
        p = Parser()
        for k, i in enumerate(hist):
            got = json.loads(json.dumps(_outcome(p, HISTORY_CORPUS[i])))
            evals += 1
            if got != pristine[i]:
                findings.note((pid, "parser-history"), " ; ".join(HISTORY_CORPUS[j].decode() for j in hist[:k + 1]),
                              "outcome %r after that history, %r in a pristine interpreter" % (got[:2], pristine[i][:2]))
                break
        else:
            # interleave: other Parser objects and a FiltersSet after this history
            q = Parser()
            g2 = json.loads(json.dumps(_outcome(q, HISTORY_CORPUS[hist[0]])))
            if g2 != pristine[hist[0]]:
                findings.note((pid, "second-parser"), HISTORY_CORPUS[hist[0]].decode(), "differs on a second Parser object")
        fo = json.loads(json.dumps(_factory_outcome()))
        evals += 1
        if fo != pristine[-1]:
            k = next(j for j in range(len(fo)) if fo[j] != pristine[-1][j])
            findings.note((pid, "factory-after-parse.probe%d" % k), " ; ".join(HISTORY_CORPUS[j].decode() for j in hist),
                          "FiltersSet.addfilter gives %r after that history, %r in a pristine interpreter" % (fo[k][:2], pristine[-1][k][:2]))
        elif len(samples) < 2:
            samples.append({"history": [HISTORY_CORPUS[j].decode() for j in hist], "verdict": "same as pristine"})
    return {"name": "histories", "bound": "all histories of %d scripts from a %d-script corpus on one reused Parser (+ a second Parser, + 5 "
            "FiltersSet probes after each history): %d outcomes compared with pristine interpreters" % (depth, n, evals),
            "rule": "distinct = history", "evaluations": evals, "distinct": n ** depth, "samples": samples, "exhaustive": True,
            "violations": findings.violations(pid, "histories", (pid,))}


# ----------------------------------------------------------------------------- C04 / C20: serialise and re-parse

def roundtrip_problems(data, r=None):
    """for an accepted script: tosieve of every top-level command must be accepted again, parse to an equal tree, and
    printing that second tree must reproduce the same text (fixed point).  -> [(class, detail)]"""
    from sievelib.parser import Parser
    if r is None:
        r = real_parse(data)
    if r["verdict"] is not True:
        return []
    try:
        buf = io.StringIO()
        for c in r["result"]:
            c.tosieve(target=buf)
        text1 = buf.getvalue()
    except Exception as e:
        return [("tosieve-raises", "%s: %s" % (type(e).__name__, e))]
    p2 = Parser()
    try:
        ok2 = p2.parse(text1)
    except Exception as e:
        return [("reparse-raises", "%s: %s on %r" % (type(e).__name__, e, text1[-80:]))]
    if not ok2:
        return [("printed-text-rejected", "%s ; printed text ends %r" % (p2.error, text1[-80:]))]
    d = tree_diff(real_tree(p2.result), real_tree(r["result"]))
    if d:
        return [("reparsed-tree-differs", d)]
    buf2 = io.StringIO()
    for c in p2.result:
        c.tosieve(target=buf2)
    if buf2.getvalue() != text1:
        return [("not-a-fixed-point", "second print differs: %r vs %r" % (buf2.getvalue()[-60:], text1[-60:]))]
    return []


def bounded_custom(pid, tier, seed):
    """uses of registered custom commands enumerated from their definitions (+ single-token edits), against the reference
    recognizer extended with the same definitions, and serialised / re-parsed"""
    from sievelib import commands
    from contracts import custom
    from bounded import sieve_gen as g
    rng = random.Random(seed or 1)
    descs = custom.descriptions(tier if tier == "thorough" else "quick", seed or 1)
    if tier != "thorough":
        descs = descs[::1]
    if tier == "thorough":
        descs = descs + custom.descriptions("thorough", (seed or 1) + 1)[60:110]
    evals = 0
    distinct = set()
    findings = Findings()
    samples = []
    for d in descs:
        cls, S = custom.make_custom(d)
        name = cls.__name__[:-len("Command")].lower()
        table = dict(ref.frozen.COMMANDS)
        table[name] = S
        commands.add_commands(cls)
        try:
            head = [b"require", b"[", b'"xext"', b"]", b";"] if S["ext"] else []
            uses = g.command_variants(name, S)
            for k, v in enumerate(uses):
                if S["kind"] == "action":
                    toks = head + [name.encode()] + v + [b";"]
                else:
                    toks = head + [b"if", name.encode()] + v + [b"{", b"stop", b";", b"}"]
                cases = [("use", toks)] + [("edit:" + kind, t2) for kind, i, t2 in _edits_after(toks, len(head), rng, 8 if tier == "quick" else 25)]
                if S["ext"]:
                    cases.append(("without-require", toks[len(head):]))
                for label, t2 in cases:
                    data = b" ".join(t2)
                    evals += 1
                    distinct.add(data)
                    r = real_parse(data)
                    v2 = ref.verdict(data, table)
                    if r["verdict"] == "exception":
                        findings.note((pid, "exception"), data.decode("latin-1"), r["exc"])
                        continue
                    if v2.status == "valid" and r["verdict"] is not True:
                        findings.note((pid, "rejects-valid-use"), data.decode("latin-1"), r.get("error"))
                    elif v2.status == "invalid" and r["verdict"] is True:
                        findings.note((pid, "accepts-invalid-use." + v2.reason), data.decode("latin-1"), "reference: %s" % v2.reason)
                    elif v2.status == "valid":
                        dd = tree_diff(real_tree(r["result"]), ref_tree(v2.tree))
                        if dd:
                            findings.note((pid, "tree"), data.decode("latin-1"), dd)
                        for cls_, detail in roundtrip_problems(data, r):
                            findings.note((pid, "roundtrip." + cls_), data.decode("latin-1"), detail)
                        if not dd and len(samples) < 3 and label == "use" and k:
                            samples.append({"definition": repr(d)[:160], "use": data.decode("latin-1"), "verdict": "accepted, recorded under the defined names, re-parses equal"})
        finally:
            vars(commands).pop(cls.__name__, None)
    # re-registration: the same command name registered again with ANOTHER definition (after the first one has been
    # used) must be parsed according to the new definition
    actions = [d for d in descs if d[0] == "action" and not d[1]]
    pairs = [(actions[i], actions[j]) for i in range(min(len(actions), 6)) for j in range(min(len(actions), 12))
             if i != j and len(actions[i][3]) != len(actions[j][3])][: (12 if tier == "quick" else 40)]
    for (d1, d2) in pairs:
        cls1, S1 = custom.make_custom(d1)
        cls2, S2 = custom.make_custom(d2)
        shared = type("ReregisteredCommand", (commands.ActionCommand,), {"args_definition": cls1.args_definition, "extension": None})
        again = type("ReregisteredCommand", (commands.ActionCommand,), {"args_definition": cls2.args_definition, "extension": None})
        try:
            commands.add_commands(shared)
            for v in g.command_variants("reregistered", S1)[:2]:
                real_parse(b" ".join([b"reregistered"] + v + [b";"]))
            commands.add_commands(again)
            table = dict(ref.frozen.COMMANDS)
            table["reregistered"] = S2
            for v in g.command_variants("reregistered", S2)[:6] + g.command_variants("reregistered", S1)[:3]:
                data = b" ".join([b"reregistered"] + v + [b";"])
                evals += 1
                distinct.add(b"re:" + data)
                r = real_parse(data)
                v2 = ref.verdict(data, table)
                if r["verdict"] == "exception":
                    findings.note((pid, "exception"), data.decode("latin-1"), r["exc"])
                elif v2.status in ("valid", "invalid") and (v2.status == "valid") != (r["verdict"] is True):
                    findings.note((pid, "reregistered-name-not-parsed-by-its-new-definition"), data.decode("latin-1"),
                                  "reference (new definition): %s; parser: %r %r" % (v2.status, r["verdict"], r.get("error")))
        finally:
            vars(commands).pop("ReregisteredCommand", None)
    # unregistered names remain unknown
    r = real_parse(b'zzznotregistered "x";')
    evals += 1
    if not (r["verdict"] is False and "unknown command" in (r.get("error") or "")):
        findings.note((pid, "unregistered-known"), 'zzznotregistered "x";', repr(r.get("error")))
    return {"name": "custom-commands", "bound": "%d generated definitions of the documented shape; for each, every use enumerated "
            "from the definition (each tag alone, all tags in both orders, string/list forms) + single-token edits + the use "
            "without its require: %d scripts" % (len(descs), evals), "rule": "distinct = script text", "evaluations": evals,
            "distinct": len(distinct), "samples": samples, "exhaustive": False, "violations": findings.violations(pid, "custom", (pid,))}


def _edits_after(tokens, h, rng, n):
    from bounded import sieve_gen as g
    out = []
    if len(tokens) <= h:
        return out
    for _ in range(n):
        i = rng.randrange(h, len(tokens))
        kind = rng.choice(["delete", "insert", "replace", "swap"])
        t = list(tokens)
        if kind == "delete":
            del t[i]
        elif kind == "insert":
            t.insert(i, rng.choice(g.EDIT_TOKENS))
        elif kind == "replace":
            t[i] = rng.choice(g.EDIT_TOKENS)
        elif i + 1 < len(t):
            t[i], t[i + 1] = t[i + 1], t[i]
        out.append((kind, i, t))
    return out


QUOTING_VALUES = [b'"x"', b'"a\\"b"', b'"a\\\\"', b'"end\\""', b'"\\"start"', b'"a,b"', b'"[x]"', b'"multi\nline"', b'"caf\xc3\xa9"', b'""',
                  b'"a\\b"', b'" lead"', b'"\\\\\\""', b'"semi;colon"', b'"{brace}"', b'"#hash"', b'"/*c*/"', b'"a", "b"'[:3],
                  # dot-stuffed lines (only meaningful inside the text: templates; elsewhere the script is rejected and skipped)
                  b'..', b'..stuffed', b'...', b'.dotstart']
QUOTING_TEMPLATES = [b'require "fileinto"; fileinto %s;', b'if header :is [%s, "z"] [%s] { keep; }', b'if header :contains %s %s { stop; }',
                     b'require "vacation"; vacation :subject %s :addresses [%s] %s;', b'redirect %s;', b'require "reject"; reject %s;',
                     b'if exists [%s] { discard; }', b'if anyof (exists %s, not header :matches %s [%s, %s]) { keep; }',
                     b'require "reject"; reject text:\nline one\n%s\n.\n;',
                     b'require "vacation"; vacation :subject text:\nsubj %s\n.\n :days 7 text:\nreason\n.\n;',
                     b'require "vacation"; vacation :handle text:\nh\n.\n :subject %s "r";',
                     # a multi-line string as a list item (valid RFC 5228; rejected by the unchanged parser, so skipped there)
                     b'if header :is ["urgent", text:\nline %s\n.\n] "b" { keep; }']


def bounded_roundtrip(pid, tier, seed):
    """print / re-parse / fixed point on accepted scripts: generated scripts x styles, quoting edge-case values, and the
    accepted token sequences of the exhaustive enumeration"""
    from bounded import sieve_gen as g
    evals = 0
    distinct = set()
    findings = Findings()
    samples = []

    def one(data):
        nonlocal evals
        r = real_parse(data)
        if r["verdict"] is not True:
            return
        evals += 1
        distinct.add(data)
        probs = roundtrip_problems(data, r)
        for cls, detail in probs:
            if b"text:" in data:
                cls += "+multiline"
            findings.note((pid, cls), data.decode("latin-1"), detail)
        if not probs and len(samples) < 3 and len(data) < 90 and b"\\" in data:
            samples.append({"script": data.decode("latin-1"), "verdict": "re-parses to an equal tree; printing is a fixed point"})

    for toks in g.scripts(seed or 1):
        for style in ((0, 2, 5) if tier == "quick" else range(12)):
            one(g.render(toks, style))
    for v in QUOTING_VALUES:
        for tmpl in QUOTING_TEMPLATES:
            one(tmpl.replace(b"%s", v))
    for _name, data in RFC_CORNERS:       # the example scripts of the RFCs and the grammar corners (defined below)
        one(data)
    # accepted sequences of the token enumeration (depth 4 quick / 5 thorough), sequentially and with a budget
    t0 = time.time()
    budget = 40 if tier == "quick" else 600

    def visit(seq, maxlen):
        if time.time() - t0 > budget:
            return
        data = b" ".join(seq)
        r = real_parse(data)
        if r["verdict"] is True and seq:
            one(data)
        if len(seq) >= maxlen:
            return
        if r["verdict"] is False and "end of script reached" not in (r.get("error") or ""):
            return
        for t in VOCAB:
            visit(seq + [t], maxlen)

    visit([], 4 if tier == "quick" else 5)
    return {"name": "print-parse-round-trip", "bound": "accepted scripts among: generated scripts x rendering styles, %d quoting edge-case "
            "values x %d templates, token sequences up to %d tokens: %d accepted scripts round-tripped" %
            (len(QUOTING_VALUES), len(QUOTING_TEMPLATES), 4 if tier == "quick" else 5, evals), "rule": "distinct = script text",
            "evaluations": evals, "distinct": len(distinct), "samples": samples, "exhaustive": False,
            "violations": findings.violations(pid, "roundtrip", (pid,))}


# ----------------------------------------------------------------------------- C07: removing a needed extension

def bounded_removal(pid, tier, seed):
    """C07 (converse clause): every generated valid script, with one capability taken out of its require at a time:
    if the reference says an extension is now missing, the parser must reject the script with the message
    `extension '<name>' not loaded` naming the FIRST missing extension in script order; if the capability was not
    needed, the script stays accepted"""
    from bounded import sieve_gen as g
    evals = 0
    distinct = set()
    findings = Findings()
    samples = []
    h = len(g.require_all())
    S = g.scripts(seed or 1)
    if tier == "quick":
        S = S[::3]
    for toks in S:
        body = toks[h:]
        base = ref.verdict_tokens(ref.lex(b" ".join(toks)))
        if base.status != "valid" or real_parse(g.render(toks, 0))["verdict"] is not True:
            continue      # (scripts the parser rejects although they are valid are C01's business: listed findings there)
        for drop in g.ALL_CAPS:
            caps = [c for c in g.ALL_CAPS if c != drop]
            t2 = [b"require"] + g._list_tokens([b'"%s"' % c.encode() for c in caps]) + [b";"] + body
            for style in ((0,) if tier == "quick" else (0, 5)):
                data = g.render(t2, style)
                evals += 1
                distinct.add(data)
                v2 = ref.verdict(data)
                r = real_parse(data)
                if r["verdict"] == "exception":
                    findings.note((pid, "removal.exception"), data.decode("latin-1"), r["exc"])
                    continue
                if v2.status == "valid":
                    if r["verdict"] is not True:
                        findings.note((pid, "removal.unneeded-capability-removed-but-rejected"), data.decode("latin-1"), r.get("error"))
                elif v2.status == "invalid" and v2.reason == "extension-not-loaded":
                    want = "extension '%s' not loaded" % v2.missing_ext
                    if r["verdict"] is True:
                        findings.note((pid, "removal.accepted-without-%s" % v2.missing_ext), data.decode("latin-1"), "accepted although %r is used and not required" % v2.missing_ext)
                    elif not (r.get("error") or "").endswith(want):
                        findings.note((pid, "removal.message"), data.decode("latin-1"), "error %r, expected ...%r" % (r.get("error"), want))
                    elif len(samples) < 3:
                        samples.append({"script": data.decode("latin-1")[-90:], "removed": drop, "error": r.get("error")})
    return {"name": "capability-removal", "bound": "%d generated valid scripts x each of %d capabilities removed from the require in turn: %d scripts"
            % (len(S), len(g.ALL_CAPS), evals), "rule": "distinct = script bytes", "evaluations": evals, "distinct": len(distinct),
            "samples": samples, "exhaustive": True, "violations": findings.violations(pid, "removal", (pid,))}


# ----------------------------------------------------------------------------- C01: hand-written corners of the RFC grammar

RFC_CORNERS = [
    ("multi-line-string-as-list-item", b'if header :is ["a", text:\nx\n.\n] "b" { keep; }'),
    ("multi-line-string-as-only-list-item", b'if exists [text:\nX-Spam\n.\n] { discard; }'),
    ("multi-line-string-as-positional", b'redirect text:\nuser@example.org\n.\n;'),
    ("multi-line-with-comment-after-text", b'redirect text: # to whom\nuser@example.org\n.\n;'),
    ("dot-stuffed-line", b'require "reject"; reject text:\n..hidden\nplain\n.\n;'),
    ("nested-test-lists", b'if anyof (allof (true, not false), not anyof (false, exists "X")) { stop; }'),
    ("empty-block", b'if true { }'),
    ("elsif-else-chain", b'if false { keep; } elsif true { stop; } elsif false { discard; } else { keep; }'),
    ("block-in-else-in-block", b'if true { if false { keep; } else { if true { stop; } } }'),
    ("comments-everywhere", b'# c\nif /* a */ header /* b */ :is # c\n "a" /* d */ "b" /* e */ { /* f */ keep /* g */ ; # h\n }'),
    ("upper-case-everything", b'REQUIRE ["fileinto"]; IF HEADER :IS "A" "B" { FILEINTO "X"; }'),
    ("number-quantifiers", b'if anyof (size :over 1K, size :under 2m, size :over 3G, size :under 4) { keep; }'),
    ("comparator-tag", b'if header :comparator "i;octet" :contains "Subject" "x" { keep; }'),
    ("escapes-in-strings", b'if header :is "a\\"b" "c\\\\" { keep; }'),
    ("single-string-for-list", b'if exists "X" { keep; }'),
    ("crlf-line-endings", b'if true {\r\n  keep;\r\n}\r\n'),
    ("crlf-inside-multi-line", b'redirect text:\r\nuser@example.org\r\n.\r\n;'),
    # example scripts of the RFCs (typed in from the documents; the reference drops what it does not call valid)
    ("rfc5228-9-example", b'#\n# Example Sieve Filter\n# Declare any optional features or extension used by the script\n#\nrequire ["fileinto"];\n\n'
                          b'#\n# Handle messages from known mailing lists\n# Move messages from IETF filter discussion list to filter mailbox\n#\n'
                          b'if header :is "Sender" "owner-ietf-mta-filters@imc.org"\n        {\n        fileinto "filter";  # move to "filter" mailbox\n        }\n'
                          b'#\n# Keep all messages to or from people in my company\n#\nelsif address :DOMAIN :is ["From", "To"] "example.com"\n        {\n'
                          b'        keep;               # keep in "In" mailbox\n        }\n\n#\n# Try and catch unsolicited email.  If a message is not to me,\n'
                          b'# or it contains a subject known to be spam, file it away.\n#\nelsif anyof (NOT address :all :contains\n'
                          b'               ["To", "Cc", "Bcc"] "me@example.com",\n             header :matches "subject"\n'
                          b'               ["*make*money*fast*", "*university*dipl*mas*"])\n        {\n        fileinto "spam";   # move to "spam" mailbox\n        }\n'
                          b'else\n        {\n        # Move all other (non-company) mail to "personal"\n        # mailbox.\n        fileinto "personal";\n        }\n'),
    ("rfc5228-size-and-discard", b'if size :over 100k { # this is a comment\n   discard;\n}\n'),
    ("rfc5228-bracket-comment", b'if size :over 100K { /* this is a comment\n   this is still a comment */ discard /* this is a comment\n   */ ;\n}\n'),
    ("rfc5228-header-list", b'if header :contains ["From", "To"] ["me@example.com", "me00@landru.example.com"] { keep; }'),
    ("rfc5228-exists", b'if not exists ["From","Date"] {\n   discard;\n}\n'),
    ("rfc5228-redirect", b'redirect "bart@example.com";'),
    ("rfc5228-stop", b'if header :contains "from" "coyote" {\n   discard;\n} elsif header :contains ["subject"] ["$$$"] {\n   discard;\n} else {\n   stop;\n}\n'),
    ("rfc5228-envelope", b'require "envelope";\nif envelope :all :is "from" "tim@example.com" {\n   discard;\n}\n'),
    ("rfc5228-address-localpart", b'if address :localpart :is "from" "tim" { keep; }'),
    ("rfc5228-reject-multiline", b'require ["reject"];\nif size :over 100K {\n    reject text:\nYour message is too big.  If you want to send me a big attachment,\nput it on a public web site and send me a URL.\n.\n;\n}\n'),
    ("rfc5230-vacation-1", b'require "vacation";\nif header :contains "subject" "cyrus" {\n    vacation "I\'m out -- send mail to cyrus-bugs";\n} else {\n    vacation "I\'m out -- call me at +1 304 555 0123";\n}\n'),
    ("rfc5230-vacation-days-subject", b'require "vacation";\nvacation :days 23 :addresses ["tjs@example.edu",\n                                  "ts4z@landru.example.edu"]\n"I\'m away until October 19.\nIf it\'s an emergency, call 911, I guess." ;\n'),
    ("rfc5230-vacation-mime", b'require "vacation";\nvacation :mime text:\nContent-Type: multipart/alternative; boundary=foo\n\n--foo\n\nI\'m at the beach relaxing.  Mmmm, surf...\n\n--foo--\n.\n;\n'),
    ("rfc5230-vacation-handle", b'require "vacation";\nvacation :handle "ran-away" "I\'m out";\n'),
    ("rfc6131-vacation-seconds", b'require ["vacation-seconds"];\nvacation :addresses ["tjs@example.edu", "ts4z@landru.example.edu"]\n         :seconds 1800\n         "I am in a meeting, and do not have access to email.";\n'),
    ("rfc5232-imap4flags", b'require ["fileinto", "imap4flags"];\nif size :over 500K {\n    setflag "\\\\Deleted";\n}\nif header :contains "from" "boss@frobnitzm.example.edu" {\n    setflag "\\\\Flagged";\n    fileinto "INBOX.From Boss";\n}\n'),
    ("rfc5232-keep-flags", b'require ["imap4flags"];\nif header :contains "Disposition-Notification-To" "mel@example.com" {\n    keep :flags "$MDNRequired";\n}\n'),
    ("rfc5232-fileinto-flags", b'require ["fileinto", "imap4flags"];\nfileinto :flags "\\\\Deleted" "INBOX.From Boss";\n'),
    ("rfc5232-hasflag", b'require ["imap4flags"];\nif hasflag :contains "MyVar" "Junk" {\n    discard;\n    stop;\n}\n'),
    ("rfc5173-body", b'require ["body", "fileinto"];\nif body :raw :contains "MAKE MONEY FAST" {\n        discard;\n}\nif body :content "text" :contains ["missile", "coordinates"] {\n        fileinto "secrets";\n}\nif body :text :contains "project schedule" {\n        fileinto "project/schedule";\n}\n'),
    ("rfc3894-copy", b'require ["copy", "fileinto"];\nif header :contains "Subject" "MAKE MONEY FAST" {\n    redirect :copy "postmaster@example.com";\n    discard;\n}\nfileinto :copy "incoming";\n'),
    ("rfc5490-mailbox-create", b'require ["fileinto", "mailbox"];\nfileinto :create "Partners";\n'),
    ("rfc5231-relational-count", b'require ["relational", "comparator-i;ascii-numeric"];\nif header :count "ge" :comparator "i;ascii-numeric" ["to", "cc"] ["3"] { discard; }'),
    ("rfc5231-relational-value", b'require ["relational"];\nif header :value "lt" ["x-priority"] ["3"] { keep; }'),
    ("rfc5260-currentdate", b'require ["date", "relational", "vacation"];\nif allof(currentdate :value "ge" "date" "2007-06-30",\n         currentdate :value "le" "date" "2007-07-07")\n{ vacation :days 7  "I\'m away during the first week in July."; }\n'),
    ("rfc5260-currentdate-zone", b'require ["date", "relational", "fileinto"];\nif anyof(currentdate :is "weekday" "0", currentdate :zone "-0800" :is "weekday" "6")\n{ fileinto "weekend"; }\n'),
]


INVALID_CORNERS = [b'if true keep;', b'if true { keep }', b'if (true) { keep; }', b'if anyof true { keep; }', b'if anyof () { keep; }', b'if anyof (true,) { keep; }',
                   b'if anyof (,true) { keep; }', b'keep; else { keep; }', b'if true { keep; } else { keep; } else { stop; }', b'if true { keep; } elsif { stop; }',
                   b'elsif true { keep; }', b'if not { keep; }', b'if not not { keep; }', b'if true { keep; };', b';', b'keep;;', b'if true {{ keep; }}', b'if true { keep; }}',
                   b'stop stop;', b'keep "x";', b'discard :copy;', b'redirect;extra', b'redirect "a" "b";', b'redirect ["a","b"] ;', b'redirect 5;',
                   b'if size :over "10K" { keep; }', b'if size :over 10 K { keep; }', b'if size 10K { keep; }', b'if size :over :under 10K { keep; }',
                   b'if header "a" "b" :is { keep; }', b'if header :is ["a" "b"] "c" { keep; }', b'if header :is ["a",] "c" { keep; }', b'if header :is [] "c" { keep; }',
                   b'if true { keep; } if', b'require "fileinto" fileinto "x";', b'require ["fileinto"]; fileinto "x" { keep; }', b'if true { require "fileinto"; }',
                   b'keep; require "fileinto";', b'if header :comparator :is "a" "b" { keep; }', b'if header :comparator "i;octet" "i;octet" :is "a" "b" { keep; }',
                   b'if true { keep; } # trailing\n/* open', b'text:\nx\n.\n;', b'redirect "unterminated;', b'redirect "a\\";', b'if true { keep; } else if true { stop; }',
                   b'IF TRUE { KEEP; } ELSE { STOP; } ELSIF TRUE { KEEP; }']


def bounded_rfc_corners(pid, tier, seed):
    """hand-written valid scripts, one per rarely used corner of the RFC 5228 grammar: the reference must call each valid
    (else the case is dropped as a mistake of mine) and the parser must accept it"""
    evals = 0
    violations = []
    samples = []
    for name, data in RFC_CORNERS:
        v = ref.verdict(data)
        if v.status != "valid":
            continue
        evals += 1
        r = real_parse(data)
        if r["verdict"] is True:
            if len(samples) < 3:
                samples.append({"corner": name, "verdict": "accepted"})
        elif r["verdict"] == "exception":
            violations.append(("%s.P.corners.%s" % (pid, name), {"script": data.decode("latin-1")}, "raised %s" % r["exc"]))
        else:
            violations.append(("%s.P.corners.%s" % (pid, name), {"script": data.decode("latin-1")}, "rejected: %s" % r.get("error")))
    for k, data in enumerate(INVALID_CORNERS):
        v = ref.verdict(data)
        if v.status != "invalid":
            continue
        evals += 1
        r = real_parse(data)
        if r["verdict"] is True:
            violations.append(("%s.P.corners.accepts-invalid.%s" % (pid, v.reason), {"script": data.decode("latin-1")}, "accepted; reference: %s" % v.reason))
        elif r["verdict"] == "exception":
            violations.append(("%s.P.corners.exception" % pid, {"script": data.decode("latin-1")}, "raised %s" % r["exc"]))
    return {"name": "rfc-grammar-corners", "bound": "%d hand-written scripts: valid ones (grammar corners, RFC examples) and invalid ones (one grammar error each)" % evals,
            "rule": "distinct = script", "evaluations": evals, "distinct": evals, "samples": samples, "exhaustive": True, "violations": violations}


def bounded_rfc_corner_trees(pid, tier, seed):
    """C03 on the same hand-written pool: for every corner / RFC example the parser accepts, the tree equals the reference tree"""
    evals = 0
    violations = []
    samples = []
    for name, data in RFC_CORNERS:
        v = ref.verdict(data)
        r = real_parse(data)
        if v.status != "valid" or r["verdict"] is not True:
            continue
        evals += 1
        d = tree_diff(real_tree(r["result"]), ref_tree(v.tree))
        if d:
            violations.append(("%s.P.corners.tree.%s" % (pid, name), {"script": data.decode("latin-1")}, d))
        elif len(samples) < 3:
            samples.append({"corner": name, "verdict": "tree equals the reference tree"})
    return {"name": "rfc-grammar-corners-trees", "bound": "%d hand-written valid scripts (grammar corners, RFC examples)" % evals,
            "rule": "distinct = script", "evaluations": evals, "distinct": evals, "samples": samples, "exhaustive": True, "violations": violations}
