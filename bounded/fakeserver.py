"""Executable reference model of an RFC 5804 ManageSieve server behind a socket-like object.

Used for native replays of counter-models and by the bounded stand-ins.  It parses what the client writes with
a STRICT RFC 5804 command parser (violations are logged, never tolerated silently), keeps a script store and an
active pointer, and answers with configurable reply encodings, faults and recv() segmentation.
"""
import re
import socket


class ProtocolViolation(Exception):
    pass


def parse_commands(buf):
    """Strict parser: returns (list of (verb, [args]), rest).  args are bytes (strings) or int (numbers).
    Raises ProtocolViolation on anything RFC 5804 does not allow."""
    cmds = []
    pos = 0
    n = len(buf)
    while True:
        start = pos
        # a command line: verb *(SP arg) CRLF ; literals may span lines
        m = re.compile(rb"[A-Za-z]+").match(buf, pos)
        if m is None:
            if pos == n:
                return cmds, b""
            # continuation lines of SASL exchanges are quoted strings / literals on their own
            m2 = _string_at(buf, pos)
            if m2 is None:
                raise ProtocolViolation("expected a command verb at %r" % buf[pos:pos + 30])
            if m2 == "incomplete":
                return cmds, buf[start:]
            val, pos2 = m2
            if buf[pos2:pos2 + 2] != b"\r\n":
                if pos2 + 2 > n:
                    return cmds, buf[start:]
                raise ProtocolViolation("garbage after continuation string")
            cmds.append((b"<continuation>", [val]))
            pos = pos2 + 2
            continue
        verb = m.group(0).upper()
        pos = m.end()
        args = []
        while True:
            if buf[pos:pos + 2] == b"\r\n":
                pos += 2
                break
            if pos >= n or (buf[pos:pos + 1] == b"\r" and pos + 1 >= n):
                return cmds, buf[start:]
            if buf[pos:pos + 1] != b" ":
                raise ProtocolViolation("expected SP or CRLF after %r, got %r" % (buf[start:pos], buf[pos:pos + 10]))
            pos += 1
            if pos >= n:
                return cmds, buf[start:]
            mnum = re.compile(rb"[0-9]+").match(buf, pos)
            if mnum is not None:
                args.append(int(mnum.group(0)))
                pos = mnum.end()
                if pos >= n:
                    return cmds, buf[start:]
                continue
            r = _string_at(buf, pos)
            if r is None:
                raise ProtocolViolation("malformed argument at %r" % buf[pos:pos + 30])
            if r == "incomplete":
                return cmds, buf[start:]
            val, pos = r
            args.append(val)
        cmds.append((verb, args))


def _string_at(buf, pos):
    """quoted or literal string at pos -> (value, newpos) | None (malformed) | 'incomplete'"""
    n = len(buf)
    if buf[pos:pos + 1] == b'"':
        i = pos + 1
        out = bytearray()
        while True:
            if i >= n:
                return "incomplete"
            c = buf[i:i + 1]
            if c == b"\\":
                if i + 1 >= n:
                    return "incomplete"
                d = buf[i + 1:i + 2]
                if d not in (b"\\", b'"'):
                    return None  # RFC 5804: only \\ and \" are legal escapes
                out += d
                i += 2
                continue
            if c == b'"':
                return bytes(out), i + 1
            if c in (b"\r", b"\n", b"\x00"):
                return None  # CR, LF, NUL are not allowed inside a quoted string
            out += c
            i += 1
    m = re.compile(rb"\{([0-9]+)\+\}\r\n").match(buf, pos)
    if m is not None:
        ln = int(m.group(1))
        if m.end() + ln > n:
            return "incomplete"
        return buf[m.end():m.end() + ln], m.end() + ln
    if re.compile(rb"\{[0-9]*\+?\}?\r?$").match(buf, pos):
        return "incomplete"
    if re.compile(rb"\{[0-9]+\}\r\n").match(buf, pos):
        return None  # synchronising literals are not allowed from the client
    return None


def quote(b):
    return b'"' + b.replace(b"\\", b"\\\\").replace(b'"', b'\\"') + b'"'


def literal(b):
    return b"{%d}\r\n" % len(b) + b


class FakeServer:
    """socket-like; `scripts` maps name(str) -> content(bytes)"""

    CAPS = [b'"IMPLEMENTATION" "reference"', b'"SASL" "PLAIN"', b'"SIEVE" "fileinto"', b'"VERSION" "1.0"']

    def __init__(self, scripts=None, active=None, caps=None, faults=None, chunker=None, name_encoding="quoted",
                 body_encoding="literal", text_encoding="quoted", authenticated=True, codes=None):
        self.scripts = dict(scripts or {})
        self.active = active
        self.caps = list(self.CAPS if caps is None else caps)
        self.faults = dict(faults or {})     # verb(str) -> list of 'NO' | 'BYE' | 'SILENCE' | 'SILENCE-APPLIED' | 'OK' consumed per call
        self.inbuf = b""
        self.outq = b""
        self.chunker = chunker              # callable(available_bytes, requested) -> n bytes to deliver
        self.log = []                       # commands received
        self.violations = []
        self.sent_raw = []
        self.name_encoding = name_encoding
        self.body_encoding = body_encoding
        self.text_encoding = text_encoding
        self.authenticated = authenticated
        self.closed = False
        self.silent = False
        self.codes = codes or {}
        self.recv_calls = 0

    # --- socket API
    def settimeout(self, t):
        pass

    def close(self):
        self.closed = True

    def sendall(self, data):
        self.sent_raw.append(bytes(data))
        self.inbuf += bytes(data)
        try:
            cmds, rest = parse_commands(self.inbuf)
        except ProtocolViolation as e:
            self.violations.append(str(e))
            self.inbuf = b""
            self.outq += b'BYE "protocol violation"\r\n'
            return
        self.inbuf = rest
        for verb, args in cmds:
            self.log.append((verb, args))
            self.execute(verb.decode("ascii"), args)

    def recv(self, n):
        self.recv_calls += 1
        if not self.outq:
            raise socket.timeout("timed out")
        k = n if self.chunker is None else max(1, min(n, self.chunker(len(self.outq), n)))
        k = min(k, len(self.outq))
        out, self.outq = self.outq[:k], self.outq[k:]
        return out

    # --- behaviour
    def _text(self, msg):
        if self.text_encoding == "literal":
            return literal(msg)
        return quote(msg)

    def _reply(self, status, msg=None, code=None):
        line = status
        if code:
            line += b" (" + code + b")"
        if msg is not None:
            line += b" " + self._text(msg)
        self.outq += line + b"\r\n"

    def _name(self, name):
        b = name.encode("utf-8")
        enc = self.name_encoding(name) if callable(self.name_encoding) else self.name_encoding
        return literal(b) if enc == "literal" else quote(b)

    def execute(self, verb, args):
        fl = self.faults.get(verb)
        fault = fl.pop(0) if fl else None
        if self.silent:
            return
        if fault == "BYE":
            self._reply(b"BYE", b"going away")
            self.silent = True
            return
        if fault == "SILENCE":
            self.silent = True
            return
        if fault == "NO":
            self._reply(b"NO", b"refused", self.codes.get(verb))
            return
        applied_then_silent = fault == "SILENCE-APPLIED"
        before = len(self.outq)
        self._do(verb, args)
        if applied_then_silent:
            self.outq = self.outq[:before]
            self.silent = True

    def _str_arg(self, args, i):
        if i >= len(args) or not isinstance(args[i], bytes):
            self.violations.append("argument %d is not a string: %r" % (i, args))
            return None
        try:
            return args[i].decode("utf-8")
        except UnicodeDecodeError:
            self.violations.append("argument %d is not UTF-8" % i)
            return None

    def _do(self, verb, args):
        needs_auth = verb in ("HAVESPACE", "LISTSCRIPTS", "GETSCRIPT", "PUTSCRIPT", "CHECKSCRIPT", "DELETESCRIPT",
                              "RENAMESCRIPT", "SETACTIVE")
        if needs_auth and not self.authenticated:
            self.violations.append("%s before authentication" % verb)
            self._reply(b"NO", b"authenticate first")
            return
        if verb == "CAPABILITY":
            for c in self.caps:
                self.outq += c + b"\r\n"
            self._reply(b"OK", b"Capability completed.")
        elif verb == "LOGOUT":
            self._reply(b"OK", b"bye")
        elif verb == "HAVESPACE":
            if len(args) != 2 or not isinstance(args[1], int):
                self.violations.append("HAVESPACE arguments %r" % (args,))
            self._reply(b"OK")
        elif verb == "LISTSCRIPTS":
            if args:
                self.violations.append("LISTSCRIPTS takes no argument")
            for name in self.scripts:
                self.outq += self._name(name) + (b" ACTIVE" if name == self.active else b"") + b"\r\n"
            self._reply(b"OK", b"Listscripts completed.")
        elif verb == "GETSCRIPT":
            name = self._str_arg(args, 0)
            if len(args) != 1:
                self.violations.append("GETSCRIPT arguments %r" % (args,))
            if name not in self.scripts:
                self._reply(b"NO", b"no such script", b"NONEXISTENT")
                return
            body = self.scripts[name]
            self.outq += (literal(body) if self.body_encoding == "literal" else quote(body)) + b"\r\n"
            self._reply(b"OK", b"Getscript completed.")
        elif verb == "PUTSCRIPT":
            name = self._str_arg(args, 0)
            if len(args) != 2 or not isinstance(args[1], bytes):
                self.violations.append("PUTSCRIPT arguments %r" % (args,))
                self._reply(b"NO", b"bad arguments")
                return
            self.scripts[name] = args[1]
            self._reply(b"OK", b"Putscript completed.")
        elif verb == "CHECKSCRIPT":
            if len(args) != 1 or not isinstance(args[0], bytes):
                self.violations.append("CHECKSCRIPT arguments %r" % (args,))
            self._reply(b"OK", b"Script checked.")
        elif verb == "DELETESCRIPT":
            name = self._str_arg(args, 0)
            if len(args) != 1:
                self.violations.append("DELETESCRIPT arguments %r" % (args,))
            if name not in self.scripts:
                self._reply(b"NO", b"no such script", b"NONEXISTENT")
            elif name == self.active:
                self._reply(b"NO", b"cannot delete the active script", b"ACTIVE")
            else:
                del self.scripts[name]
                self._reply(b"OK", b"Deletescript completed.")
        elif verb == "SETACTIVE":
            name = self._str_arg(args, 0)
            if len(args) != 1:
                self.violations.append("SETACTIVE arguments %r" % (args,))
            if name == "":
                self.active = None
                self._reply(b"OK", b"Setactive completed.")
            elif name not in self.scripts:
                self._reply(b"NO", b"no such script", b"NONEXISTENT")
            else:
                self.active = name
                self._reply(b"OK", b"Setactive completed.")
        elif verb == "RENAMESCRIPT":
            old, new = self._str_arg(args, 0), self._str_arg(args, 1)
            if old not in self.scripts:
                self._reply(b"NO", b"no such script", b"NONEXISTENT")
            elif new in self.scripts:
                self._reply(b"NO", b"exists", b"ALREADYEXISTS")
            else:
                self.scripts[new] = self.scripts.pop(old)
                if self.active == old:
                    self.active = new
                self._reply(b"OK", b"Renamescript completed.")
        elif verb == "AUTHENTICATE":
            self.authenticated = True
            self._reply(b"OK", b"Logged in.")
        elif verb == "STARTTLS":
            self._reply(b"OK", b"Begin TLS negotiation now.")
        elif verb == "NOOP":
            self._reply(b"OK", b"NOOP completed")
        else:
            self.violations.append("unknown command %s" % verb)
            self._reply(b"NO", b"unknown command")


def make_client(server, version=False):
    """a real sievelib Client attached to the fake server, already authenticated"""
    from sievelib import managesieve
    c = managesieve.Client("reference.example")
    c.sock = server
    c.authenticated = True
    caps = {"IMPLEMENTATION": "reference", "SASL": "PLAIN", "SIEVE": "fileinto"}
    if version:
        caps["VERSION"] = "1.0"
    setattr(c, "_Client__capabilities", caps)
    return c
