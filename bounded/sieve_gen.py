"""Grammar-directed generator of valid scripts (from the frozen table) and single-edit mutations of them."""
import itertools
import random

from contracts import tables_frozen as frozen
from bounded import sieve_ref as ref

ALL_CAPS = ["fileinto", "reject", "envelope", "body", "vacation", "vacation-seconds", "copy", "mailbox", "imap4flags",
            "relational", "regex", "date", "variables"]

STRINGS = [b'"x"', b'"two\r\nlines"', b'"a b"', b'"caf\xc3\xa9"', b'"with \\"quote\\""', b'"semi;colon"', b'"[brackets]"', b'"a,b"',
           b'"back\\\\slash"', b'""']
LISTS = [[b'"a"'], [b'"a"', b'"b"'], [b'"x,y"', b'"z"'], [b'"a"', b'"b"', b'"a"'], [b'"l1\r\nl2"', b'"l1\nl2"']]
MULTILINE = [b"text:\r\nhello\r\n.\r\n", b"text:\nline1\nline2\n.\n"]


def _param_value(prm, rng, k=0):
    if prm["type"] == "number":
        return [b"7"]
    if prm["values"]:
        return [prm["values"][k % len(prm["values"])].encode()]
    if prm["type"] == "stringlist" and k % 2:
        return _list_tokens(LISTS[k % len(LISTS)])
    return [STRINGS[k % len(STRINGS)]]


def _list_tokens(items):
    out = [b"["]
    for i, it in enumerate(items):
        if i:
            out.append(b",")
        out.append(it)
    out.append(b"]")
    return out


def _positional_tokens(p, k):
    t = p["type"]
    if t == "number":
        return [[b"1", b"10K", b"2m"][k % 3]]
    if t == "tag":
        return [p["values"][k % len(p["values"])].encode()]
    if t == "stringlist" and k % 3 == 1:
        return _list_tokens(LISTS[k % len(LISTS)])
    if t == "string" and k % 7 == 5:
        return [MULTILINE[k % len(MULTILINE)]]
    return [STRINGS[k % len(STRINGS)]]


def command_variants(name, spec, upper=False):
    """token lists for the argument part of a command (tags x orders x value forms), without tests/blocks"""
    tagged = spec["tagged"]
    options = []
    for t in tagged:
        for tag in t["tags"]:
            toks = [tag.upper().encode() if upper else tag.encode()]
            prm = t["param"]
            if prm is not None and (prm["only_for"] is None or tag in prm["only_for"]):
                toks = [toks]  # placeholder, parameter appended per variant
            options.append((t["name"], tag, t))
    variants = []
    subsets = [()]
    # each single tag, then all slots at once in both orders
    for (sname, tag, t) in options:
        subsets.append(((sname, tag, t),))
    by_slot = {}
    for o in options:
        by_slot.setdefault(o[0], o)
    allslots = tuple(by_slot.values())
    if len(allslots) > 1:
        subsets.append(allslots)
        subsets.append(tuple(reversed(allslots)))
    pos = [p for p in spec["positional"] if p["type"] not in ("test", "testlist")]
    for k, sub in enumerate(subsets):
        toks = []
        for (sname, tag, t) in sub:
            toks.append(tag.upper().encode() if (upper and k % 2) else tag.encode())
            prm = t["param"]
            if prm is not None and (prm["only_for"] is None or tag in prm["only_for"]):
                toks += _param_value(prm, None, k)
        for with_optional in ((False, True) if any(p["optional"] for p in pos) else (False,)):
            t2 = list(toks)
            for j, p in enumerate(pos):
                if p["optional"] and not with_optional:
                    continue
                t2 += _positional_tokens(p, k + j)
            variants.append(t2)
    # every value of a positional that is a tag (size :over / :under)
    for j, p in enumerate(pos):
        if p["type"] == "tag":
            for val in p["values"][1:]:
                t2 = []
                for j2, p2 in enumerate(pos):
                    if p2["optional"]:
                        continue
                    t2 += [val.encode()] if j2 == j else _positional_tokens(p2, j2)
                variants.append(t2)
    return variants


def test_variants(depth, k=0):
    """token lists of complete tests"""
    out = []
    for name, spec in frozen.COMMANDS.items():
        if spec["kind"] != "test":
            continue
        tp = [p for p in spec["positional"] if p["type"] in ("test", "testlist")]
        for v in command_variants(name, spec):
            base = [name.encode()] + v
            if not tp:
                out.append(base)
            elif depth > 0:
                inner = [[b"true"], [b"exists", b'"x"'], [b"not", b"false"]]
                if tp[0]["type"] == "test":
                    for i in inner[:2]:
                        out.append(base + i)
                else:
                    out.append(base + [b"("] + inner[0] + [b")"])
                    out.append(base + [b"("] + inner[0] + [b","] + inner[1] + [b","] + inner[2] + [b")"])
    return out


def nested_tests():
    """token lists of tests with nesting depth up to 3: not / allof / anyof combinations, nested test lists"""
    leaf = [[b"true"], [b"false"], [b"exists", b'"x"'], [b"header", b":is", b'"a"', b'"b"'], [b"size", b":over", b"1K"]]
    out = []
    for i, l in enumerate(leaf):
        l2 = leaf[(i + 1) % len(leaf)]
        out.append([b"not"] + l)
        out.append([b"not", b"not"] + l)
        out.append([b"not", b"not", b"not"] + l)
        out.append([b"anyof", b"("] + l + [b","] + l2 + [b")"])
        out.append([b"not", b"anyof", b"("] + l + [b")"])
        out.append([b"not", b"not", b"anyof", b"("] + l + [b","] + l2 + [b")"])
        out.append([b"allof", b"(", b"anyof", b"("] + l + [b")", b","] + l2 + [b")"])
        out.append([b"allof", b"(", b"anyof", b"("] + l + [b","] + l2 + [b")", b",", b"not"] + l + [b")"])
        out.append([b"anyof", b"(", b"not", b"not", b"allof", b"("] + l + [b")", b",", b"allof", b"("] + l2 + [b",", b"not"] + l + [b")", b")"])
        out.append([b"allof", b"(", b"allof", b"(", b"allof", b"("] + l + [b")", b")", b","] + l2 + [b")"])
    return out


def nested_scripts():
    """valid scripts exercising the push-down layer: nested blocks, elsif/else chains at several depths, commands after
    closed blocks, nested test lists"""
    head = require_all()
    tests = nested_tests()
    out = []
    a = [[b"keep", b";"], [b"stop", b";"], [b"discard", b";"], [b"redirect", b'"x"', b";"]]
    for i, t in enumerate(tests):
        t2 = tests[(i + 3) % len(tests)]
        a1, a2, a3 = a[i % 4], a[(i + 1) % 4], a[(i + 2) % 4]
        out.append(head + [b"if"] + t + [b"{"] + a1 + [b"}"])
        out.append(head + [b"if"] + t + [b"{"] + a1 + [b"}", b"elsif"] + t2 + [b"{"] + a2 + [b"}", b"else", b"{"] + a3 + [b"}"] + a1)
        out.append(head + [b"if"] + t + [b"{", b"if"] + t2 + [b"{"] + a1 + [b"}", b"else", b"{"] + a2 + [b"}"] + a3 + [b"}"] + a2)
        out.append(head + [b"if"] + t + [b"{", b"if"] + t2 + [b"{", b"if", b"true", b"{"] + a1 + [b"}", b"elsif", b"false", b"{"] + a2
                   + [b"}"] + a3 + [b"}", b"elsif"] + t + [b"{"] + a1 + [b"}"] + a2 + [b"}"] + a3 + [b"if"] + t2 + [b"{"] + a1 + [b"}"])
    return out


CONSTRUCTS = [[b"else", b"{", b"stop", b";", b"}"], [b"elsif", b"true", b"{", b"stop", b";", b"}"], [b"if", b"true", b"{", b"}"],
              [b"/* c */"], [b"# c\n"], [b"not"], [b"(", b"true", b")"], [b"anyof", b"(", b"true", b")"]]


def construct_edits(tokens, rng, n):
    """edits that insert or remove a whole construct (an else/elsif branch, a block, a comment, a `not`, a test list)"""
    out = []
    h = len(require_all())
    if len(tokens) <= h:
        return out
    for _ in range(n):
        kind = rng.choice(["insert-construct", "insert-construct", "unblock", "drop-group", "dup-token"])
        t = list(tokens)
        if kind == "insert-construct":
            i = rng.randrange(h, len(t) + 1)
            t[i:i] = rng.choice(CONSTRUCTS)
        elif kind == "unblock":
            opens = [i for i in range(h, len(t)) if t[i] == b"{"]
            if not opens:
                continue
            i = rng.choice(opens)
            d, j = 0, i
            while j < len(t):
                d += (t[j] == b"{") - (t[j] == b"}")
                if d == 0:
                    break
                j += 1
            t[i:j + 1] = [b";"]
        elif kind == "drop-group":
            opens = [i for i in range(h, len(t)) if t[i] in (b"(", b"[")]
            if not opens:
                continue
            i = rng.choice(opens)
            close = b")" if t[i] == b"(" else b"]"
            d, j = 0, i
            while j < len(t):
                d += (t[j] == t[i]) - (t[j] == close)
                if d == 0:
                    break
                j += 1
            del t[i:j + 1]
        else:
            i = rng.randrange(h, len(t))
            t.insert(i, t[i])
        out.append((kind, 0, t))
    return out


def action_variants():
    out = []
    for name, spec in frozen.COMMANDS.items():
        if spec["kind"] == "test" or spec["block"] or name == "require":
            continue
        for v in command_variants(name, spec):
            out.append([name.encode()] + v + [b";"])
    return out


def require_all():
    return [b"require"] + _list_tokens([b'"%s"' % c.encode() for c in ALL_CAPS]) + [b";"]


def scripts(seed=0, limit=None):
    """valid scripts as token lists (each starts with a require of every capability)"""
    rng = random.Random(seed)
    acts = action_variants()
    tests = test_variants(1)
    out = []
    head = require_all()
    # every action alone
    for a in acts:
        out.append(head + a)
    # every test in an if with one action
    for i, t in enumerate(tests):
        a = acts[i % len(acts)]
        out.append(head + [b"if"] + t + [b"{"] + a + [b"}"])
    # structure: elsif / else chains, nesting, comments, case, line endings are applied by render()
    for i in range(60):
        t1, t2 = rng.choice(tests), rng.choice(tests)
        a1, a2, a3 = rng.choice(acts), rng.choice(acts), rng.choice(acts)
        s = head + [b"if"] + t1 + [b"{"] + a1 + [b"if"] + t2 + [b"{"] + a2 + [b"}"] + [b"}"]
        if i % 2:
            s += [b"elsif"] + t2 + [b"{"] + a3 + [b"}"]
        if i % 3:
            s += [b"else"] + [b"{"] + a1 + a2 + [b"}"]
        s += a3
        out.append(s)
    if limit:
        out = out[:limit]
    return out


def render(tokens, style=0):
    """token list -> script bytes; style varies white space / line endings / comments / identifier case"""
    sep = [b" ", b"\n", b"\r\n", b" \t "][style % 4]
    parts = []
    for i, t in enumerate(tokens):
        if style >= 4 and t[:1].isalpha() and not t.startswith(b"text:"):
            t = t.upper() if i % 2 else t.capitalize()
        parts.append(t)
        if style >= 8 and i % 5 == 2 and not t.startswith(b"text:"):
            parts.append(b"/* c */" if i % 2 else b"# c\n")
    data = sep.join(parts)
    return data


EDIT_TOKENS = [b";", b"{", b"}", b"(", b")", b"[", b"]", b",", b'"x"', b":is", b":bogus", b"stop", b"true", b"1", b"bogus"]


def single_edits(tokens, rng, n):
    """n random single-token edits (delete / insert / replace / swap) of a token list (after the require header)"""
    out = []
    h = len(require_all())
    if len(tokens) <= h:
        return out
    for _ in range(n):
        i = rng.randrange(h, len(tokens))
        kind = rng.choice(["delete", "insert", "replace", "swap"])
        t = list(tokens)
        if kind == "delete":
            del t[i]
        elif kind == "insert":
            t.insert(i, rng.choice(EDIT_TOKENS))
        elif kind == "replace":
            t[i] = rng.choice(EDIT_TOKENS)
        elif i + 1 < len(t):
            t[i], t[i + 1] = t[i + 1], t[i]
        out.append((kind, i, t))
    return out
