"""Bounded stand-ins for the client-side properties whose string goals the solvers do not decide
(reply decoding: C09.S2/S4, C15.I, C17; segmentation end-to-end: C05; strict wire parse: C08).

Everything here runs the REAL client natively against the reference server / canned replies.  Domains are finite
and enumerated exhaustively; the bound is stated in each report.  Never counted as proved.
"""
import itertools
import random
import socket

from bounded.fakeserver import FakeServer, make_client, quote, literal, parse_commands, ProtocolViolation

OPS = ["havespace", "listscripts", "getscript", "putscript", "checkscript", "deletescript", "renamescript", "setactive"]
OP_ARGS = {"havespace": ("s1", 10), "listscripts": (), "getscript": ("s1",), "putscript": ("s1", "keep;\r\n"),
           "checkscript": ("keep;",), "deletescript": ("s1",), "renamescript": ("s1", "s2"), "setactive": ("s1",)}


class CannedSocket:
    """answers the k-th command with the k-th canned reply, delivered through `chunker`"""

    def __init__(self, replies, chunker=None):
        self.replies = list(replies)
        self.outq = b""
        self.inbuf = b""
        self.chunker = chunker
        self.cmds = []
        self.violations = []

    def settimeout(self, t):
        pass

    def close(self):
        pass

    def sendall(self, data):
        self.inbuf += bytes(data)
        try:
            cmds, rest = parse_commands(self.inbuf)
        except ProtocolViolation as e:
            self.violations.append(str(e))
            cmds, rest = [(b"?", [])], b""
        self.inbuf = rest
        for cmd in cmds:
            self.cmds.append(cmd)
            if self.replies:
                self.outq += self.replies.pop(0)

    def recv(self, n):
        if not self.outq:
            raise socket.timeout("timed out")
        k = n if self.chunker is None else max(1, min(n, self.chunker(len(self.outq), n)))
        out, self.outq = self.outq[:k], self.outq[k:]
        return out


def client_on(sock, version=True):
    from sievelib import managesieve
    c = managesieve.Client("reference.example")
    c.sock = sock
    c.authenticated = True
    caps = {"IMPLEMENTATION": "reference", "SASL": "PLAIN", "SIEVE": "fileinto"}
    if version:
        caps["VERSION"] = "1.0"
    setattr(c, "_Client__capabilities", caps)
    return c


# ----------------------------------------------------------------------------- status replies (RFC 5804 1.2 / 1.3)

CODE_POOL = {"none": [None], "atom": [b"QUOTA", b"NONEXISTENT", b"ACTIVE"], "slashed": [b"QUOTA/MAXSIZE", b"QUOTA/MAXSCRIPTS"],
             "params": [b'TAG "xyz"', b'REFERRAL "sieve://other.example"']}
TEXT_POOL = {
    "none": [None],
    "quoted": [b"Quota exceeded", b"x", b"No such script (really)", b"caf\xc3\xa9", b"a b  c", b"OK done", b"{12}"],
    "quoted-empty": [b""],
    "quoted-escaped": [b'say "hi"', b'back\\slash', b'"', b'ends with quote"'],
    "literal": [b"Quota exceeded", b"two\r\nlines", b"", b'with "quotes"'],
}


def status_replies(statuses=("OK", "NO", "BYE")):
    """(shape id, raw reply bytes, status, code|None, text|None)"""
    for st in statuses:
        for ck, codes in CODE_POOL.items():
            for tk, texts in TEXT_POOL.items():
                for ci, code in enumerate(codes):
                    for ti, text in enumerate(texts):
                        line = st.encode()
                        if code is not None:
                            line += b" (" + code + b")"
                        if text is None:
                            raw = line + b"\r\n"
                        elif tk == "literal":
                            raw = line + b" " + literal(text) + b"\r\n"
                        else:
                            raw = line + b" " + quote(text) + b"\r\n"
                        yield ("%s.%s.%s" % (st, ck, tk), raw, st, code, text)


SENTINEL_CONTENT = b'"IMPLEMENTATION" "sentinel"\r\n'
SENTINEL_REPLY = SENTINEL_CONTENT + b"OK\r\n"
DATA_PREFIX = {"listscripts": b'"s1"\r\n"s2" ACTIVE\r\n', "getscript": b"{7}\r\nkeep;\r\n\r\n"}
EXPECT_DATA = {"listscripts": ("s2", ["s1"]), "getscript": "keep;"}


def run_op(c, op):
    from sievelib import managesieve
    try:
        return ("return", getattr(c, op)(*OP_ARGS[op]))
    except managesieve.Error as e:
        return ("Error", str(e))
    except Exception as e:
        return ("crash", "%s: %s" % (type(e).__name__, e))


def check_status_case(op, raw, st, code, text, chunker=None):
    """returns list of (clause, detail) problems for one (operation, status reply) case"""
    prefix = DATA_PREFIX.get(op, b"") if st == "OK" else b""
    sock = CannedSocket([prefix + raw, SENTINEL_REPLY], chunker)
    c = client_on(sock)
    kind, val = run_op(c, op)
    problems = []
    if st == "BYE":
        if kind != "Error":
            problems.append(("bye-raises-Error", "%s -> %s %r" % (op, kind, val)))
        return problems
    if kind != "return":
        problems.append(("status-reply-decoded", "%s on %r -> %s %s" % (op, raw, kind, val)))
        return problems
    if st == "OK":
        exp = EXPECT_DATA.get(op, True)
        if val != exp:
            problems.append(("ok-gives-success", "%s on %r returned %r, expected %r" % (op, raw, val, exp)))
    else:
        exp = None if op in ("listscripts", "getscript") else False
        if val is not exp and val != exp:
            problems.append(("no-gives-failure", "%s on %r returned %r" % (op, raw, val)))
        if c.errcode != (code or b""):
            problems.append(("errcode", "%s on %r: errcode %r, expected %r" % (op, raw, c.errcode, code or b"")))
        if c.errmsg != (text or b""):
            problems.append(("errmsg", "%s on %r: errmsg %r, expected %r" % (op, raw, c.errmsg, text or b"")))
    # sentinel: the next operation (one that returns content) must see exactly its own reply
    k2, v2 = run_op_args(c, "capability", ())
    if (k2, v2) != ("return", SENTINEL_CONTENT) or sock.outq or getattr(c, "_Client__read_buffer"):
        problems.append(("in-step", "after %s on %r the next command got %s %r; unread=%r buffer=%r"
                         % (op, raw, k2, v2, sock.outq, getattr(c, "_Client__read_buffer"))))
    return problems


def bounded_status(pid, tier, seed, ops=None):
    """every operation x every status-reply shape x value pool (exhaustive)"""
    evals = 0
    shapes = set()
    violations = {}
    samples = []
    for op in (ops or OPS):
        for (shape, raw, st, code, text) in status_replies():
            evals += 1
            shapes.add((op, shape))
            probs = check_status_case(op, raw, st, code, text)
            if len(samples) < 4 and not probs:
                samples.append({"op": op, "reply": raw.decode("latin-1"), "verdict": "as specified"})
            for clause, detail in probs:
                oid = "%s.B.status.%s.%s" % (pid, shape, clause)
                violations.setdefault(oid, ({"op": op, "reply": raw.decode("latin-1")}, detail))
    # silence: the server never answers (recv times out) or answers only part of a line -- the operation must end with Error
    # within a bounded time, it must not wait for ever or report a result
    import signal

    class _Stuck(Exception):
        pass

    def _alarm(signum, frame):
        raise _Stuck()

    for op in (ops or OPS):
        for partial in (b"", b"OK", b'NO "unfinished', b"{5}\r\nab"):
            evals += 1
            shapes.add((op, "silence", partial))
            sock = CannedSocket([partial])
            c = client_on(sock)
            old = signal.signal(signal.SIGALRM, _alarm)
            signal.setitimer(signal.ITIMER_REAL, 3)
            try:
                kind, val = run_op(c, op)
            except _Stuck:
                kind, val = "stuck", "no result within 3 s"
            finally:
                signal.setitimer(signal.ITIMER_REAL, 0)
                signal.signal(signal.SIGALRM, old)
            if kind != "Error":
                oid = "%s.B.status.silence.ends-with-Error" % pid
                violations.setdefault(oid, ({"op": op, "reply": partial.decode("latin-1") + "<then nothing>"}, "%s -> %s %r" % (op, kind, val)))
    # two failing operations in a row on ONE client: the second reply's code/text must replace the first's
    good = [(b'NO (QUOTA) "first"\r\n', b"QUOTA", b"first"), (b'NO "second"\r\n', b"", b"second"),
            (b'NO (QUOTA/MAXSIZE) "third"\r\n', b"QUOTA/MAXSIZE", b"third"), (b"NO\r\n", b"", b""), (b'NO {6}\r\nfourth\r\n', b"", b"fourth")]
    for (r1, c1, t1) in good:
        for (r2, c2, t2) in good:
            for op in ("deletescript", "getscript"):
                evals += 1
                shapes.add((op, "pair", r1, r2))
                sock = CannedSocket([r1, r2])
                c = client_on(sock)
                run_op(c, op)
                k2, v2 = run_op(c, op)
                if k2 != "return" or c.errcode != c2 or c.errmsg != t2:
                    oid = "%s.B.status.sequence.second-NO-replaces-the-first" % pid
                    violations.setdefault(oid, ({"op": op, "replies": [r1.decode(), r2.decode()]},
                                                "after %r then %r: %s %r, errcode %r errmsg %r (expected %r / %r)" % (r1, r2, k2, v2, c.errcode, c.errmsg, c2, t2)))
    return {"name": "status-replies", "bound": "8 operations x 3 statuses x 4 code shapes x 5 text shapes x value pool "
            "+ pairs of NO replies on one client (%d cases), one segment" % evals, "rule": "distinct = (operation, reply shape)", "evaluations": evals,
            "distinct": len(shapes), "samples": samples, "exhaustive": True,
            "violations": [(oid, w, d) for oid, (w, d) in sorted(violations.items())]}


# ----------------------------------------------------------------------------- segmentation (C05 end-to-end)

def chunkers(total_len, tier):
    """cut strategies: fixed sizes, every single cut point, every pair of cut points for short replies"""
    out = []
    for size in (1, 2, 3, 7, 64):
        out.append(("max%d" % size, lambda avail, n, size=size: size))
    pts = range(1, total_len)
    for p in pts:
        out.append(("cut@%d" % p, _cut_chunker([p])))
    if total_len <= (14 if tier == "quick" else 28):
        for p, q in itertools.combinations(pts, 2):
            out.append(("cut@%d,%d" % (p, q), _cut_chunker([p, q])))
    return out


def _cut_chunker(points):
    state = {"pos": 0}
    pts = sorted(points)

    def ch(avail, n):
        pos = state["pos"]
        nxt = next((p for p in pts if p > pos), None)
        k = avail if nxt is None else min(avail, nxt - pos)
        k = max(1, min(k, n))
        state["pos"] = pos + k
        return k
    return ch


SEG_CASES = [
    ("havespace", b"OK\r\n"),
    ("havespace", b'NO (QUOTA) "Quota exceeded"\r\n'),
    ("putscript", b'OK "done"\r\n'),
    ("deletescript", b'NO "in use"\r\n'),
    ("getscript", b"{7}\r\nkeep;\r\n\r\nOK\r\n"),
    ("getscript", b"{19}\r\nif true {\r\n stop;}\r\n\r\nOK \"Getscript completed.\"\r\n"),
    ("getscript", b"{26}\r\n# OK this is\r\nNO problem\r\n\r\nOK\r\n"),
    ("listscripts", b'"s1"\r\n"s2" ACTIVE\r\nOK\r\n'),
    ("listscripts", b'{2}\r\ns1\r\n"s2" ACTIVE\r\nOK "Listscripts completed."\r\n'),
    ("setactive", b'NO (NONEXISTENT) {14}\r\nNo such script\r\n'),
]


def bounded_segmentation(pid, tier, seed):
    evals = 0
    distinct = set()
    violations = {}
    samples = []
    for ci, (op, raw) in enumerate(SEG_CASES):
        ref_sock = CannedSocket([raw, b"OK\r\n"])
        c = client_on(ref_sock)
        ref = (run_op(c, op), c.errcode, c.errmsg, run_op(c, "havespace"), ref_sock.outq, getattr(c, "_Client__read_buffer"))
        for (cname, ch) in chunkers(len(raw), tier):
            evals += 1
            distinct.add((ci, cname))
            sock = CannedSocket([raw, b"OK\r\n"], ch)
            c = client_on(sock)
            got = (run_op(c, op), c.errcode, c.errmsg, run_op(c, "havespace"), sock.outq, getattr(c, "_Client__read_buffer"))
            if got != ref:
                oid = "%s.B.segmentation.case%d" % (pid, ci)
                violations.setdefault(oid, ({"op": op, "reply": raw.decode("latin-1"), "segmentation": cname},
                                            "one segment: %r ; %s: %r" % (ref[:4], cname, got[:4])))
            elif len(samples) < 3 and "," in cname:
                samples.append({"op": op, "reply": raw.decode("latin-1"), "segmentation": cname, "verdict": "same as unsegmented"})
    return {"name": "segmentation", "bound": "%d replies x {recv limited to 1/2/3/7/64 bytes, every single cut, every pair of "
            "cuts for replies up to %d bytes} = %d cases" % (len(SEG_CASES), 14 if tier == "quick" else 28, evals),
            "rule": "distinct = (reply, segmentation); compared with the unsegmented delivery, including a sentinel command",
            "evaluations": evals, "distinct": len(distinct), "samples": samples, "exhaustive": True,
            "violations": [(oid, w, d) for oid, (w, d) in sorted(violations.items())]}


# ----------------------------------------------------------------------------- names and bodies (C17)

BODY_POOL = [
    ("plain", b"keep;\r\n"), ("two-lines", b"if true {\r\n  stop;\r\n}\r\n"), ("no-final-newline", b"keep;"),
    ("empty", b""), ("lf-only", b"a\nb\n"), ("blank-lines", b"a\r\n\r\nb\r\n"), ("non-ascii", "# café\r\nkeep;\r\n".encode()),
    ("looks-like-OK", b"OK\r\nkeep;\r\n"), ("looks-like-NO", b"# x\r\nNO way\r\n"), ("looks-like-BYE", b"BYE\r\n"),
    ("first-line-sizelike", b"{1}\r\nx\r\n"), ("inner-sizelike", b"x\r\n{3}\r\ny\r\n"), ("quotes", b'"quoted"\r\n'),
    ("trailing-spaces", b"keep;  \r\nstop; \t\r\n"), ("trailing-spaces-no-newline", b"keep;\r\nstop;  "),
    ("active-word", b"ACTIVE\r\n"), ("unicode-line-separators", "a\u2028b\u2029c\x0cd\x0be\x1cf\x85g\r\nz\r\n".encode("utf-8")), ("trailing-blank", b"keep;\r\n\r\n\r\n"), ("cr-only", b"a\rb\r"),
]
NAME_POOL = ["main", "vacàtion", "with space", 'quo"te', "back\\slash", "{3}", "ACTIVE", "OK", "a ACTIVE", "x" * 3, "{5+}"]


def norm_lines(b):
    """lines of a stored script: split at CRLF / LF / CR only (line endings of the protocol), nothing else"""
    import re as _re
    lines = [x.decode("utf-8") for x in _re.split(rb"\r\n|\n|\r", b)]
    while lines and lines[-1] == "":
        lines.pop()
    return lines


def bounded_getscript(pid, tier, seed):
    evals = 0
    distinct = set()
    violations = {}
    samples = []
    for (bid, body) in BODY_POOL:
        for enc in ("literal", "quoted"):
            if enc == "quoted" and (b"\r" in body or b"\n" in body or b"\x00" in body):
                continue  # RFC 5804: CR/LF cannot appear in a quoted string
            srv = FakeServer(scripts={"s": body}, body_encoding=enc)
            c = make_client(srv)
            kind, val = run_op_args(c, "getscript", ("s",))
            evals += 1
            distinct.add((bid, enc))
            ok = kind == "return" and isinstance(val, str) and _lines(val) == norm_lines(body)
            k2, v2 = run_op_args(c, "havespace", ("x", 1))
            instep = (k2, v2) == ("return", True) and not srv.outq
            if not ok:
                violations.setdefault("%s.B.getscript.%s.%s.lines" % (pid, bid, enc),
                                      ({"body": body.decode("latin-1"), "encoding": enc},
                                       "getscript -> %s %r, stored lines %r" % (kind, val, norm_lines(body))))
            elif not instep:
                violations.setdefault("%s.B.getscript.%s.%s.in-step" % (pid, bid, enc),
                                      ({"body": body.decode("latin-1"), "encoding": enc}, "next command got %s %r" % (k2, v2)))
            elif len(samples) < 3:
                samples.append({"body": body.decode("latin-1"), "encoding": enc, "verdict": "lines intact"})
    return {"name": "getscript-bodies", "bound": "%d bodies x {literal, quoted where the RFC allows} = %d cases" % (len(BODY_POOL), evals),
            "rule": "distinct = (body, encoding); compared line by line ignoring line-ending style and trailing blank lines",
            "evaluations": evals, "distinct": len(distinct), "samples": samples, "exhaustive": True,
            "violations": [(oid, w, d) for oid, (w, d) in sorted(violations.items())]}


def _lines(s):
    lines = s.split("\n")
    while lines and lines[-1] == "":
        lines.pop()
    return lines


def run_op_args(c, op, args):
    from sievelib import managesieve
    try:
        return ("return", getattr(c, op)(*args))
    except managesieve.Error as e:
        return ("Error", str(e))
    except Exception as e:
        return ("crash", "%s: %s" % (type(e).__name__, e))


def bounded_listscripts(pid, tier, seed):
    evals = 0
    distinct = set()
    violations = {}
    samples = []
    for name in NAME_POOL:
        for enc in ("quoted", "literal"):
            for active in (False, True):
                for others in ((), ("zz",)):
                    scripts = {name: b"keep;\r\n"}
                    for o in others:
                        scripts[o] = b"stop;\r\n"
                    srv = FakeServer(scripts=scripts, active=name if active else None,
                                     name_encoding=lambda n, name=name, enc=enc: enc if n == name else "quoted")
                    c = make_client(srv)
                    kind, val = run_op_args(c, "listscripts", ())
                    evals += 1
                    shape = "%s.%s.%s" % (_name_class(name), enc, "active" if active else "inactive")
                    distinct.add((name, enc, active, others))
                    exp = (name if active else None, sorted([n for n in scripts if not (active and n == name)]))
                    got = (val[0], sorted(val[1])) if kind == "return" and isinstance(val, tuple) else None
                    if got != exp:
                        violations.setdefault("%s.B.listscripts.%s" % (pid, shape),
                                              ({"name": name, "encoding": enc, "active": active},
                                               "listscripts -> %s %r, server holds %r" % (kind, val, exp)))
                    elif len(samples) < 3:
                        samples.append({"name": name, "encoding": enc, "active": active, "verdict": "exact"})
    return {"name": "listscripts-names", "bound": "%d names x {quoted, literal} x {active, not} x {alone, with another script} = %d cases"
            % (len(NAME_POOL), evals), "rule": "distinct = (name, encoding, active, other scripts)", "evaluations": evals,
            "distinct": len(distinct), "samples": samples, "exhaustive": True,
            "violations": [(oid, w, d) for oid, (w, d) in sorted(violations.items())]}


def _name_class(name):
    if '"' in name or "\\" in name:
        return "needs-escape"
    if name.startswith("{"):
        return "sizelike"
    if "ACTIVE" in name and name != "ACTIVE":
        return "contains-ACTIVE"
    if name in ("ACTIVE", "OK"):
        return "protocol-word"
    if " " in name:
        return "with-space"
    if any(ord(ch) > 127 for ch in name):
        return "non-ascii"
    return "plain"


# ----------------------------------------------------------------------------- strict wire parse (C08)

VALUE_POOL = ["main", "", "with space", 'quo"te', "back\\slash", "cr\rlf\nx", "nul\x00x", "{5}", "{5+}", "{12}abc",
              "café", "a\r\nLOGOUT", " ", "x" * 40]


def bounded_wire(pid, tier, seed):
    """every operation x value pool: what the strict server-side parser decodes must be exactly one command of the
    intended verb with the caller's values"""
    from sievelib import managesieve
    evals = 0
    distinct = set()
    violations = {}
    samples = []
    verbs = {"havespace": "HAVESPACE", "getscript": "GETSCRIPT", "putscript": "PUTSCRIPT", "checkscript": "CHECKSCRIPT",
             "deletescript": "DELETESCRIPT", "renamescript": "RENAMESCRIPT", "setactive": "SETACTIVE"}
    for op, verb in verbs.items():
        for v in VALUE_POOL:
            if op == "havespace":
                args = (v, 1234)
                exp = [v.encode("utf-8"), 1234]
            elif op == "putscript":
                args = (v, v)
                exp = [v.encode("utf-8"), v.encode("utf-8")]
            elif op == "checkscript":
                args = (v,)
                exp = [v.encode("utf-8")]
            elif op == "renamescript":
                args = (v, "new")
                exp = [v.encode("utf-8"), b"new"]
            else:
                args = (v,)
                exp = [v.encode("utf-8")]
            sock = CannedSocket([b"OK\r\n", b"OK\r\n"])
            c = client_on(sock)
            kind, val = run_op_args(c, op, args)
            evals += 1
            vc = _value_class(v)
            distinct.add((op, v))
            raw = b"".join([])
            got = [(vb.decode(), a) for vb, a in sock.cmds]
            refused = kind == "Error" and not sock.cmds and not sock.inbuf
            ok = refused or (not sock.violations and not sock.inbuf and got == [(verb, exp)])
            if not ok:
                place = "content" if op in ("putscript", "checkscript") and vc != "plain" and _content_only(op, v, got, verb, exp) else "name"
                violations.setdefault("%s.B.wire.%s.%s" % (pid, vc, place),
                                      ({"op": op, "value": v}, "server-side parse: %r violations=%r unparsed=%r; expected %r"
                                       % (got, sock.violations[:1], sock.inbuf[:40], [(verb, exp)])))
            elif len(samples) < 3:
                samples.append({"op": op, "value": v, "verdict": "one well-formed %s with the caller's values" % verb})
    return {"name": "strict-wire-parse", "bound": "7 operations x %d values = %d cases" % (len(VALUE_POOL), evals),
            "rule": "distinct = (operation, value)", "evaluations": evals, "distinct": len(distinct), "samples": samples,
            "exhaustive": True, "violations": [(oid, w, d) for oid, (w, d) in sorted(violations.items())]}


def _content_only(op, v, got, verb, exp):
    return False


def _value_class(v):
    if v.startswith("{") and "}" in v:
        return "sizelike"
    if '"' in v or "\\" in v:
        return "quote-or-backslash"
    if "\r" in v or "\n" in v:
        return "crlf"
    if "\x00" in v:
        return "nul"
    return "plain"


# ----------------------------------------------------------------------------- whole sessions (C15)

def bounded_sessions(pid, tier, seed):
    """operation sequences against the reference server with random reply encodings and segmentation; the client's
    report is compared with the server's state after every step"""
    rng = random.Random(seed or 1)
    n_sessions = 150 if tier == "quick" else 1500
    length = 6
    evals = 0
    distinct = set()
    violations = {}
    samples = []
    names = ["a", "b", "c"]
    for si in range(n_sessions):
        enc = "quoted"   # literal-encoded names with ACTIVE / escapes are the listed C17 findings; sessions stay clear of them
        lim = rng.choice([1, 2, 3, 7, 64, 4096])
        srv = FakeServer(scripts={"a": b"keep;\r\n"} if rng.random() < 0.7 else {}, active=None,
                         name_encoding=enc, text_encoding=rng.choice(["quoted", "quoted"]),
                         chunker=lambda avail, n, lim=lim: lim)
        c = make_client(srv, version=rng.random() < 0.5)
        trace = []
        for step in range(length):
            op = rng.choice(["listscripts", "getscript", "putscript", "deletescript", "setactive", "renamescript", "havespace"])
            n1, n2 = rng.choice(names), rng.choice(names)
            body = rng.choice(["keep;\r\n", "stop;\r\n", "# c\r\ndiscard;\r\n", "# caf\u00e9 \u20ac\r\nkeep;\r\n",
                               "if true {\r\n\r\n# OK then\r\nOK;\r\nNO (x) \"y\"\r\n}\r\n"])
            args = {"listscripts": (), "getscript": (n1,), "putscript": (n1, body), "deletescript": (n1,), "setactive": (n1,),
                    "renamescript": (n1, n2), "havespace": (n1, 10)}[op]
            before = (dict(srv.scripts), srv.active)
            kind, val = run_op_args(c, op, args)
            trace.append((op, args, kind, val))
            evals += 1
            distinct.add((op, args, tuple(sorted(before[0])), before[1]))
            exp = _expected(op, args, before, srv)
            bad = None
            if kind != "return":
                bad = "raised %s %s" % (kind, val)
            elif op == "listscripts":
                if (val[0], sorted(val[1])) != exp:
                    bad = "reported %r, server holds %r" % (val, exp)
            elif op == "getscript":
                if (val is None) != (exp is None) or (val is not None and _lines(val) != norm_lines(exp)):
                    bad = "returned %r, server holds %r" % (val, exp)
            elif val is not exp:
                bad = "returned %r, server did %r" % (val, exp)
            if srv.violations:
                bad = "server-side protocol violation: %s" % srv.violations[0]
            if srv.outq:
                bad = "reply bytes left unread: %r" % srv.outq[:40]
            if bad:
                violations.setdefault("%s.B.session.%s" % (pid, op),
                                      ({"session": [(o, list(a)) for o, a, _k, _v in trace], "encoding": enc, "recv_limit": lim}, bad))
                break
        if len(samples) < 2 and not violations:
            samples.append({"session": [(o, list(a), repr(v)) for o, a, _k, v in trace], "recv_limit": lim})
    return {"name": "sessions", "bound": "%d random sessions of %d operations over 3 names (seeded), quoted/literal name "
            "encodings, recv limited to 1..4096 bytes" % (n_sessions, length), "rule": "distinct = (operation, arguments, "
            "server state before)", "evaluations": evals, "distinct": len(distinct), "samples": samples, "exhaustive": False,
            "violations": [(oid, w, d) for oid, (w, d) in sorted(violations.items())]}


def _expected(op, args, before, srv):
    scripts, active = before
    if op == "listscripts":
        return (active, sorted(n for n in scripts if n != active))
    if op == "getscript":
        return scripts.get(args[0])
    if op == "putscript":
        return True
    if op == "havespace":
        return True
    if op == "deletescript":
        return args[0] in scripts and args[0] != active
    if op == "setactive":
        return args[0] in scripts
    if op == "renamescript":
        return args[0] in scripts and args[1] not in scripts
    return None


# ----------------------------------------------------------------------------- the assumed contract of __get_capabilities (C10)

def bounded_get_capabilities(pid, tier, seed):
    """every subset of the known capabilities (+ an unknown one), with and without prior entries: the dictionary after
    __get_capabilities is `announced entries override, others keep their previous entry`; NO changes nothing"""
    from sievelib import managesieve
    known = managesieve.KNOWN_CAPABILITIES
    values = {"IMPLEMENTATION": "Example v1", "SASL": "PLAIN LOGIN", "SIEVE": "fileinto vacation", "STARTTLS": None, "NOTIFY": "mailto",
              "LANGUAGE": "en", "VERSION": "1.0"}
    evals = 0
    findings = {}
    samples = []
    priors = [{}, {"SASL": "OLD-MECH", "STARTTLS": None, "VERSION": "0.9"}]
    for mask in range(1 << len(known)):
        ann = [k for i, k in enumerate(known) if mask >> i & 1]
        for prior in priors:
            for unknown in (False, True):
                for status in (b'OK "ready"\r\n', b"NO\r\n"):
                    if status.startswith(b"NO") and (mask % 9 or unknown):
                        continue
                    lines = b""
                    for k in ann:
                        v = values[k]
                        lines += quote(k.encode()) + (b" " + quote(v.encode()) if v is not None else b"") + b"\r\n"
                    if unknown:
                        lines += b'"XFUTURE" "whatever"\r\n'
                    sock = CannedSocket([])
                    sock.outq = lines + status
                    c = managesieve.Client("x")
                    c.sock = sock
                    setattr(c, "_Client__capabilities", dict(prior))
                    evals += 1
                    try:
                        r = c._Client__get_capabilities()
                    except Exception as e:
                        findings.setdefault("raises", ({"listing": lines.decode()}, "%s: %s" % (type(e).__name__, e)))
                        continue
                    got = getattr(c, "_Client__capabilities")
                    if status.startswith(b"NO"):
                        exp, expr = dict(prior), False
                    else:
                        exp = dict(prior)
                        for k in ann:
                            exp[k] = values[k]
                        expr = True
                    if r is not expr or got != exp:
                        findings.setdefault("contract", ({"listing": lines.decode(), "prior": prior}, "returned %r, capabilities %r, contract says %r / %r" % (r, got, expr, exp)))
                    elif len(samples) < 2 and ann and prior:
                        samples.append({"announced": ann, "prior": prior, "verdict": "as the assumed contract says"})
    return {"name": "get_capabilities-contract", "bound": "all 128 subsets of the known capabilities x {no prior entries, stale entries} x "
            "{with, without an unknown capability} + NO replies: %d listings" % evals, "rule": "distinct = listing", "evaluations": evals,
            "distinct": evals, "samples": samples, "exhaustive": True,
            "violations": [("%s.B.get_capabilities.%s" % (pid, k), w, d) for k, (w, d) in sorted(findings.items())]}


# ----------------------------------------------------------------------------- RFC 5804 example transcripts

def bounded_rfc_transcripts(pid, tier, seed):
    """the server replies printed in the examples of RFC 5804 (sections 1.x, 2.x), replayed to the real client: what the
    client reports must be what the example means.  Cases that are listed findings (names sent as literals with ACTIVE,
    escaped quotes, OK with a literal text, NO with a code and no text) are not in this pool."""
    import unittest.mock as mock
    from sievelib import managesieve
    evals = 0
    violations = []
    samples = []

    def case(name, replies, op, args, expect, extra=None):
        nonlocal evals
        evals += 1
        sock = CannedSocket(list(replies))
        c = client_on(sock)
        try:
            got = ("return", getattr(c, op)(*args))
        except managesieve.Error as e:
            got = ("Error", str(e))
        except Exception as e:
            got = ("crash", "%s: %s" % (type(e).__name__, e))
        bad = None
        if got != expect:
            bad = "%s%r -> %r, the example means %r" % (op, tuple(args), got, expect)
        elif extra is not None:
            bad = extra(c)
        elif sock.outq:
            bad = "reply bytes left unread: %r" % sock.outq[:40]
        if bad:
            violations.append(("%s.B.rfc5804.%s" % (pid, name), {"op": op, "replies": [r.decode("latin-1") for r in replies]}, bad))
        elif len(samples) < 3:
            samples.append({"example": name, "verdict": "as the RFC means it"})

    listing = b'"summer_script"\r\n"vacation_script"\r\n{13}\r\nclever"script\r\n"main_script" ACTIVE\r\nOK\r\n'
    case("2.7-listscripts", [listing], "listscripts", (), ("return", ("main_script", ["summer_script", "vacation_script", 'clever"script'])))
    case("2.7-listscripts-empty", [b"OK\r\n"], "listscripts", (), ("return", (None, [])))
    body = b'#this is my wonderful script\r\nreject "I reject all";\r\n'
    case("2.9-getscript", [b"{%d}\r\n" % len(body) + body + b"\r\nOK\r\n"], "getscript", ("myscript",),
         ("return", '#this is my wonderful script\nreject "I reject all";'))
    case("2.9-getscript-nonexistent", [b'NO (NONEXISTENT) "There is no script by that name"\r\n'], "getscript", ("myscript",), ("return", None),
         lambda c: None if (c.errcode == b"NONEXISTENT" and c.errmsg == b"There is no script by that name") else "errcode %r errmsg %r" % (c.errcode, c.errmsg))
    case("2.6-putscript-ok", [b"OK\r\n"], "putscript", ("foo", 'redirect "test@example.com";\r\n'), ("return", True))
    case("2.6-putscript-syntax-error", [b'NO "line 2: Syntax error"\r\n'], "putscript", ("mysievescript", "bad"), ("return", False),
         lambda c: None if (c.errcode == b"" and c.errmsg == b"line 2: Syntax error") else "errcode %r errmsg %r" % (c.errcode, c.errmsg))
    case("2.6-putscript-warnings", [b'OK (WARNINGS) "line 8: server redirect action limit is 2, this redirect might be ignored"\r\n'],
         "putscript", ("foo", "x"), ("return", True))
    case("2.6-putscript-quota", [b'NO (QUOTA/MAXSIZE) "Quota exceeded"\r\n'], "putscript", ("foo", "x"), ("return", False),
         lambda c: None if (c.errcode == b"QUOTA/MAXSIZE" and c.errmsg == b"Quota exceeded") else "errcode %r errmsg %r" % (c.errcode, c.errmsg))
    case("2.5-havespace-ok", [b"OK\r\n"], "havespace", ("myscript", 999999), ("return", True))
    case("2.5-havespace-quota", [b'NO (QUOTA/MAXSIZE) "Quota exceeded"\r\n'], "havespace", ("foobar", 435), ("return", False))
    case("2.8-setactive-ok", [b"OK\r\n"], "setactive", ("vacationscript",), ("return", True))
    case("2.8-setactive-nonexistent", [b'NO (NONEXISTENT) "There is no script by that name"\r\n'], "setactive", ("baz",), ("return", False))
    case("2.10-deletescript-ok", [b"OK\r\n"], "deletescript", ("foo",), ("return", True))
    case("2.10-deletescript-active", [b'NO (ACTIVE) "You may not delete an active script"\r\n'], "deletescript", ("baz",), ("return", False),
         lambda c: None if (c.errcode == b"ACTIVE" and c.errmsg == b"You may not delete an active script") else "errcode %r errmsg %r" % (c.errcode, c.errmsg))
    case("2.12-checkscript-ok", [b"OK\r\n"], "checkscript", ("#comment\r\nInvalidSieveCommand\r\n",), ("return", True))
    case("2.12-checkscript-error", [b'NO "line 2: Syntax error"\r\n'], "checkscript", ("bad",), ("return", False))
    case("2.11-renamescript-ok", [b"OK\r\n"], "renamescript", ("foo", "bar"), ("return", True))
    case("2.11-renamescript-exists", [b'NO (ALREADYEXISTS) "A script with that name already exists"\r\n'], "renamescript", ("baz", "bar"), ("return", False))
    case("1.3-bye-referral", [b'BYE (REFERRAL "sieve://sieve.example.net") "Server is busy, try again later"\r\n'], "listscripts", (), ("Error", "Connection closed by server"))
    case("literal-error-text", [b'NO {31}\r\nQuota exceeded (and more lines)\r\n'], "putscript", ("foo", "x"), ("return", False),
         lambda c: None if c.errmsg == b"Quota exceeded (and more lines)" else "errmsg %r" % (c.errmsg,))
    cap = (b'"IMPLEMENTATION" "Example1 ManageSieved v001"\r\n"VERSION" "1.0"\r\n"SASL" "DIGEST-MD5 GSSAPI"\r\n"SIEVE" "fileinto vacation"\r\n'
           b'"STARTTLS"\r\n"NOTIFY" "xmpp mailto"\r\n"MAXREDIRECTS" "5"\r\nOK\r\n')
    evals += 1
    sock = CannedSocket([])
    sock.outq = cap
    c = managesieve.Client("reference.example")
    c.sock = sock
    try:
        ok = c._Client__get_capabilities()
        facts = (ok, c.get_implementation(), c.get_sasl_mechanisms(), c.has_tls_support(), c.get_sieve_capabilities())
    except Exception as e:
        facts = ("crash", "%s: %s" % (type(e).__name__, e))
    want = (True, "Example1 ManageSieved v001", ["DIGEST-MD5", "GSSAPI"], True, ["fileinto", "vacation"])
    if facts != want:
        violations.append(("%s.B.rfc5804.1.7-capability-greeting" % pid, {"greeting": cap.decode()}, "client recorded %r, the example means %r" % (facts, want)))
    return {"name": "rfc5804-examples", "bound": "%d example exchanges of RFC 5804 replayed to the client" % evals, "rule": "distinct = example",
            "evaluations": evals, "distinct": evals, "samples": samples, "exhaustive": True, "violations": violations}
