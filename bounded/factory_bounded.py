"""Bounded stand-ins for the filter factory (C06, C11, C12, C19): the real FiltersSet driven natively."""
import io
import itertools
import random


NAMES = ["a", "b", "c"]
OPS = ["add", "update", "replace", "remove", "enable", "disable", "up", "down", "get", "exists", "isdis"]


class Model:
    """reference: ordered list of [name, enabled, token]"""

    def __init__(self):
        self.items = []

    def idx(self, name):
        for i, it in enumerate(self.items):
            if it[0] == name:
                return i
        return -1


def render(cmd):
    buf = io.StringIO()
    cmd.tosieve(target=buf)
    return buf.getvalue()


def step(fs, model, op, name, other, counter):
    """apply op to the real set and the model; returns a problem string or None"""
    from sievelib import factory
    conds = [("Subject", ":is", "v%d" % counter)]
    acts = [("fileinto", "F%d" % counter)]
    i = model.idx(name)
    exp_exc = None
    exp = None
    if op == "add":
        if i != -1:
            exp_exc = "FilterAlreadyExists"
        else:
            model.items.append([name, True, counter])
    elif op in ("update", "replace"):
        if i == -1:
            exp = False
        elif other != name and model.idx(other) != -1:
            exp_exc = "FilterAlreadyExists"
        else:
            model.items[i][0] = other
            model.items[i][2] = counter
            exp = True
    elif op == "remove":
        exp = i != -1
        if i != -1:
            del model.items[i]
    elif op == "enable":
        exp = i != -1 and not model.items[i][1]
        if exp:
            model.items[i][1] = True
    elif op == "disable":
        exp = i != -1
        if i != -1:
            model.items[i][1] = False
    elif op in ("up", "down"):
        j = i - 1 if op == "up" else i + 1
        exp = i != -1 and 0 <= j < len(model.items)
        if exp:
            model.items[i], model.items[j] = model.items[j], model.items[i]
    elif op == "get":
        exp = "content" if i != -1 else None
    elif op == "exists":
        exp = i != -1
    elif op == "isdis":
        exp = True if i == -1 else not model.items[i][1]
    try:
        if op == "add":
            got = fs.addfilter(name, conds, acts)
        elif op == "update":
            got = fs.updatefilter(name, other, conds, acts)
        elif op == "replace":
            tmp = factory.FiltersSet("tmp")
            tmp.addfilter("x", conds, acts)
            got = fs.replacefilter(name, tmp.getfilter("x"), other)
        elif op == "remove":
            got = fs.removefilter(name)
        elif op == "enable":
            got = fs.enablefilter(name)
        elif op == "disable":
            got = fs.disablefilter(name)
        elif op in ("up", "down"):
            got = fs.movefilter(name, op)
        elif op == "get":
            got = fs.getfilter(name)
        elif op == "exists":
            got = fs.filter_exists(name)
        elif op == "isdis":
            got = fs.is_filter_disabled(name)
        exc = None
    except factory.FilterAlreadyExists:
        got, exc = None, "FilterAlreadyExists"
    except Exception as e:
        return "%s(%s) raised %s: %s" % (op, name, type(e).__name__, e)
    if exc != exp_exc:
        return "%s(%s,%s): exception %r, model expects %r" % (op, name, other, exc, exp_exc)
    if exp_exc is None:
        if op == "add":
            pass
        elif op == "get":
            if (got is None) != (exp is None):
                return "getfilter(%s) returned %r" % (name, got)
            if got is not None:
                txt = render(got)
                want = "F%d" % model.items[i][2]
                if want not in txt or txt.lstrip().startswith("if false"):
                    return "getfilter(%s) returned %r, expected the filter's own content (action %s)" % (name, txt[:60], want)
        elif got is not exp and got != exp:
            return "%s(%s,%s) returned %r, model expects %r" % (op, name, other, got, exp)
    # state comparison
    if [f["name"] for f in fs.filters] != [it[0] for it in model.items]:
        return "after %s(%s,%s): names %r, model %r" % (op, name, other, [f["name"] for f in fs.filters], [it[0] for it in model.items])
    for f, it in zip(fs.filters, model.items):
        txt = render(f["content"])
        wrapped = txt.lstrip().startswith("if false")
        if f["enabled"] is not it[1] or fs.is_filter_disabled(f["name"]) is it[1] or wrapped is it[1]:
            return "after %s(%s): filter %s enabled=%r is_filter_disabled=%r rendered-wrapped=%r, model enabled=%r" % (
                op, name, f["name"], f["enabled"], fs.is_filter_disabled(f["name"]), wrapped, it[1])
        if ("F%d" % it[2]) not in txt:
            return "after %s(%s): filter %s lost its content" % (op, name, f["name"])
    return None


def bounded_sequences(pid, tier, seed):
    from sievelib import factory
    from bounded.parser_bounded import Findings
    evals = 0
    findings = Findings()
    samples = []
    names2 = NAMES[:2]
    depth = 4   # 20**4 = 160 000 sequences; depth 5 (3.2 M) does not fit a check, the thorough tier adds random depth instead
    mut = ["add", "update", "remove", "enable", "disable", "up", "down", "replace"]
    # exhaustive: all sequences of `depth` mutating operations over 2 names (argument pairs chosen per op)
    alphabet = []
    for op in mut:
        for n1 in names2:
            if op in ("update", "replace"):
                for n2 in names2:
                    alphabet.append((op, n1, n2))
            else:
                alphabet.append((op, n1, n1))
    seqs = itertools.product(alphabet, repeat=depth)
    count = 0
    for seq in seqs:
        count += 1
        fs = factory.FiltersSet("s")
        model = Model()
        for k, (op, n1, n2) in enumerate(seq):
            evals += 1
            prob = step(fs, model, op, n1, n2, k)
            if prob is None:
                for q in ("get", "exists", "isdis"):
                    for nm in names2:
                        prob = prob or step(fs, model, q, nm, nm, k)
            if prob:
                findings.note((pid, "sequence"), " ; ".join("%s(%s,%s)" % s_ for s_ in seq[:k + 1]), prob)
                break
    rng = random.Random(seed or 1)
    for _ in range(300 if tier == "quick" else 20000):
        fs = factory.FiltersSet("s")
        model = Model()
        seq = []
        for k in range(8 if tier == "quick" else 12):
            op = rng.choice(mut)
            n1, n2 = rng.choice(NAMES), rng.choice(NAMES)
            seq.append((op, n1, n2))
            evals += 1
            prob = step(fs, model, op, n1, n2, k)
            if prob:
                findings.note((pid, "sequence"), " ; ".join("%s(%s,%s)" % s_ for s_ in seq), prob)
                break
        else:
            if len(samples) < 2:
                samples.append({"sequence": ["%s(%s,%s)" % s_ for s_ in seq], "verdict": "agrees with the list model at every step"})
    return {"name": "operation-sequences", "bound": "all %d sequences of %d mutating operations over 2 names (exhaustive) + seeded random "
            "sequences of 8 (thorough: 12) over 3 names: %d steps, each followed by getfilter/filter_exists/is_filter_disabled probes and a "
            "rendering check" % (count, depth, evals), "rule": "distinct = operation sequence", "evaluations": evals, "distinct": count,
            "samples": samples, "exhaustive": True, "violations": findings.violations(pid, "sequences", (pid,))}


# ----------------------------------------------------------------------------- definitions grammar (C06 / C11 / C19)

BENIGN = "v"
HOSTILE = ["plain", "with space", "café", 'quo"te', "back\\slash", "a,b", "[brackets]", "semi;colon", "line\nbreak", "{brace}",
           "#hash", "end\\", ' "', "x\"]; stop; #"]


def condition_forms(v, v2=None):
    """(kind, condition tuple) for every documented condition kind with value v (a string) in the value position(s)"""
    v2 = v2 if v2 is not None else v
    out = []
    for mt in (":is", ":contains", ":matches", ":notis", ":notcontains", ":notmatches"):
        out.append(("header" + mt, ("Subject", mt, v)))
    out.append(("header-name", (v, ":is", "x")))
    out.append(("exists", ("exists", v)))
    out.append(("exists-many", ("exists", v, "X-Other")))
    out.append(("notexists", ("notexists", v)))
    out.append(("size", ("size", ":over", "100K")))
    out.append(("envelope", ("envelope", ":is", ["from"], [v])))
    out.append(("envelope-list", ("envelope", ":contains", ["from", "to"], [v, v2])))
    out.append(("address", ("address", ":is", "from", v)))
    out.append(("address-list", ("address", ":contains", ["from", "to"], [v, v2])))
    out.append(("body", ("body", ":raw", ":contains", v)))
    out.append(("body-not", ("body", ":text", ":notcontains", v)))
    out.append(("currentdate", ("currentdate", ":zone", "+0100", ":is", "date", v)))
    out.append(("currentdate-value", ("currentdate", ":zone", "+0100", ":value", "gt", "date", v)))
    out.append(("true", ("true",)))
    out.append(("false", ("false",)))
    return out


def action_forms(v):
    out = [("fileinto", ("fileinto", v)), ("fileinto-copy", ("fileinto", ":copy", v)), ("fileinto-create", ("fileinto", ":create", v)),
           ("fileinto-flags", ("fileinto", ":flags", [v, "\\Seen"], "F")), ("redirect", ("redirect", v)),
           ("redirect-copy", ("redirect", ":copy", v)), ("reject", ("reject", v)), ("keep", ("keep",)), ("discard", ("discard",)),
           ("stop", ("stop",)), ("setflag", ("setflag", v)), ("addflag", ("addflag", v)), ("removeflag", ("removeflag", v)),
           ("vacation", ("vacation", v)), ("vacation-subject", ("vacation", ":subject", v, "reason")),
           ("vacation-days", ("vacation", ":days", 7, v)), ("vacation-seconds", ("vacation", ":seconds", 600, v)),
           ("vacation-from", ("vacation", ":from", v, "reason")), ("vacation-addresses", ("vacation", ":addresses", [v, "b@example.org"], "reason")),
           ("vacation-handle", ("vacation", ":handle", v, "reason")), ("vacation-mime", ("vacation", ":mime", v)),
           ("keep-flags", ("keep", ":flags", [v])),
           ("fileinto-copy-create", ("fileinto", ":copy", ":create", v)), ("fileinto-create-copy", ("fileinto", ":create", ":copy", v))]
    return out


def build_set(cond, act, matchtype="anyof"):
    from sievelib.factory import FiltersSet
    fs = FiltersSet("t")
    fs.addfilter("rule", [cond], [act], matchtype)
    return fs


def token_kinds(text):
    from bounded import sieve_ref as ref
    try:
        return [t.kind if t.kind not in ("identifier", "tag") else t.text.decode().lower() for t in ref.lex(text.encode("utf-8"))]
    except ref.LexError:
        return None


def bounded_generated_sets(pid, tier, seed):
    """C06.S: every condition kind / action kind x value pool: the rendered script is accepted by the parser, valid for the
    strict reference validator (all required arguments, every used extension required), and its token structure is the
    same as with a benign value (user values stay inside string literals)"""
    from bounded import sieve_ref as ref
    from bounded.parser_bounded import Findings, real_parse
    evals = 0
    distinct = set()
    findings = Findings()
    samples = []
    values = HOSTILE if tier == "thorough" else HOSTILE[:14]
    for kind_is_cond in (True, False):
        forms_b = condition_forms(BENIGN) if kind_is_cond else action_forms(BENIGN)
        for fi, (kind, benign_form) in enumerate(forms_b):
            base = None
            for v in [BENIGN] + values:
                if v.startswith(('"', "'")):
                    continue  # taken by the factory as already quoted: outside the claim
                form = (condition_forms(v) if kind_is_cond else action_forms(v))[fi][1]
                vclass = "benign" if v == BENIGN else _vclass(v)
                evals += 1
                distinct.add((kind, v))
                try:
                    fs = build_set(form, ("keep",)) if kind_is_cond else build_set(("Subject", ":is", "x"), form)
                    text = str(fs)
                except Exception as e:
                    findings.note((pid, "build-raises.%s.%s" % (kind, vclass)), repr(form), "%s: %s" % (type(e).__name__, e))
                    continue
                r = real_parse(text)
                if r["verdict"] is not True:
                    findings.note((pid, "own-output-rejected.%s.%s" % (kind, vclass)), repr(form), "%s ; script: %r" % (r.get("error") or r.get("exc"), text[-90:]))
                    continue
                v2 = ref.verdict(text)
                if v2.status != "valid":
                    findings.note((pid, "not-strictly-valid.%s.%s" % (kind, vclass)), repr(form),
                                  "%s%s ; script: %r" % (v2.reason, " (%s)" % v2.missing_ext if v2.missing_ext else "", text[-110:]))
                    continue
                kinds = token_kinds(text)
                if v == BENIGN:
                    base = kinds
                elif base is not None and kinds != base:
                    findings.note((pid, "value-changes-structure.%s.%s" % (kind, vclass)), repr(form), "token structure differs from the benign rendering: %r" % text[-110:])
                elif len(samples) < 3 and v != BENIGN:
                    samples.append({"definition": repr(form), "script_tail": text[-70:], "verdict": "accepted, strictly valid, same structure as with a benign value"})
    # several conditions per filter (anyof / allof) and several filters with different extensions, edited afterwards
    from sievelib.factory import FiltersSet
    cf = [c for k, c in condition_forms(BENIGN) if k not in ("header-name",)]
    af = [a for k, a in action_forms(BENIGN) if k not in ()]
    for i in range(len(cf)):
        for n in (2, 3):
            for mt in ("anyof", "allof"):
                conds = [cf[(i + d) % len(cf)] for d in range(n)]
                evals += 1
                distinct.add(("multi", i, n, mt))
                try:
                    fs = FiltersSet("t")
                    fs.addfilter("r", conds, [af[i % len(af)], af[(i + 1) % len(af)]], mt)
                    text = str(fs)
                except Exception as e:
                    findings.note((pid, "build-raises.multi-condition"), repr(conds), "%s: %s" % (type(e).__name__, e))
                    continue
                r = real_parse(text)
                v2 = ref.verdict(text) if r["verdict"] is True else None
                if r["verdict"] is not True or v2.status != "valid":
                    findings.note((pid, "own-output-rejected.multi-condition" if r["verdict"] is not True else "not-strictly-valid.multi-condition"),
                                  repr(conds), "%s ; script: %r" % (r.get("error") if r["verdict"] is not True else v2.reason, text[-120:]))
    for i in range(len(af)):
        for j in range(len(af)):
            if i == j or (i + j) % 3:
                continue
            evals += 1
            distinct.add(("multi-filter", i, j))
            try:
                fs = FiltersSet("t")
                fs.addfilter("one", [("Subject", ":is", "x")], [af[i]])
                fs.addfilter("two", [("Subject", ":is", "y")], [af[j]])
                fs.disablefilter("two")
                fs.updatefilter("one", "uno", [("Subject", ":contains", "z")], [af[(i + 1) % len(af)]])
                fs.movefilter("two", "up")
                text = str(fs)
            except Exception as e:
                findings.note((pid, "build-raises.multi-filter"), repr((af[i], af[j])), "%s: %s" % (type(e).__name__, e))
                continue
            r = real_parse(text)
            v2 = ref.verdict(text) if r["verdict"] is True else None
            if r["verdict"] is not True or v2.status != "valid":
                findings.note((pid, "own-output-rejected.multi-filter" if r["verdict"] is not True else "not-strictly-valid.multi-filter"),
                              repr((af[i], af[j])), "%s ; script: %r" % (r.get("error") if r["verdict"] is not True else v2.reason, text[-160:]))
    return {"name": "generated-sets", "bound": "%d condition kinds + %d action kinds x %d values (quotes, backslashes, commas, brackets, "
            "newlines, non-ASCII, injection attempt): %d sets" % (len(condition_forms("v")), len(action_forms("v")), len(values) + 1, evals),
            "rule": "distinct = (kind, value)", "evaluations": evals, "distinct": len(distinct), "samples": samples, "exhaustive": True,
            "violations": findings.violations(pid, "sets", (pid,))}


def _vclass(v):
    if '"' in v:
        return "quote"
    if "\\" in v:
        return "backslash"
    if "," in v:
        return "comma"
    if "\n" in v:
        return "newline"
    if any(ord(c) > 127 for c in v):
        return "non-ascii"
    return "other"


def bounded_readback(pid, tier, seed):
    """C19: what you put into a filter is what you read back (original set, reloaded set, disabled filter)"""
    from sievelib.factory import FiltersSet
    from sievelib.parser import Parser
    from bounded.parser_bounded import Findings
    evals = 0
    distinct = set()
    findings = Findings()
    samples = []
    values = ["plain", "with space", "café", "a,b", "[brackets]", "x y,z", "trailing ", " leading"]
    for v in values:
        vclass = _vclass(v)
        conds = [c for c in condition_forms(v) if c[0] not in ("header-name",)]
        acts = [a for a in action_forms(v) if a[0] in ("fileinto", "fileinto-copy", "fileinto-create", "redirect", "redirect-copy", "reject",
                                                         "keep", "discard", "stop", "vacation", "vacation-mime")]
        for (ck, cond) in conds:
            for (ak, act) in acts[:4] if tier == "quick" else acts:
                for mt in ("anyof", "allof"):
                    for mode in ("original", "disabled", "reloaded", "updated"):
                        evals += 1
                        distinct.add((ck, ak, v, mt, mode))
                        try:
                            fs = FiltersSet("t")
                            if mode == "updated":
                                fs.addfilter("rule", [("Subject", ":is", "old")], [("discard",)], "anyof" if mt == "allof" else "allof")
                                fs.updatefilter("rule", "rule", [cond, ("Subject", ":is", "second")], [act], mt)
                            else:
                                fs.addfilter("rule", [cond, ("Subject", ":is", "second")], [act], mt)
                            if mode == "disabled":
                                fs.disablefilter("rule")
                            if mode == "reloaded":
                                p = Parser()
                                if not p.parse(str(fs)):
                                    continue  # C06's business
                                fs = FiltersSet("t2")
                                fs.from_parser_result(p)
                            gc = fs.get_filter_conditions("rule")
                            ga = fs.get_filter_actions("rule")
                            gm = fs.get_filter_matchtype("rule")
                        except Exception as e:
                            findings.note((pid, "raises.%s.%s.%s" % (ck, vclass, mode)), repr((cond, act)), "%s: %s" % (type(e).__name__, e))
                            continue
                        want_c = [_norm(cond), ("Subject", ":is", "second")]
                        if [_norm(x) for x in (gc or [])] != want_c:
                            findings.note((pid, "conditions.%s.%s" % (ck, vclass)), repr(cond), "read back %r (%s)" % (gc, mode))
                        elif [tuple(x) for x in (ga or [])] != [tuple(act)]:
                            findings.note((pid, "actions.%s.%s" % (ak, vclass)), repr(act), "read back %r (%s)" % (ga, mode))
                        elif gm != mt:
                            findings.note((pid, "matchtype"), mt, "read back %r (%s)" % (gm, mode))
                        elif len(samples) < 3 and mode == "reloaded" and vclass != "other":
                            samples.append({"condition": repr(cond), "action": repr(act), "mode": mode, "verdict": "read back unchanged"})
    return {"name": "read-back", "bound": "%d condition forms x actions x %d values x {anyof, allof} x {original, disabled, reloaded, updated}: %d cases"
            % (len(condition_forms("v")) - 1, len(values), evals), "rule": "distinct = (condition kind, action kind, value, match type, mode)",
            "evaluations": evals, "distinct": len(distinct), "samples": samples, "exhaustive": True,
            "violations": findings.violations(pid, "readback", (pid,))}


def _norm(t):
    return tuple(tuple(x) if isinstance(x, list) else x for x in t)


def bounded_saveload(pid, tier, seed):
    """C11: render -> parse -> from_parser_result -> same names/order/status/descriptions/requires; re-render is a fixed point"""
    from sievelib.factory import FiltersSet
    from sievelib.parser import Parser
    from bounded.parser_bounded import Findings
    rng = random.Random(seed or 1)
    evals = 0
    findings = Findings()
    samples = []
    # (names / descriptions containing a marker prefix are outside the property's quantifier; the loader repair dd6d7ca for them
    #  is exercised by tools only, not by this check)
    names = ["a", "b b", "café", "n#3", "Filter", "x: y"]
    descs = [None, "", "a description", "déjà vu", "with # hash", "colon: inside"]
    markers = [("# Filter: ", "# Description: "), ("# rule:", "# desc:"), ("#N=", "#D="), ("# [filter] ", "# (desc) "), ("# name? ", "# note+ ")]
    conds = [c for k, c in condition_forms("v") if k not in ("header-name",)]
    acts = [a for k, a in action_forms("v") if k not in ()]
    n_seq = 150 if tier == "quick" else 1500
    # exhaustive part: every sequence of 3 operations (after adding two filters) over two names
    small_ops = [(o, n) for o in ("disable", "enable", "update-same", "update-rename", "move", "remove", "replace") for n in ("a", "b b")]
    scripted = [[("add", "a"), ("add", "b b")] + list(seq) for seq in itertools.product(small_ops, repeat=2 if tier == "quick" else 3)]
    for si in range(n_seq + len(scripted)):
        mk = markers[si % len(markers)]
        fs = FiltersSet("t", mk[0], mk[1])
        used = []
        plan = scripted[si - n_seq] if si >= n_seq else None
        for step_i in range(len(plan) if plan else rng.randint(1, 5)):
            if plan:
                op, nm = plan[step_i]
                if op == "update-same":
                    op, newn = "update", nm
                elif op == "update-rename":
                    op, newn = "update", "caf\u00e9"
                else:
                    newn = None
            else:
                op = rng.choice(["add", "add", "add", "update", "disable", "enable", "move", "remove", "replace"])
                nm = rng.choice(names)
                newn = None
            try:
                if op == "add":
                    fs.addfilter(nm, [rng.choice(conds)], [rng.choice(acts)], rng.choice(["anyof", "allof"]))
                    d = rng.choice(descs)
                    if d is not None:
                        fs.filters[-1]["description"] = d
                elif op == "update":
                    fs.updatefilter(nm, newn if newn is not None else rng.choice(names), [rng.choice(conds)], [rng.choice(acts)])
                elif op == "disable":
                    fs.disablefilter(nm)
                elif op == "enable":
                    fs.enablefilter(nm)
                elif op == "move":
                    fs.movefilter(nm, rng.choice(["up", "down"]))
                elif op == "remove":
                    fs.removefilter(nm)
                elif op == "replace":
                    # documented use: a filter object obtained from the same set
                    fs.addfilter("__tmp__", [rng.choice(conds)], [rng.choice(acts)])
                    obj = fs.getfilter("__tmp__")
                    fs.removefilter("__tmp__")
                    fs.replacefilter(nm, obj, None, rng.choice(descs))
            except Exception:
                pass
        if not fs.filters:
            continue
        evals += 1
        text = str(fs)
        p = Parser()
        if not p.parse(text):
            findings.note((pid, "own-output-rejected"), text[-120:], p.error)
            continue
        fs2 = FiltersSet("t2", mk[0], mk[1])
        try:
            fs2.from_parser_result(p)
        except Exception as e:
            findings.note((pid, "load-raises"), text[-120:], "%s: %s" % (type(e).__name__, e))
            continue
        a = [(f["name"], f["enabled"], f.get("description") or "") for f in fs.filters]
        b = [(f["name"], f["enabled"], f.get("description") or "") for f in fs2.filters]
        if a != b:
            k = next((i for i in range(min(len(a), len(b))) if a[i] != b[i]), min(len(a), len(b)))
            what = "count" if len(a) != len(b) else ("name" if a[k][0] != b[k][0] else ("enabled" if a[k][1] != b[k][1] else "description"))
            findings.note((pid, "reloaded-differs." + what), text[-160:], "saved %r, loaded %r" % (a[k] if k < len(a) else None, b[k] if k < len(b) else None))
            continue
        if sorted(fs.requires) != sorted(fs2.requires) and set(fs2.requires) - set(fs.requires):
            findings.note((pid, "requires-differ"), text[-120:], "saved %r, loaded %r" % (fs.requires, fs2.requires))
            continue
        text2 = str(fs2)
        fs3 = FiltersSet("t3", mk[0], mk[1])
        p3 = Parser()
        if p3.parse(text2):
            fs3.from_parser_result(p3)
        if str(fs3) != text2:
            findings.note((pid, "not-a-fixed-point"), text2[-120:], "third rendering differs")
        elif len(samples) < 2:
            samples.append({"names": [x[0] for x in a], "markers": list(mk), "verdict": "reloaded set equal; rendering is a fixed point"})
    n_seq = n_seq + len(scripted)
    return {"name": "save-load", "bound": "%d operation sequences (all 2/3-operation sequences over two filters + seeded random ones ; 1-5 operations over %d names incl. non-ASCII and marker look-alikes, "
            "%d descriptions, 5 marker-prefix pairs): %d non-empty sets saved and reloaded" % (n_seq, len(names), len(descs), evals),
            "rule": "distinct = operation sequence", "evaluations": evals, "distinct": evals, "samples": samples, "exhaustive": False,
            "violations": findings.violations(pid, "saveload", (pid,))}
