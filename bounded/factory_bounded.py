"""Bounded stand-ins for the filter factory (C06, C11, C12, C19): the real FiltersSet driven natively."""
import io
import itertools
import random


NAMES = ["a", "b", "c"]
OPS = ["add", "update", "replace", "remove", "enable", "disable", "up", "down", "get", "exists", "isdis"]


class Model:
    """reference: ordered list of [name, enabled, token]"""

    def __init__(self):
        self.items = []

    def idx(self, name):
        for i, it in enumerate(self.items):
            if it[0] == name:
                return i
        return -1


def render(cmd):
    buf = io.StringIO()
    cmd.tosieve(target=buf)
    return buf.getvalue()


def step(fs, model, op, name, other, counter):
    """apply op to the real set and the model; returns a problem string or None"""
    from sievelib import factory
    conds = [("Subject", ":is", "v%d" % counter)]
    acts = [("fileinto", "F%d" % counter)]
    i = model.idx(name)
    exp_exc = None
    exp = None
    if op == "add":
        if i != -1:
            exp_exc = "FilterAlreadyExists"
        else:
            model.items.append([name, True, counter])
    elif op in ("update", "replace"):
        if i == -1:
            exp = False
        elif other != name and model.idx(other) != -1:
            exp_exc = "FilterAlreadyExists"
        else:
            model.items[i][0] = other
            model.items[i][2] = counter
            exp = True
    elif op == "remove":
        exp = i != -1
        if i != -1:
            del model.items[i]
    elif op == "enable":
        exp = i != -1 and not model.items[i][1]
        if exp:
            model.items[i][1] = True
    elif op == "disable":
        exp = i != -1
        if i != -1:
            model.items[i][1] = False
    elif op in ("up", "down"):
        j = i - 1 if op == "up" else i + 1
        exp = i != -1 and 0 <= j < len(model.items)
        if exp:
            model.items[i], model.items[j] = model.items[j], model.items[i]
    elif op == "get":
        exp = "content" if i != -1 else None
    elif op == "exists":
        exp = i != -1
    elif op == "isdis":
        exp = True if i == -1 else not model.items[i][1]
    try:
        if op == "add":
            got = fs.addfilter(name, conds, acts)
        elif op == "update":
            got = fs.updatefilter(name, other, conds, acts)
        elif op == "replace":
            tmp = factory.FiltersSet("tmp")
            tmp.addfilter("x", conds, acts)
            got = fs.replacefilter(name, tmp.getfilter("x"), other)
        elif op == "remove":
            got = fs.removefilter(name)
        elif op == "enable":
            got = fs.enablefilter(name)
        elif op == "disable":
            got = fs.disablefilter(name)
        elif op in ("up", "down"):
            got = fs.movefilter(name, op)
        elif op == "get":
            got = fs.getfilter(name)
        elif op == "exists":
            got = fs.filter_exists(name)
        elif op == "isdis":
            got = fs.is_filter_disabled(name)
        exc = None
    except factory.FilterAlreadyExists:
        got, exc = None, "FilterAlreadyExists"
    except Exception as e:
        return "%s(%s) raised %s: %s" % (op, name, type(e).__name__, e)
    if exc != exp_exc:
        return "%s(%s,%s): exception %r, model expects %r" % (op, name, other, exc, exp_exc)
    if exp_exc is None:
        if op == "add":
            pass
        elif op == "get":
            if (got is None) != (exp is None):
                return "getfilter(%s) returned %r" % (name, got)
            if got is not None:
                txt = render(got)
                want = "F%d" % model.items[i][2]
                if want not in txt or txt.lstrip().startswith("if false"):
                    return "getfilter(%s) returned %r, expected the filter's own content (action %s)" % (name, txt[:60], want)
        elif got is not exp and got != exp:
            return "%s(%s,%s) returned %r, model expects %r" % (op, name, other, got, exp)
    # state comparison
    if [f["name"] for f in fs.filters] != [it[0] for it in model.items]:
        return "after %s(%s,%s): names %r, model %r" % (op, name, other, [f["name"] for f in fs.filters], [it[0] for it in model.items])
    for f, it in zip(fs.filters, model.items):
        txt = render(f["content"])
        wrapped = txt.lstrip().startswith("if false")
        if f["enabled"] is not it[1] or fs.is_filter_disabled(f["name"]) is it[1] or wrapped is it[1]:
            return "after %s(%s): filter %s enabled=%r is_filter_disabled=%r rendered-wrapped=%r, model enabled=%r" % (
                op, name, f["name"], f["enabled"], fs.is_filter_disabled(f["name"]), wrapped, it[1])
        if ("F%d" % it[2]) not in txt:
            return "after %s(%s): filter %s lost its content" % (op, name, f["name"])
    return None


def bounded_sequences(pid, tier, seed):
    from sievelib import factory
    from bounded.parser_bounded import Findings
    evals = 0
    findings = Findings()
    samples = []
    names2 = NAMES[:2]
    depth = 4 if tier == "quick" else 5
    mut = ["add", "update", "remove", "enable", "disable", "up", "down", "replace"]
    # exhaustive: all sequences of `depth` mutating operations over 2 names (argument pairs chosen per op)
    alphabet = []
    for op in mut:
        for n1 in names2:
            if op in ("update", "replace"):
                for n2 in names2:
                    alphabet.append((op, n1, n2))
            else:
                alphabet.append((op, n1, n1))
    seqs = itertools.product(alphabet, repeat=depth)
    count = 0
    for seq in seqs:
        count += 1
        fs = factory.FiltersSet("s")
        model = Model()
        for k, (op, n1, n2) in enumerate(seq):
            evals += 1
            prob = step(fs, model, op, n1, n2, k)
            if prob is None:
                for q in ("get", "exists", "isdis"):
                    for nm in names2:
                        prob = prob or step(fs, model, q, nm, nm, k)
            if prob:
                findings.note((pid, "sequence"), " ; ".join("%s(%s,%s)" % s_ for s_ in seq[:k + 1]), prob)
                break
    rng = random.Random(seed or 1)
    for _ in range(300 if tier == "quick" else 3000):
        fs = factory.FiltersSet("s")
        model = Model()
        seq = []
        for k in range(8):
            op = rng.choice(mut)
            n1, n2 = rng.choice(NAMES), rng.choice(NAMES)
            seq.append((op, n1, n2))
            evals += 1
            prob = step(fs, model, op, n1, n2, k)
            if prob:
                findings.note((pid, "sequence"), " ; ".join("%s(%s,%s)" % s_ for s_ in seq), prob)
                break
        else:
            if len(samples) < 2:
                samples.append({"sequence": ["%s(%s,%s)" % s_ for s_ in seq], "verdict": "agrees with the list model at every step"})
    return {"name": "operation-sequences", "bound": "all %d sequences of %d mutating operations over 2 names (exhaustive) + seeded random "
            "sequences of 8 over 3 names: %d steps, each followed by getfilter/filter_exists/is_filter_disabled probes and a "
            "rendering check" % (count, depth, evals), "rule": "distinct = operation sequence", "evaluations": evals, "distinct": count,
            "samples": samples, "exhaustive": True, "violations": findings.violations(pid, "sequences", (pid,))}
