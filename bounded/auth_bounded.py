"""C16 bounded stand-in (labelled bounded): the real Client.connect against a strict SASL reference server.

The server announces a set of mechanisms, parses what the client writes STRICTLY (RFC 5804 command lines with quoted
strings, base64 with the standard alphabet and padding, RFC 4616 PLAIN, the LOGIN exchange, RFC 7628 OAUTHBEARER with
RFC 5801 saslname escaping) and records the credentials it decoded.  Exhaustive over the pools below.
DIGEST-MD5 is never the mechanism that ends up selected here (that exchange crashes: listed finding, decided
deductively); it is still announced in some sets so that preferring another mechanism over it is exercised.
"""
import base64
import itertools
import re
import socket
import unittest.mock as mock

IMPLEMENTED = ["DIGEST-MD5", "PLAIN", "LOGIN", "OAUTHBEARER"]


class Violation(Exception):
    pass


def _parse_line(line):
    """a command line made of atoms and quoted strings -> list of bytes (strings unescaped); strict"""
    out = []
    i = 0
    n = len(line)
    while i < n:
        if line[i:i + 1] == b" ":
            i += 1
            if i >= n or line[i:i + 1] == b" ":
                raise Violation("stray space in %r" % line)
            continue
        if line[i:i + 1] == b'"':
            i += 1
            cur = b""
            while True:
                if i >= n:
                    raise Violation("unterminated quoted string in %r" % line)
                ch = line[i:i + 1]
                if ch == b"\\":
                    if line[i + 1:i + 2] not in (b"\\", b'"'):
                        raise Violation("bad escape in %r" % line)
                    cur += line[i + 1:i + 2]
                    i += 2
                elif ch == b'"':
                    i += 1
                    break
                elif ch in (b"\r", b"\n", b"\x00"):
                    raise Violation("control character in quoted string %r" % line)
                else:
                    cur += ch
                    i += 1
            out.append(("string", cur))
            if i < n and line[i:i + 1] != b" ":
                raise Violation("no space after string in %r" % line)
        else:
            m = re.match(rb"[A-Za-z][A-Za-z0-9_-]*", line[i:])
            if not m:
                raise Violation("unparsable command line %r" % line)
            out.append(("atom", m.group(0)))
            i += m.end()
            if i < n and line[i:i + 1] != b" ":
                raise Violation("no space after atom in %r" % line)
    return out


def _b64(s):
    if not re.fullmatch(rb"[A-Za-z0-9+/]*={0,2}", s) or len(s) % 4:
        raise Violation("not base64 (standard alphabet, padded): %r" % s)
    return base64.b64decode(s, validate=True)


def _saslname(b):
    out = b""
    i = 0
    while i < len(b):
        ch = b[i:i + 1]
        if ch == b",":
            raise Violation("unescaped comma in saslname %r" % b)
        if ch == b"=":
            code = b[i + 1:i + 3]
            if code == b"2C":
                out += b","
            elif code == b"3D":
                out += b"="
            else:
                raise Violation("bad escape in saslname %r" % b)
            i += 3
            continue
        out += ch
        i += 1
    return out


def _oauthbearer(msg):
    """RFC 7628 client response -> (authzid, token)"""
    m = re.match(rb"n,(?:a=([^,]*))?,", msg)
    if not m:
        raise Violation("bad gs2 header in %r" % msg)
    authzid = _saslname(m.group(1) or b"")
    rest = msg[m.end():]
    if not rest.startswith(b"\x01") or not rest.endswith(b"\x01\x01"):
        raise Violation("bad key/value framing in %r" % msg)
    pairs = rest[1:-2].split(b"\x01") if len(rest) > 3 else []
    token = None
    for kv in pairs:
        mm = re.fullmatch(rb"([A-Za-z]+)=([\x21-\x7e\x20\x09\x0d\x0a]*)", kv)
        if not mm:
            raise Violation("bad key/value pair %r" % kv)
        if mm.group(1) == b"auth":
            if not mm.group(2).startswith(b"Bearer "):
                raise Violation("auth value is not a Bearer token: %r" % kv)
            token = mm.group(2)[len(b"Bearer "):]
    if token is None:
        raise Violation("no auth key in %r" % msg)
    return authzid, token


class AuthServer:
    """socket-like reference server for the authentication phase"""

    def __init__(self, mechs, verdict):
        self.mechs = mechs
        self.verdict = verdict
        self.outq = b'"IMPLEMENTATION" "reference"\r\n'
        if mechs is not None:
            self.outq += b'"SASL" "' + " ".join(mechs).encode() + b'"\r\n'
        self.outq += b'"SIEVE" "fileinto"\r\n"VERSION" "1.0"\r\nOK "ready"\r\n'
        self.inbuf = b""
        self.state = "idle"
        self.violations = []
        self.auth = []        # (mechanism, decoded credentials) per completed exchange
        self.attempts = []    # mechanism names asked for
        self.raw = []
        self.tmp = None

    def settimeout(self, t):
        pass

    def close(self):
        pass

    def recv(self, n):
        if not self.outq:
            raise socket.timeout("timed out")
        out, self.outq = self.outq[:n], self.outq[n:]
        return out

    def _finish(self, mech, cred):
        self.auth.append((mech, cred))
        self.outq += b'OK "authenticated"\r\n' if self.verdict == "OK" else b'NO "authentication failed"\r\n'
        self.state = "idle"

    def sendall(self, data):
        self.raw.append(bytes(data))
        self.inbuf += bytes(data)
        while b"\r\n" in self.inbuf:
            line, self.inbuf = self.inbuf.split(b"\r\n", 1)
            try:
                self._line(line)
            except Violation as e:
                self.violations.append(str(e))
                self.outq += b'NO "protocol violation"\r\n'
                self.state = "idle"
            except UnicodeDecodeError as e:
                self.violations.append("credentials are not UTF-8: %s" % e)
                self.outq += b'NO "protocol violation"\r\n'
                self.state = "idle"

    def _line(self, line):
        toks = _parse_line(line)
        if self.state == "login-user" or self.state == "login-pass":
            if len(toks) != 1 or toks[0][0] != "string":
                raise Violation("LOGIN step is not a single string: %r" % line)
            val = _b64(toks[0][1])
            if self.state == "login-user":
                self.tmp = val
                self.outq += b'"UGFzc3dvcmQ6"\r\n'
                self.state = "login-pass"
            else:
                self._finish("LOGIN", (self.tmp.decode("utf-8"), val.decode("utf-8")))
            return
        if not toks or toks[0] != ("atom", b"AUTHENTICATE"):
            if toks and toks[0] == ("atom", b"LOGOUT"):
                self.outq += b'OK "bye"\r\n'
                return
            raise Violation("unexpected command during authentication: %r" % line)
        if len(toks) < 2 or toks[1][0] != "string" or len(toks) > 3 or (len(toks) == 3 and toks[2][0] != "string"):
            raise Violation("AUTHENTICATE arguments: %r" % line)
        mech = toks[1][1].decode("ascii")
        self.attempts.append(mech)
        if self.mechs is None or mech not in self.mechs:
            self.violations.append("AUTHENTICATE with a mechanism the server did not announce: %s" % mech)
            self.outq += b'NO "unknown mechanism"\r\n'
            return
        initial = _b64(toks[2][1]) if len(toks) == 3 else None
        if mech == "PLAIN":
            if initial is None:
                raise Violation("PLAIN without initial response")
            parts = initial.split(b"\x00")
            if len(parts) != 3:
                raise Violation("PLAIN message does not have three NUL-separated fields: %r" % initial)
            self._finish("PLAIN", tuple(p.decode("utf-8") for p in parts))
        elif mech == "LOGIN":
            if initial is not None:
                raise Violation("LOGIN with an initial response")
            self.outq += b'"VXNlcm5hbWU6"\r\n'
            self.state = "login-user"
        elif mech == "OAUTHBEARER":
            if initial is None:
                raise Violation("OAUTHBEARER without initial response")
            authzid, token = _oauthbearer(initial)
            self._finish("OAUTHBEARER", (authzid.decode("utf-8"), token.decode("utf-8")))
        else:
            self.outq += b'NO "mechanism not handled by the reference server"\r\n'


LOGINS = ["user", "us er", "üser€", "a,b", "a=b", "x\"y", "back\\slash", "=2C"]
PASSWORDS = ["secret", "pä$$ wörd", "to,k=en", ">>>???", "ya29.a0AfH6SMBx~_-.Q~~"]
AUTHZ = ["", "admin", "ädmin"]
MECH_SETS = [None, [], ["PLAIN"], ["LOGIN"], ["OAUTHBEARER"], ["PLAIN", "LOGIN"], ["LOGIN", "PLAIN"], ["OAUTHBEARER", "LOGIN"],
             ["OAUTHBEARER", "LOGIN", "PLAIN"], ["X-UNKNOWN"], ["X-UNKNOWN", "OAUTHBEARER"], ["PLAIN-CLIENTTOKEN", "SCRAM-SHA-1"],
             ["XOAUTH2", "PLAIN-CLIENTTOKEN", "OAUTHBEARER"], ["LOGIN2", "XLOGIN", "LOGIN"], ["DIGEST-MD5", "PLAIN"],
             ["GSSAPI", "DIGEST-MD5", "LOGIN", "OAUTHBEARER"]]
PREFERRED = [None, "PLAIN", "LOGIN", "OAUTHBEARER", "X-UNKNOWN", "GSSAPI", "plain"]


def spec_mechanism(mechs, preferred):
    """the mechanism the property statement prescribes, or None (fail without sending credentials)"""
    if mechs is None:
        return None
    if preferred in IMPLEMENTED:
        return preferred if preferred in mechs else None
    for m in IMPLEMENTED:
        if m in mechs:
            return m
    return None


def run_case(mechs, preferred, login, password, authz, verdict):
    from sievelib import managesieve
    srv = AuthServer(mechs, verdict)
    c = managesieve.Client("srv.example", 4190)
    kind, val = "return", None
    with mock.patch("socket.create_connection", return_value=srv):
        try:
            val = c.connect(login, password, authz_id=authz, starttls=False, authmech=preferred)
        except managesieve.Error as e:
            kind, val = "Error", str(e)
        except Exception as e:
            kind, val = "crash", "%s: %s" % (type(e).__name__, e)
    return srv, c, kind, val


def check_case(mechs, preferred, login, password, authz, verdict):
    """-> None or (clause, description)"""
    want = spec_mechanism(mechs, preferred)
    srv, c, kind, val = run_case(mechs, preferred, login, password, authz, verdict)
    if kind == "crash":
        return ("no-crash", "connect raised %s" % val)
    if want is None:
        if srv.attempts:
            return ("no-credentials-without-a-qualifying-mechanism", "AUTHENTICATE %r sent although no mechanism qualifies" % srv.attempts)
        if kind == "return" and val is True:
            return ("fails-without-a-qualifying-mechanism", "connect returned True")
        if c.authenticated:
            return ("fails-without-a-qualifying-mechanism", "client believes it is authenticated")
        return None
    if srv.attempts != [want]:
        return ("the-prescribed-mechanism-and-no-other", "AUTHENTICATE attempts %r, prescribed %r" % (srv.attempts, [want]))
    if srv.violations:
        return ("wire-format.%s" % want, "strict decoding failed: %s" % srv.violations[0])
    if len(srv.auth) != 1:
        return ("wire-format.%s" % want, "exchange not completed: %r" % (srv.auth,))
    got = srv.auth[0][1]
    if want == "PLAIN":
        exp = (authz, login, password)
    elif want == "LOGIN":
        exp = (login, password)
    else:
        # the gs2 authorisation identity carries the login (or the explicit authorisation id), the token is the password
        exp = (got[0] if got[0] in (login, authz) and got[0] != "" else login, password)
    if got != exp:
        return ("credentials.%s" % want, "server decoded %r, caller gave %r" % (got, exp))
    ok = verdict == "OK"
    if kind != "return" or val is not ok or c.authenticated is not ok:
        return ("true-iff-accepted", "server said %s, connect -> %s %r, authenticated=%r" % (verdict, kind, val, c.authenticated))
    if srv.outq:
        return ("exchange-read-completely", "reply bytes left unread: %r" % srv.outq[:40])
    return None


def bounded_auth(pid, tier, seed):
    evals = 0
    distinct = set()
    violations = {}
    samples = []
    # 1. selection: every announced set x every preference, one credential triple, both verdicts
    cases = [(m, p, "user", "secret", "", v) for m in MECH_SETS for p in PREFERRED for v in ("OK", "NO")]
    # 2. payloads: every mechanism x credential pools (thorough: full product)
    if tier == "thorough":
        creds = list(itertools.product(LOGINS, PASSWORDS, AUTHZ))
    else:
        creds = [(l, PASSWORDS[i % len(PASSWORDS)], AUTHZ[i % len(AUTHZ)]) for i, l in enumerate(LOGINS)] + \
                [(LOGINS[i % len(LOGINS)], pw, AUTHZ[(i + 1) % len(AUTHZ)]) for i, pw in enumerate(PASSWORDS)]
    for mech in ("PLAIN", "LOGIN", "OAUTHBEARER"):
        for (l, pw, az) in creds:
            if mech == "OAUTHBEARER" and not pw.isascii():
                continue     # a bearer token is ASCII by definition (RFC 6750 b64token): outside the claim
            cases.append(([mech], None, l, pw, az, "OK"))
    for case in cases:
        mechs, pref, l, pw, az, v = case
        if spec_mechanism(mechs, pref) == "DIGEST-MD5":
            continue     # listed finding C16-digest-md5-python2 (decided deductively)
        evals += 1
        distinct.add((tuple(mechs) if mechs is not None else None, pref, l, pw, az, v))
        bad = check_case(*case)
        if bad:
            oid = "%s.B.auth.%s" % (pid, bad[0])
            violations.setdefault(oid, ({"announced": mechs, "preferred": pref, "login": l, "password": pw, "authz_id": az,
                                         "server_verdict": v}, bad[1]))
        elif len(samples) < 2:
            samples.append({"announced": mechs, "preferred": pref, "login": l, "verdict": v, "outcome": "as specified"})
    return {"name": "strict-sasl-server", "bound": "%d announced sets x %d preferences x {OK, NO}; 3 mechanisms x %d credential "
            "triples (logins %d, passwords %d, authorisation ids %d)" % (len(MECH_SETS), len(PREFERRED), len(creds), len(LOGINS),
                                                                           len(PASSWORDS), len(AUTHZ)),
            "rule": "distinct = (announced, preferred, credentials, verdict)", "evaluations": evals, "distinct": len(distinct),
            "samples": samples, "exhaustive": True, "violations": [(oid, w, d) for oid, (w, d) in sorted(violations.items())]}
