"""Lists of records of SYMBOLIC length (for FiltersSet.filters, C12): length n and one SMT array per field.

  name: Int -> String   enabled: Int -> Bool   content: Int -> Int (content id)   desc: Int -> String, hasdesc: Int -> Bool

Content objects are ids with two uninterpreted functions: dis(id) ("has the `if false {..}` shape") and inner(id)
(its first child).  A real Command stored into a record gets a fresh id whose dis/inner facts are COMPUTED from the
real object (not assumed).  Records are referenced by (list, index); restructuring the list (remove / insert /
append) starts a new epoch and stale references are Unsupported.
"""
import z3

from . import core, sym
from .core import Unsupported
from .sym import SBool, SInt, SStr, mkbool, mkint, mkstr, to_z3str, to_z3int, to_z3bool

I = z3.IntSort()
F_dis = z3.Function("content_is_disabled_shape", I, z3.BoolSort())
F_inner = z3.Function("content_first_child", I, I)


class SContent:
    """a filter content known only by its id"""

    def __init__(self, cid):
        self.cid = cid

    def __repr__(self):
        return "SContent(%s)" % self.cid

    def __pyvc_eq__(self, ip, other):
        if isinstance(other, SContent):
            return mkbool(self.cid == other.cid)
        return False

    @property
    def children(self):
        return _Children(self)


class _Children:
    def __init__(self, c):
        self.c = c

    def __pyvc_getitem__(self, ip, key):
        if key == 0:
            return SContent(F_inner(self.c.cid))
        raise Unsupported("children[%r] of an abstract content" % (key,))


_REAL_IDS = {}


def content_id(obj, isdisabled):
    """z3 id of a content value; for a real Command: a fresh id with its facts computed from the object"""
    if isinstance(obj, SContent):
        return obj.cid
    p = core.cur()
    reg = p.ghost.setdefault("content_ids", {})
    e = reg.get(id(obj))
    if e is not None:
        return e[0]
    cid = z3.Int(p.fresh_name("content_id"))
    reg[id(obj)] = (cid, obj)
    # facts: this id is different from nothing in particular (fresh), its shape is what the real predicate computes
    p.add(F_dis(cid) == z3.BoolVal(bool(isdisabled(obj))))
    kids = getattr(obj, "children", None)
    if kids:
        p.add(F_inner(cid) == content_id(kids[0], isdisabled))
    return cid


class RecRef:
    """reference to the record at index `idx` of `lst` (valid for the list's current epoch)"""

    def __init__(self, lst, idx, epoch):
        self.lst = lst
        self.idx = idx
        self.epoch = epoch

    def _check(self):
        if self.epoch != self.lst.epoch:
            raise Unsupported("use of a record reference after the list was restructured")

    def __pyvc_truth__(self):
        return True

    def __pyvc_getitem__(self, ip, key):
        self._check()
        L = self.lst
        if key == "name":
            return mkstr(z3.Select(L.nm, self.idx), False)
        if key == "enabled":
            return mkbool(z3.Select(L.en, self.idx))
        if key == "content":
            return SContent(z3.Select(L.ct, self.idx))
        if key == "description":
            if not core.branch(z3.Select(L.hd, self.idx)):
                raise KeyError("description")
            return mkstr(z3.Select(L.ds, self.idx), False)
        raise KeyError(key)

    def __pyvc_contains__(self, ip, key):
        self._check()
        if key in ("name", "enabled", "content"):
            return True
        if key == "description":
            return mkbool(z3.Select(self.lst.hd, self.idx))
        return False

    def __pyvc_setitem__(self, ip, key, value):
        self._check()
        L = self.lst
        if key == "name":
            L.nm = z3.Store(L.nm, self.idx, to_z3str(value))
        elif key == "enabled":
            L.en = z3.Store(L.en, self.idx, to_z3bool(value))
        elif key == "content":
            L.ct = z3.Store(L.ct, self.idx, content_id(value, L.isdisabled))
        elif key == "description":
            L.ds = z3.Store(L.ds, self.idx, to_z3str(value))
            L.hd = z3.Store(L.hd, self.idx, z3.BoolVal(True))
        else:
            raise Unsupported("record field %r" % (key,))


class SRecList:
    def __init__(self, name, isdisabled):
        p = core.cur()
        self.n = z3.Int(p.fresh_name(name + "_len"))
        self.nm = z3.Array(p.fresh_name(name + "_name"), I, z3.StringSort())
        self.en = z3.Array(p.fresh_name(name + "_enabled"), I, z3.BoolSort())
        self.ct = z3.Array(p.fresh_name(name + "_content"), I, I)
        self.ds = z3.Array(p.fresh_name(name + "_desc"), I, z3.StringSort())
        self.hd = z3.Array(p.fresh_name(name + "_hasdesc"), I, z3.BoolSort())
        self.epoch = 0
        self.isdisabled = isdisabled
        p.add(self.n >= 0)

    def snapshot(self):
        return (self.n, self.nm, self.en, self.ct, self.ds, self.hd)

    def same_as(self, snap):
        return all(a.eq(b) for a, b in zip(self.snapshot(), snap))

    def __pyvc_truth__(self):
        return mkbool(self.n > 0)

    def __pyvc_len__(self, ip):
        return mkint(self.n)

    def ref(self, idx):
        return RecRef(self, idx, self.epoch)

    # -- restructuring ------------------------------------------------------------------------
    def __pyvc_iadd__(self, ip, items):
        for d in items:
            if not isinstance(d, dict):
                raise Unsupported("appending a non-record")
            k = self.n
            self.nm = z3.Store(self.nm, k, to_z3str(d["name"]))
            self.en = z3.Store(self.en, k, to_z3bool(d["enabled"]))
            self.ct = z3.Store(self.ct, k, content_id(d["content"], self.isdisabled))
            if "description" in d:
                self.ds = z3.Store(self.ds, k, to_z3str(d["description"]))
                self.hd = z3.Store(self.hd, k, z3.BoolVal(True))
            else:
                self.hd = z3.Store(self.hd, k, z3.BoolVal(False))
            self.n = self.n + 1
        self.epoch += 1
        return self

    def remove(self, f):
        """list.remove(f): removes the FIRST element equal to f.  Obligation: no earlier element is equal (dict equality),
        so it is f's own position that goes."""
        if not isinstance(f, RecRef) or f.lst is not self:
            raise Unsupported("remove of a foreign value")
        f._check()
        i = f.idx
        k = z3.Int(core.cur().fresh_name("k_remove"))
        same = z3.And(z3.Select(self.nm, k) == z3.Select(self.nm, i), z3.Select(self.en, k) == z3.Select(self.en, i),
                      z3.Select(self.ct, k) == z3.Select(self.ct, i))
        core.prove(z3.Implies(z3.And(k >= 0, k < i), z3.Not(same)), "list.remove-hits-the-element-itself")
        self.removed = (z3.Select(self.nm, i), z3.Select(self.en, i), z3.Select(self.ct, i), z3.Select(self.ds, i), z3.Select(self.hd, i))
        q = z3.Int("q!")

        def shift(arr):
            return z3.Lambda([q], z3.If(q < i, z3.Select(arr, q), z3.Select(arr, q + 1)))

        self.nm, self.en, self.ct, self.ds, self.hd = [shift(a) for a in (self.nm, self.en, self.ct, self.ds, self.hd)]
        self.n = self.n - 1
        self.epoch += 1
        self.last_removed_ref = f
        return None

    remove._pyvc_native = True

    def insert(self, pos, f):
        if getattr(self, "last_removed_ref", None) is not f:
            raise Unsupported("insert of a value that was not just removed")
        p = to_z3int(pos)
        # Python clamps the position into [0, n] (negative positions count from the end)
        p = z3.If(p < 0, z3.If(self.n + p < 0, z3.IntVal(0), self.n + p), z3.If(p > self.n, self.n, p))
        vals = self.removed
        q = z3.Int("q!")

        def ins(arr, v):
            return z3.Lambda([q], z3.If(q < p, z3.Select(arr, q), z3.If(q == p, v, z3.Select(arr, q - 1))))

        self.nm, self.en, self.ct, self.ds, self.hd = [ins(a, v) for a, v in zip((self.nm, self.en, self.ct, self.ds, self.hd), vals)]
        self.n = self.n + 1
        self.epoch += 1
        self.last_removed_ref = None
        return None

    insert._pyvc_native = True

    # -- iteration ----------------------------------------------------------------------------
    def __pyvc_forloop__(self, ip, s, frame, spec, ordinal):
        from .interp import NS, _Break, _Continue, assigned_names
        import ast
        info = frame.info
        if spec is None:
            raise Unsupported("loop over a record list of symbolic length without an invariant: %s" % (info.qualname if info else "?"))
        label = spec.label or "%s.loop%d" % (info.qualname, ordinal)
        if spec.header is not None and ast.unparse(s.iter) != spec.header:
            raise Unsupported("stale loop invariant for %s" % info.qualname)
        snap = self.snapshot()
        epoch0 = self.epoch
        frame.locals["$i"] = 0
        frame.locals["$list"] = self
        L = NS(frame.locals)
        ok = ip.call(spec.invariant, [L], {})
        if not core.prove(ip._as_cond(ok), label + ".inv-entry"):
            raise core.PathEnd()
        for name in sorted(assigned_names(s.body)):
            frame.locals[name] = ip.fresh_of_kind(spec.havoc.get(name), name)
        i = sym.fresh_int("loop_i", register=False)
        core.assume(z3.And(i.t >= 0, i.t <= self.n))
        frame.locals["$i"] = i
        inv = ip.call(spec.invariant, [L], {})
        core.assume(ip._as_cond(inv))
        if core.branch(i.t < self.n):
            ip.assign(s.target, self.ref(i.t), frame)
            try:
                ip.exec_block(s.body, frame)
            except _Break:
                return
            except _Continue:
                pass
            if self.epoch != epoch0 or not self.same_as(snap):
                raise Unsupported("loop body modifies the list and then continues")
            frame.locals["$i"] = mkint(i.t + 1)
            ok = ip.call(spec.invariant, [L], {})
            core.prove(ip._as_cond(ok), label + ".inv-preserved")
            raise core.PathEnd()
        ip.exec_block(s.orelse, frame)
