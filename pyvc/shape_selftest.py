"""Self-test of the structural string layer (pyvc/shape.py) against CPython.

Random shaped strings (constants + symbolic pieces with a character class) are instantiated with random members of the
classes; every structural operation that gives a definite answer must agree with the real Python operation on the
instantiated string.  An UNKNOWN answer is always allowed (the general model takes over).  Deterministic (fixed seed).
Registered as a static obligation of the checks that depend most on the layer, so an unsound edit of shape.py is caught
on every run, not only when a unit's sampled path model happens to hit it.
"""
import random
import re

import z3

from . import core, shape, sym, rx
from .core import strval

CLASSES = [
    ("safe", 'abcXYZ 09-_.', lambda: z3.Star(z3.Intersect(sym.re_char_not('\x00\r\n"\\'), z3.Range(strval("\x00"), strval("\xff")))), True),
    ("safe+", 'abcXYZ 09-_.', lambda: z3.Plus(z3.Intersect(sym.re_char_not('\x00\r\n"\\'), z3.Range(strval("\x00"), strval("\xff")))), False),
    ("nocrlf", 'ab "\\{}5, :', lambda: z3.Star(z3.Intersect(sym.re_char_not("\r\n"), z3.Range(strval("\x00"), strval("\xff")))), True),
    ("digits", "0123456789", lambda: z3.Plus(z3.Range(strval("0"), strval("9"))), False),
    ("plain", "abc xyz.-", lambda: z3.Star(sym.re_char_not('",\\')), True),
    ("any", 'a"\r\n\\ ,{', lambda: None, True),
]
CONSTS = ['"', '" "', '"\r\n', "\r\n", 'OK "done"\r\n', " ACTIVE", "{", "}", '\\"', "\\\\", ",", '","', "[", "]", " ", "  ", "(", ") ", "x", '""']


def _instance(rng, alphabet, may_be_empty):
    n = rng.choice([0, 1, 2, 3, 5] if may_be_empty else [1, 2, 3, 5])
    return "".join(rng.choice(alphabet) for _ in range(n))


def _render(pieces, values):
    return "".join(pc.const if pc.const is not None else values[pc.term.decl().name()] for pc in pieces)


def run(trials=400, seed=20260928):
    """-> list of mismatch descriptions (empty = the layer agrees with CPython on every definite answer)"""
    rng = random.Random(seed)
    problems = []
    ex = core.Exploration("shape-selftest")
    p = core.Path(ex, [])
    core.CUR = p
    try:
        for t in range(trials):
            k = rng.randint(1, 5)
            pieces = []
            values = {}
            for i in range(k):
                if rng.random() < 0.5:
                    pieces.append(shape.Piece(const=rng.choice(CONSTS)))
                else:
                    name, alphabet, mk, empty_ok = rng.choice(CLASSES)
                    v = z3.String("st%d_%d" % (t, i))
                    pieces.append(shape.Piece(term=v, regex=mk()))
                    values[v.decl().name()] = _instance(rng, alphabet, empty_ok)
            real = _render(pieces, values)
            rb = real.encode("latin-1")

            def inst(ps):
                return _render(ps, values)

            # first CRLF
            r = shape.split_first(pieces, "\r\n")
            if r is None:
                if "\r\n" in real:
                    problems.append("split_first: says no CRLF in %r" % real)
            elif r is not shape.UNKNOWN:
                i = real.find("\r\n")
                if i < 0 or inst(r[0]) != real[:i] or inst(r[1]) != real[i + 2:]:
                    problems.append("split_first: %r -> %r | %r" % (real, inst(r[0]), inst(r[1])))
            # splitlines (bytes)
            r = shape.splitlines_bytes(pieces)
            if r is not shape.UNKNOWN:
                got = [inst(l).encode("latin-1") for l in r]
                if got != rb.splitlines():
                    problems.append("splitlines: %r -> %r, CPython %r" % (rb, got, rb.splitlines()))
            # split(None, 1) (bytes white space)
            r = shape.split_ws_once(pieces, " \t\n\r\x0b\x0c")
            if r is not shape.UNKNOWN:
                got = [inst(x).encode("latin-1") for x in r]
                if got != rb.split(None, 1):
                    problems.append("split(None,1): %r -> %r, CPython %r" % (rb, got, rb.split(None, 1)))
            # split(c), strip(chars), replace, in, slices
            for c in (",", '"'):
                r = shape.split_char(pieces, c)
                if r is not shape.UNKNOWN and [inst(x) for x in r] != real.split(c):
                    problems.append("split(%r): %r -> %r" % (c, real, [inst(x) for x in r]))
                r = shape.contains_char(pieces, c)
                if r is not shape.UNKNOWN and r != (c in real):
                    problems.append("%r in %r -> %r" % (c, real, r))
            for chars in ('"', '()', ' "'):
                r = shape.strip_chars(pieces, chars)
                if r is not shape.UNKNOWN and inst(r) != real.strip(chars):
                    problems.append("strip(%r): %r -> %r, CPython %r" % (chars, real, inst(r), real.strip(chars)))
            for old, new in (('"', '\\"'), ("\\", "\\\\"), ('\\"', '"'), ("\\\\", "\\"), ("=", "=3D")):
                r = shape.replace_all_char(pieces, old, new)
                if r is not shape.UNKNOWN and inst(r) != real.replace(old, new):
                    problems.append("replace(%r,%r): %r -> %r, CPython %r" % (old, new, real, inst(r), real.replace(old, new)))
            for (a, b) in ((1, -1), (1, None), (None, -2), (2, -1)):
                r = shape.slice_const_edges(pieces, a, b)
                if r is not shape.UNKNOWN and inst(r) != real[a:b]:
                    problems.append("slice[%r:%r]: %r -> %r" % (a, b, real, inst(r)))
            # regex matching with groups
            for pat in (rb'"([^"]+)"\s*(.+)', rb"\{(\d+)\+?\}", rb'(\([\w/-]+\))?\s*(".+")', rb"(OK|NO|BYE)\s*(.+)?", rb'"([^"]+)"'):
                root, info = rx.convert(pat, 0)
                try:
                    res = shape.structural_match(root, info, shape.concat(pieces))
                except core.Unsupported:
                    res = None
                if res is None:
                    continue
                m = re.match(pat, rb)
                if res[0] == "nomatch":
                    if m is not None:
                        problems.append("match %r on %r: structural says no match, CPython matches %r" % (pat, rb, m.group(0)))
                    continue
                if m is None:
                    problems.append("match %r on %r: structural matches, CPython does not" % (pat, rb))
                    continue
                model = z3.Solver()
                for name, v in values.items():
                    model.add(z3.String(name) == strval(v))
                model.check()
                mm = model.model()

                def val(term):
                    return core.unesc(mm.eval(term, model_completion=True).as_string()).encode("latin-1")

                if val(res[2]) != m.group(0):
                    problems.append("match %r on %r: whole match %r vs %r" % (pat, rb, val(res[2]), m.group(0)))
                for gi, gt in res[1].items():
                    want = m.group(gi)
                    got = None if gt is None else val(gt)
                    if got != want:
                        problems.append("match %r on %r: group %d %r vs %r" % (pat, rb, gi, got, want))
    finally:
        core.CUR = None
    return problems
