"""Structural reasoning about *shaped* strings: concatenations of constants and symbolic pieces whose character class
is known (from `assume(in_re(piece, R))` facts recorded on the path).

For such strings the first CRLF, the list of lines and the groups of a regex match are computed on the STRUCTURE
(exactly, as concatenations of the original pieces) instead of introducing fresh string variables and leaving word
equations to the solvers -- which both z3 and cvc5 answer `unknown` on.  Every class question asked about a piece is a
small regex-language query (L(R) subset of C*, epsilon not in L(R), ...) discharged by z3 and cached; whenever the
structure does not decide a step the caller falls back to the general (solver-based) model.  Nothing is assumed.
"""
import z3

from . import core
from .core import strval, unesc

UNKNOWN = "unknown"


# ----------------------------------------------------------------------------- pieces

class Piece:
    __slots__ = ("const", "term", "regex")

    def __init__(self, const=None, term=None, regex=None):
        self.const = const   # str for a constant piece
        self.term = term     # z3 term for a symbolic piece
        self.regex = regex   # z3 regex the symbolic piece is known to belong to (or None)

    def z3(self):
        return strval(self.const) if self.const is not None else self.term

    def __repr__(self):
        return repr(self.const) if self.const is not None else "<%s>" % self.term


def _as_membership(cond):
    """cond as (x, R) meaning `x in R` for a plain string variable x: in_re facts, x == constant, and disjunctions of
    those about the same variable (the simplifier turns `x in ("" | R)` into `x == "" or x in R`)"""
    if z3.is_app(cond) and cond.decl().kind() == z3.Z3_OP_SEQ_IN_RE:
        x, R = cond.children()
        if z3.is_const(x) and x.decl().kind() == z3.Z3_OP_UNINTERPRETED:
            return (x, R)
        return None
    if z3.is_eq(cond):
        a, b = cond.children()
        if z3.is_int_value(a):
            a, b = b, a
        if z3.is_int_value(b) and b.as_long() == 0 and z3.is_app(a) and a.decl().kind() == z3.Z3_OP_SEQ_LENGTH:
            x = a.arg(0)
            if z3.is_const(x) and x.decl().kind() == z3.Z3_OP_UNINTERPRETED:
                return (x, z3.Re(strval("")))
            return None
        if z3.is_string_value(a):
            a, b = b, a
        if z3.is_string_value(b) and z3.is_const(a) and a.decl().kind() == z3.Z3_OP_UNINTERPRETED and z3.is_string(a):
            return (a, z3.Re(b))
        return None
    if z3.is_or(cond):
        parts = [_as_membership(c) for c in cond.children()]
        if parts and all(pt is not None for pt in parts) and all(pt[0].eq(parts[0][0]) for pt in parts):
            R = parts[0][1]
            for pt in parts[1:]:
                R = z3.Union(R, pt[1])
            return (parts[0][0], R)
    return None


def record_class_fact(p, cond):
    """called by core.assume: remember `x in R` facts about plain string variables"""
    try:
        if z3.is_and(cond):
            for c in cond.children():
                record_class_fact(p, c)
            return
        mem = _as_membership(cond)
        if mem is not None:
            x, R = mem
            d = p.ghost.setdefault("classes", {})
            old = d.get(x.get_id())
            d[x.get_id()] = R if old is None else z3.Intersect(old, R)
    except Exception:
        pass


def _light(c):
    """conjunct without regex memberships / string operations other than length and concatenation (cheap for z3)"""
    stack = [c]
    seen = set()
    while stack:
        x = stack.pop()
        if x.get_id() in seen:
            continue
        seen.add(x.get_id())
        if z3.is_quantifier(x):
            return False
        if z3.is_app(x):
            k = x.decl().kind()
            if k in (z3.Z3_OP_SEQ_IN_RE, z3.Z3_OP_SEQ_INDEX, z3.Z3_OP_SEQ_EXTRACT, z3.Z3_OP_SEQ_CONTAINS, z3.Z3_OP_SEQ_PREFIX,
                     z3.Z3_OP_SEQ_SUFFIX, z3.Z3_OP_SEQ_REPLACE, z3.Z3_OP_SEQ_AT, z3.Z3_OP_SEQ_LAST_INDEX):
                return False
            stack.extend(x.children())
    return True


def _entails(p, cond):
    """pc |= cond, decided on the LIGHT conjuncts of pc only (dropping assumptions is sound for validity): a quick,
    deterministic arithmetic query; anything but `unsat` of the negation counts as no"""
    key = ("entails", cond.sexpr(), len(p.pc))     # not get_id(): ids of freed terms are reused
    memo = p.ghost.setdefault("shape_entails", {})
    if key not in memo:
        s = z3.Solver()
        s.set("timeout", 3000)
        for c in p.pc:
            if _light(c):
                s.add(c)
        s.add(z3.Not(cond))
        r = s.check()
        if core.TRACE:
            print("[pyvc] entails?", " ".join(str(cond).split())[:200], "->", r, "light", len(s.assertions()) - 1, "of", len(p.pc), flush=True)
        memo[key] = r == z3.unsat
    return memo[key]


def _derived_class(p, x):
    """class of a piece that is an application of a library function: '%d' % n for n >= 0 is a non-empty digit string"""
    from . import sym
    if z3.is_app(x) and x.decl().eq(sym.F_int2str):
        n = x.arg(0)
        if _entails(p, n >= 0):
            return z3.Plus(z3.Range(strval("0"), strval("9")))
    return None


def pieces_of(t):
    """flatten a string term into pieces (constants, plain variables, applications of '%d'); None for anything else"""
    p = core.cur()
    classes = p.ghost.get("classes", {})
    t = z3.simplify(t)
    out = []

    def visit(x):
        if z3.is_string_value(x):
            s = unesc(x.as_string())
            if s:
                out.append(Piece(const=s))
            return True
        if z3.is_app(x) and x.decl().kind() == z3.Z3_OP_SEQ_CONCAT:
            return all(visit(c) for c in x.children())
        if z3.is_const(x) and x.decl().kind() == z3.Z3_OP_UNINTERPRETED:
            out.append(Piece(term=x, regex=classes.get(x.get_id())))
            return True
        if z3.is_app(x) and x.decl().kind() == z3.Z3_OP_UNINTERPRETED and x.num_args() > 0:
            R = _derived_class(p, x)
            if R is not None:
                out.append(Piece(term=x, regex=R))
                return True
        return False

    if not visit(t):
        return None
    merged = []
    for pc in out:
        if pc.const is not None and merged and merged[-1].const is not None:
            merged[-1] = Piece(const=merged[-1].const + pc.const)
        else:
            merged.append(pc)
    return merged


def merged(pieces):
    """adjacent constant pieces joined (every structural operation works on this normal form)"""
    out = []
    for pc in pieces:
        if pc.const is not None and out and out[-1].const is not None:
            out[-1] = Piece(const=out[-1].const + pc.const)
        elif pc.const is not None and pc.const == "":
            continue
        else:
            out.append(pc)
    return out


def concat(pieces):
    ts = [pc.z3() for pc in pieces]
    if not ts:
        return strval("")
    return ts[0] if len(ts) == 1 else z3.Concat(*ts)


# ----------------------------------------------------------------------------- cached regex-language queries

_CACHE = {}


def _valid(key, build):
    r = _CACHE.get(key)
    if r is None:
        s = z3.Solver()
        s.set("timeout", 5000)
        for c in build():
            s.add(c)
        res = s.check()
        r = _CACHE[key] = (True if res == z3.unsat else (False if res == z3.sat else UNKNOWN))
    return r


def _x():
    return z3.String("shape!x")


def within_star(R, C):
    """every string of R consists of characters of class C only"""
    if R is None:
        return UNKNOWN
    return _valid(("within", R.sexpr(), C.sexpr()), lambda: [z3.InRe(_x(), R), z3.Not(z3.InRe(_x(), z3.Star(C)))])


def never_empty(R):
    if R is None:
        return UNKNOWN
    return _valid(("nonempty", R.sexpr()), lambda: [z3.InRe(_x(), R), _x() == strval("")])


def avoids_chars(R, chars):
    """no string of R contains any of the characters `chars`"""
    if R is None:
        return UNKNOWN
    from . import sym
    return within_star(R, sym.re_char_not(chars))


def never_starts_in(R, C):
    """no string of R starts with a character of class C"""
    if R is None:
        return UNKNOWN
    anyc = z3.Star(z3.Range(strval("\x00"), strval(chr(0x2FFFF))))
    return _valid(("nostart", R.sexpr(), C.sexpr()), lambda: [z3.InRe(_x(), R), z3.InRe(_x(), z3.Concat(C, anyc))])


# ----------------------------------------------------------------------------- lines

def split_first(pieces, sep):
    """(before, after) around the FIRST occurrence of the constant `sep`, structurally; None if there is none for sure;
    UNKNOWN if a symbolic piece in front of the first constant occurrence might contain characters of sep"""
    pieces = merged(pieces)
    for i, pc in enumerate(pieces):
        if pc.const is None:
            # up to here no occurrence: this piece must not contain (or complete) one
            if avoids_chars(pc.regex, sep) is not True:
                return UNKNOWN
            if len(sep) > 1 and never_empty(pc.regex) is not True and _straddles(pieces, i, sep):
                return UNKNOWN
            continue
        # occurrences can only lie inside constant pieces (the symbolic pieces passed so far contain none of sep's
        # characters, so an occurrence cannot overlap one)
        k = pc.const.find(sep)
        if k >= 0:
            before = pieces[:i] + ([Piece(const=pc.const[:k])] if k else [])
            rest = pc.const[k + len(sep):]
            after = ([Piece(const=rest)] if rest else []) + pieces[i + 1:]
            return (before, after)
    return None


def _straddles(pieces, i, sep):
    """could an occurrence of sep be formed across the (possibly empty) symbolic piece i by its constant neighbours?"""
    left = pieces[i - 1].const if i > 0 and pieces[i - 1].const is not None else None
    right = pieces[i + 1].const if i + 1 < len(pieces) and pieces[i + 1].const is not None else None
    if i > 0 and left is None or i + 1 < len(pieces) and right is None:
        # a symbolic neighbour: it avoids sep's characters (checked by the caller) so nothing can straddle unless it is
        # empty too; be conservative when the neighbour may be empty
        nb = [pieces[j] for j in (i - 1, i + 1) if 0 <= j < len(pieces) and pieces[j].const is None]
        if any(never_empty(x.regex) is not True for x in nb):
            return True
    if left is None or right is None:
        return False
    for j in range(1, len(sep)):
        if left.endswith(sep[:j]) and right.startswith(sep[j:]):
            return True
    return False


def splitlines_bytes(pieces):
    """bytes.splitlines() structurally (line breaks: CRLF, CR, LF); UNKNOWN unless every symbolic piece is free of CR/LF"""
    pieces = merged(pieces)
    for i, pc in enumerate(pieces):
        if pc.const is None and avoids_chars(pc.regex, "\r\n") is not True:
            return UNKNOWN
        if pc.const is None and never_empty(pc.regex) is not True and _straddles(pieces, i, "\r\n"):
            return UNKNOWN
    lines = []
    cur = []
    for pc in pieces:
        if pc.const is None:
            cur.append(pc)
            continue
        s = pc.const
        start = 0
        i = 0
        while i < len(s):
            if s[i] in "\r\n":
                if i > start:
                    cur.append(Piece(const=s[start:i]))
                lines.append(cur)
                cur = []
                if s[i] == "\r" and i + 1 < len(s) and s[i + 1] == "\n":
                    i += 1
                # a CR at the very end of a constant piece followed by a symbolic piece: that piece cannot start with LF
                start = i + 1
            i += 1
        if start < len(s):
            cur.append(Piece(const=s[start:]))
    if cur:
        # the text after the last line break is a line only if it is not empty
        if any(pc.const is not None or never_empty(pc.regex) is True for pc in cur):
            lines.append(cur)
        else:
            return UNKNOWN
    return lines


def never_ends_in(R, C):
    """no string of R ends with a character of class C"""
    if R is None:
        return UNKNOWN
    anyc = z3.Star(z3.Range(strval("\x00"), strval(chr(0x2FFFF))))
    return _valid(("noend", R.sexpr(), C.sexpr()), lambda: [z3.InRe(_x(), R), z3.InRe(_x(), z3.Concat(anyc, C))])


def strip_chars(pieces, chars):
    """s.strip(chars) on the structure: the list of pieces that remain; UNKNOWN when a boundary is not decided"""
    pieces = merged(pieces)
    from . import sym
    ps = list(pieces)
    # leading constants made of strip characters only
    while ps and ps[0].const is not None:
        k = 0
        while k < len(ps[0].const) and ps[0].const[k] in chars:
            k += 1
        if k == len(ps[0].const):
            ps.pop(0)
            continue
        ps[0] = Piece(const=ps[0].const[k:])
        break
    if not ps:
        return []
    if ps[0].const is None:
        # x ++ (constants over the strip characters)*  with x free of strip characters: the result is x, empty or not
        if avoids_chars(ps[0].regex, chars) is True and all(q.const is not None and all(ch in chars for ch in q.const) for q in ps[1:]):
            return [ps[0]]
        if not (never_empty(ps[0].regex) is True and never_starts_in(ps[0].regex, sym.re_chars(chars)) is True):
            return UNKNOWN
    # the left boundary is fixed (the first remaining character is not a strip character): now the right end
    while ps and ps[-1].const is not None:
        c = ps[-1].const
        k = len(c)
        while k > 0 and c[k - 1] in chars:
            k -= 1
        if k == 0:
            ps.pop()
            continue
        ps[-1] = Piece(const=c[:k])
        return ps
    if not ps:
        return []
    if never_empty(ps[-1].regex) is True and never_ends_in(ps[-1].regex, sym.re_chars(chars)) is True:
        return ps
    return UNKNOWN


def replace_all_char(pieces, old, new):
    """s.replace(old, new) on the structure, for a constant `old` of one or more characters: exact when no symbolic piece can
    contain a character of `old` and no occurrence can be formed across a possibly empty symbolic piece by its constant
    neighbours (then every occurrence lies inside one constant piece); UNKNOWN otherwise"""
    pieces = merged(pieces)
    if len(old) < 1:
        return UNKNOWN
    out = []
    for i, pc in enumerate(pieces):
        if pc.const is None:
            if avoids_chars(pc.regex, old) is not True:
                return UNKNOWN
            if len(old) > 1 and never_empty(pc.regex) is not True and _straddles(pieces, i, old):
                return UNKNOWN
            out.append(pc)
        else:
            out.append(Piece(const=pc.const.replace(old, new)))
    return out


def slice_const_edges(pieces, start, stop):
    """s[start:stop] with constant bounds (start >= 0 counted from the left, stop <= 0 counted from the right, None = open)
    when the characters cut off lie in constant pieces at the two ends: the remaining pieces; UNKNOWN otherwise"""
    pieces = merged(pieces)
    ps = list(pieces)
    a = start or 0
    b = -(stop or 0)
    if a < 0 or b < 0:
        return UNKNOWN
    while a > 0:
        if not ps or ps[0].const is None:
            return UNKNOWN
        c = ps[0].const
        if len(c) <= a:
            a -= len(c)
            ps.pop(0)
        else:
            ps[0] = Piece(const=c[a:])
            a = 0
    while b > 0:
        if not ps or ps[-1].const is None:
            return UNKNOWN
        c = ps[-1].const
        if len(c) <= b:
            b -= len(c)
            ps.pop()
        else:
            ps[-1] = Piece(const=c[:len(c) - b])
            b = 0
    return ps


def split_char(pieces, sep):
    """s.split(sep) for a single character: exact when no symbolic piece can contain sep; UNKNOWN otherwise"""
    pieces = merged(pieces)
    if len(sep) != 1:
        return UNKNOWN
    fields = [[]]
    for pc in pieces:
        if pc.const is None:
            if avoids_chars(pc.regex, sep) is not True:
                return UNKNOWN
            fields[-1].append(pc)
            continue
        parts = pc.const.split(sep)
        for j, part in enumerate(parts):
            if j > 0:
                fields.append([])
            if part:
                fields[-1].append(Piece(const=part))
    return fields


def contains_char(pieces, ch):
    """`ch in s` for a single character: True / False / UNKNOWN"""
    pieces = merged(pieces)
    if len(ch) != 1:
        return UNKNOWN
    maybe = False
    for pc in pieces:
        if pc.const is None:
            if avoids_chars(pc.regex, ch) is not True:
                maybe = True
        elif ch in pc.const:
            return True
    return UNKNOWN if maybe else False


def split_ws_once(pieces, ws):
    """s.split(None, 1) on the structure: [] | [field] | [field, rest]; UNKNOWN when a symbolic piece might contain
    white space where it matters (the rest after the first white-space run is taken as it is, whatever it contains)"""
    pieces = merged(pieces)
    state = 0          # 0: leading white space, 1: inside the first field, 2: white space after the field
    field = []
    for i, pc in enumerate(pieces):
        if pc.const is None:
            if state == 0:
                if never_empty(pc.regex) is True and avoids_chars(pc.regex, ws) is True:
                    field.append(pc)
                    state = 1
                    continue
                return UNKNOWN
            if state == 1:
                if avoids_chars(pc.regex, ws) is True:
                    field.append(pc)
                    continue
                return UNKNOWN
            from . import sym
            if never_empty(pc.regex) is True and never_starts_in(pc.regex, sym.re_chars(ws)) is True:
                return [field, pieces[i:]]
            return UNKNOWN
        start = 0
        for j, ch in enumerate(pc.const):
            if state == 0:
                if ch not in ws:
                    state = 1
                    start = j
            elif state == 1:
                if ch in ws:
                    if j > start:
                        field.append(Piece(const=pc.const[start:j]))
                    state = 2
            else:
                if ch not in ws:
                    return [field, [Piece(const=pc.const[j:])] + pieces[i + 1:]]
        if state == 1 and len(pc.const) > start:
            field.append(Piece(const=pc.const[start:]))
    if state == 0:
        return []
    return [field]


# ----------------------------------------------------------------------------- regex matching on the structure

class Cursor:
    """position in a piece list: piece index k and offset o inside a constant piece (o == 0 for symbolic pieces)"""
    __slots__ = ("k", "o")

    def __init__(self, k, o):
        self.k = k
        self.o = o

    def copy(self):
        return Cursor(self.k, self.o)


class Matcher:
    def __init__(self, pieces, info):
        self.ps = pieces
        self.info = info
        self.groups = {}

    def at_end(self, c):
        return c.k >= len(self.ps)

    def norm(self, c):
        while c.k < len(self.ps) and self.ps[c.k].const is not None and c.o >= len(self.ps[c.k].const):
            c.k += 1
            c.o = 0
        return c

    def slice(self, a, b):
        """pieces between cursors a (inclusive) and b (exclusive)"""
        out = []
        k, o = a.k, a.o
        while k < b.k or (k == b.k and o < b.o):
            pc = self.ps[k]
            if pc.const is None:
                out.append(pc)
                k, o = k + 1, 0
            else:
                end = b.o if k == b.k else len(pc.const)
                if end > o:
                    out.append(Piece(const=pc.const[o:end]))
                if k == b.k:
                    break
                k, o = k + 1, 0
        return out

    def lit(self, s, c):
        """match literal s at c: new cursor | None (definite mismatch) | UNKNOWN"""
        c = self.norm(c.copy())
        i = 0
        while i < len(s):
            if self.at_end(c):
                return None
            pc = self.ps[c.k]
            if pc.const is None:
                # the symbolic piece would have to start with s[i:]...: decide only when it cannot contain s[i]
                from . import sym
                if never_starts_in(pc.regex, sym.re_chars(s[i])) is True and never_empty(pc.regex) is True:
                    return None
                return UNKNOWN
            take = min(len(s) - i, len(pc.const) - c.o)
            if pc.const[c.o:c.o + take] != s[i:i + take]:
                return None
            i += take
            c.o += take
            self.norm(c)
        return c

    def run(self, C, c, lo):
        """greedy maximal run of class C from c: (cursor after, definitely_nonempty) | UNKNOWN"""
        c = self.norm(c.copy())
        nonempty = False
        while not self.at_end(c):
            pc = self.ps[c.k]
            if pc.const is None:
                w = within_star(pc.regex, C.z3())
                if w is True:
                    if never_empty(pc.regex) is True:
                        nonempty = True
                    elif not nonempty and lo > 0:
                        # may be empty: cannot tell whether the run has lo characters -> undecided unless more follows
                        pass
                    c.k += 1
                    c.o = 0
                    continue
                if never_starts_in(pc.regex, C.z3()) is True and never_empty(pc.regex) is True:
                    break
                return UNKNOWN
            ch = pc.const[c.o]
            if C.contains(ord(ch)):
                nonempty = True
                c.o += 1
                self.norm(c)
            else:
                break
        return (c, nonempty)


def match_items(m, items, c, bm):
    """match the flattened item list at cursor c: cursor | None | UNKNOWN; fills m.groups"""
    from . import rx
    i = 0
    while i < len(items):
        it = items[i]
        rest = [x for x in items[i + 1:] if x.kind != "at"]
        if it.kind == "at":
            i += 1
            continue
        if it.kind == "lit":
            r = m.lit(it.s, c)
            if r is None or r is UNKNOWN:
                return r
            c = r
        elif it.kind == "cls":
            if it.cs is None:
                r = m.lit(chr(it.lit), c)
                if r is None or r is UNKNOWN:
                    return r
                c = r
            else:
                c = m.norm(c.copy())
                if m.at_end(c):
                    return None
                pc = m.ps[c.k]
                if pc.const is None:
                    return UNKNOWN
                if not it.cs.contains(ord(pc.const[c.o])):
                    return None
                c.o += 1
                m.norm(c)
        elif it.kind == "grp":
            start = m.norm(c.copy())
            inner = rx.flatten(it.node)
            r = match_items_with_rest(m, inner, rest, c, bm)
            if r is None or r is UNKNOWN:
                return r
            c = r
            m.groups[it.idx] = m.slice(start, m.norm(c.copy()))
        elif it.kind == "alt":
            lits = []
            for a in it.alts:
                f = rx.flatten(a)
                if len(f) != 1 or f[0].kind != "lit":
                    return UNKNOWN
                lits.append(f[0].s)
            got = None
            for s_ in lits:
                r = m.lit(s_, c)
                if r is UNKNOWN:
                    return UNKNOWN
                if r is not None:
                    got = r
                    break
            if got is None:
                return None
            c = got
        elif it.kind == "rep":
            r = match_rep(m, it, rest, c, bm)
            if r is None or r is UNKNOWN:
                return r
            c = r
        else:
            return UNKNOWN
        i += 1
    return c


def match_items_with_rest(m, inner, rest, c, bm):
    """items of a group followed by `rest` (needed to decide greedy repeats at the end of the group)"""
    from . import rx
    for j, it in enumerate(inner):
        follow = [x for x in inner[j + 1:] + rest if x.kind != "at"]
        if it.kind == "rep":
            r = match_rep(m, it, follow, c, bm)
        else:
            r = match_items(m, [it], c, bm)
        if r is None or r is UNKNOWN:
            return r
        c = r
    return c


def match_rep(m, r, rest, c, bm):
    from . import rx
    inner = rx.flatten(r.node)
    rest_nullable = all(rx.nullable(x) for x in rest)
    if r.lo == 0 and r.hi == 1:
        if not r.greedy:
            return UNKNOWN
        # Python takes X whenever X matches here AND the rest then matches; that is decided by "X matches here" alone when
        # nothing (or only nullable items) follows, or when X and the rest cannot start with the same character
        decidable = (not rest) or rest_nullable or rx.first(r.node, bm).disjoint(rx.first(rx.N("seq", items=list(rest)), bm))
        if not decidable:
            return UNKNOWN
        saved = dict(m.groups)
        t = match_items_with_rest(m, inner, rest, c, bm)
        if t is UNKNOWN:
            return UNKNOWN
        if t is not None:
            return t
        m.groups = saved
        for g in _groups_in(r.node):
            m.groups[g] = None
        return c
    if len(inner) != 1 or inner[0].kind != "cls" or inner[0].cs is None or not r.greedy or r.hi is not None:
        return UNKNOWN
    C = inner[0].cs
    rr = m.run(C, c, r.lo)
    if rr is UNKNOWN:
        return UNKNOWN
    end, nonempty = rr
    start = m.norm(c.copy())
    if r.lo > 0 and not nonempty:
        # could be empty: definite failure only if nothing was consumed at all
        if end.k == start.k and end.o == start.o:
            return None
        return UNKNOWN
    if r.lo > 1:
        return UNKNOWN
    if rest_nullable or C.disjoint(rx.first(rx.N("seq", items=list(rest)), bm)):
        return end
    # C* D+ (end of pattern, D overlapping C):  the C run is maximal unless D+ would then find nothing; in that case
    # Python gives characters of the run back, one at a time, until the character given back belongs to D
    tail = None if getattr(m, "has_at", False) else _final_class_plus(rest)
    if tail is not None:
        D, dlo = tail
        r2 = m.run(D, end, dlo)
        if r2 is UNKNOWN:
            return UNKNOWN
        end2, nonempty2 = r2
        if dlo == 0 or nonempty2:
            return end
        if not (end2.k == end.k and end2.o == end.o):
            return UNKNOWN      # only possibly-empty pieces were taken: undecided
        # D+ finds nothing at the end of the maximal run: walk the run backwards over CONCRETE characters
        pieces = m.slice(start, end)
        nback = 0
        for idx in range(len(pieces) - 1, -1, -1):
            pc = pieces[idx]
            if pc.const is None:
                return UNKNOWN
            for ch in reversed(pc.const):
                nback += 1
                if D.contains(ord(ch)):
                    total = sum(len(x.const) for x in pieces)
                    if total - nback < r.lo:
                        return None
                    return _advance_chars(m, start, total - nback)
        return None
    # C* q (end): the run is cut at the LAST q inside it
    nxt = rest[0]
    if nxt.kind == "lit" and len(nxt.s) == 1 and C.contains(ord(nxt.s)) and len(rest) == 1:
        q = nxt.s
        # scan the consumed run backwards for q
        pieces = m.slice(start, end)
        for idx in range(len(pieces) - 1, -1, -1):
            pc = pieces[idx]
            if pc.const is None:
                if avoids_chars(pc.regex, q) is not True:
                    return UNKNOWN
                continue
            k = pc.const.rfind(q)
            if k >= 0:
                # cursor at that q: rebuild by walking from start
                cur = start.copy()
                for j in range(idx):
                    cur = _advance(m, cur, pieces[j])
                cur = _advance_chars(m, cur, k)
                if r.lo > 0 and cur.k == start.k and cur.o == start.o:
                    return None
                return cur
        return None
    return UNKNOWN


def _final_class_plus(rest):
    """rest == [ (D{lo,}) ] or [ D{lo,} ], greedy, nothing after it (an `at end` would change the backtracking): (D, lo)"""
    from . import rx
    if len(rest) != 1:
        return None
    it = rest[0]
    if it.kind == "grp":
        inner = rx.flatten(it.node)
        if len(inner) != 1:
            return None
        it = inner[0]
    if it.kind != "rep" or not it.greedy or it.hi is not None or it.lo > 1:
        return None
    inner = rx.flatten(it.node)
    if len(inner) != 1 or inner[0].kind != "cls" or inner[0].cs is None:
        return None
    return (inner[0].cs, it.lo)


def _advance(m, cur, piece):
    cur = m.norm(cur.copy())
    if piece.const is None:
        return Cursor(cur.k + 1, 0)
    return _advance_chars(m, cur, len(piece.const))


def _advance_chars(m, cur, n):
    cur = m.norm(cur.copy())
    while n > 0:
        pc = m.ps[cur.k]
        room = len(pc.const) - cur.o
        take = min(room, n)
        cur.o += take
        n -= take
        m.norm(cur)
    return cur


def _groups_in(n):
    out = []
    if n.kind == "grp":
        out.append(n.idx)
    for ch in (getattr(n, "items", None) or []) + (getattr(n, "alts", None) or []) + ([n.node] if hasattr(n, "node") else []):
        out.extend(_groups_in(ch))
    return out


def structural_match(root, info, subject_term):
    """-> ('match', groups {idx: z3 term | None}, whole term) | ('nomatch',) | None (structure does not decide)"""
    from . import rx
    pieces = pieces_of(subject_term)
    if pieces is None:
        return None
    items = rx.flatten(root)
    if any(x.kind == "at" for x in items[:-1]) or (items and items[-1].kind == "at" and items[-1].where != "end"):
        return None
    m = Matcher(pieces, info)
    m.has_at = any(x.kind == "at" for x in items)
    for gi in range(1, info["groups"] + 1):
        m.groups[gi] = None
    start = Cursor(0, 0)
    end = match_items(m, items, start, info["bytes"])
    if end is UNKNOWN:
        return None
    if end is None:
        return ("nomatch",)
    if items and items[-1].kind == "at":
        e = m.norm(end.copy())
        if not m.at_end(e):
            pc = m.ps[e.k]
            if pc.const is None or pc.const[e.o] != "\n":
                return None
            e.o += 1
            if not m.at_end(m.norm(e)):
                return None     # `$` matches before a newline only when that newline is the last character
    groups = {gi: (None if v is None else concat(v)) for gi, v in m.groups.items()}
    return ("match", groups, concat(m.slice(start, m.norm(end.copy()))))
