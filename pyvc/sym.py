"""Symbolic values for the pyvc interpreter.

Every symbolic value has a concrete Python *type* (str, bytes, int, bool); only
its content is an SMT term.  Containers with concrete shape are ordinary Python
lists/tuples/dicts that may hold symbolic values.  SDict / SSet / SList model
containers whose shape itself is symbolic.
"""
import z3

from . import core
from .core import Unsupported, strval


class Sym:
    pass


class SBool(Sym):
    __slots__ = ("t",)
    pytype = bool

    def __init__(self, t):
        self.t = t

    def __repr__(self):
        return "SBool(%s)" % self.t


class SInt(Sym):
    __slots__ = ("t",)
    pytype = int

    def __init__(self, t):
        self.t = t

    def __repr__(self):
        return "SInt(%s)" % self.t


class SStr(Sym):
    __slots__ = ("t", "isbytes")

    def __init__(self, t, isbytes=False):
        self.t = t
        self.isbytes = isbytes

    @property
    def pytype(self):
        return bytes if self.isbytes else str

    def __repr__(self):
        return "S%s(%s)" % ("Bytes" if self.isbytes else "Str", self.t)


class Opaque:
    """A value whose content is never inspected; only identity and Python type are known."""

    def __init__(self, name, pytype=object):
        self.name = name
        self.pytype = pytype

    def __repr__(self):
        return "<opaque %s:%s>" % (self.name, self.pytype.__name__)


class SSet(Sym):
    """Symbolic set/list of strings, used only through membership and `+= [x]`."""
    pytype = list

    def __init__(self, arr, base=None, name=None):
        self.arr = arr  # Array String -> Bool
        self.base = base if base is not None else arr
        self.name = name

    def contains(self, x):
        t = to_z3str(x)
        if self.name is not None:
            core.cur().ghost.setdefault("set_queries", {}).setdefault(self.name, []).append(t)
        else:
            core.cur().ghost.setdefault("set_queries_by_id", {}).setdefault(self.base.get_id(), []).append(t)
        return mkbool(z3.Select(self.arr, t))

    def added(self, items):
        arr = self.arr
        for x in items:
            arr = z3.Store(arr, to_z3str(x), z3.BoolVal(True))
        return SSet(arr, self.base, self.name)


class SDict(Sym):
    """dict over a finite, concrete key universe; presence of each key may be symbolic."""
    pytype = dict

    def __init__(self, entries=None):
        # key -> [present (bool | z3 Bool), value]
        self.entries = entries or {}
        self.order_known = False

    def copy(self):
        d = SDict({k: list(v) for k, v in self.entries.items()})
        return d

    def present(self, key):
        if isinstance(key, Sym):
            raise Unsupported("symbolic key on SDict")
        e = self.entries.get(key)
        if e is None:
            return False
        return e[0]

    def get_entry(self, key):
        return self.entries.get(key)

    def set(self, key, value):
        if isinstance(key, Sym):
            raise Unsupported("symbolic key store on SDict")
        self.entries[key] = [True, value]

    def delete(self, key):
        self.entries[key] = [False, None]


# ----------------------------------------------------------------------------- construction helpers

def mkbool(t):
    if isinstance(t, bool):
        return t
    t = z3.simplify(t)
    if z3.is_true(t):
        return True
    if z3.is_false(t):
        return False
    return SBool(t)


def mkint(t):
    if isinstance(t, int):
        return t
    t = z3.simplify(t)
    if z3.is_int_value(t):
        return t.as_long()
    return SInt(t)


def mkstr(t, isbytes):
    t = z3.simplify(t)
    if z3.is_string_value(t):
        s = core.unesc(t.as_string())
        return s.encode("latin-1") if isbytes else s
    return SStr(t, isbytes)


def to_z3str(x):
    if isinstance(x, SStr):
        return x.t
    if isinstance(x, (str, bytes)):
        return strval(x)
    raise Unsupported("not a string: %r" % (x,))


def to_z3int(x):
    if isinstance(x, SInt):
        return x.t
    if isinstance(x, bool):
        return z3.IntVal(int(x))
    if isinstance(x, int):
        return z3.IntVal(x)
    if isinstance(x, SBool):
        return z3.If(x.t, z3.IntVal(1), z3.IntVal(0))
    raise Unsupported("not an int: %r" % (x,))


def to_z3bool(x):
    if isinstance(x, SBool):
        return x.t
    if isinstance(x, bool):
        return z3.BoolVal(x)
    raise Unsupported("not a bool: %r" % (x,))


def is_strlike(x):
    return isinstance(x, (str, bytes, SStr))


def is_bytes(x):
    return isinstance(x, bytes) or (isinstance(x, SStr) and x.isbytes)


def is_str(x):
    return isinstance(x, str) or (isinstance(x, SStr) and not x.isbytes)


def pytype_of(x):
    if isinstance(x, Sym) or isinstance(x, Opaque):
        return x.pytype
    return type(x)


# ----------------------------------------------------------------------------- fresh inputs

def fresh_str(name, isbytes=False, register=True):
    p = core.cur()
    n = p.fresh_name(name)
    c = z3.String(n)
    if isbytes:
        core.assume(z3.InRe(c, z3.Star(z3.Range(strval("\x00"), strval("\xff")))))
    if register:
        p.inputs[n] = (c, "bytes" if isbytes else "str")
    return SStr(c, isbytes)


def fresh_int(name, register=True):
    p = core.cur()
    n = p.fresh_name(name)
    c = z3.Int(n)
    if register:
        p.inputs[n] = (c, "int")
    return SInt(c)


def fresh_bool(name, register=True):
    p = core.cur()
    n = p.fresh_name(name)
    c = z3.Bool(n)
    if register:
        p.inputs[n] = (c, "bool")
    return SBool(c)


def fresh_set(name):
    p = core.cur()
    n = p.fresh_name(name)
    arr = z3.Array(n, z3.StringSort(), z3.BoolSort())
    p.inputs[n] = (arr, "set")
    return SSet(arr, arr, n)


# ----------------------------------------------------------------------------- uninterpreted library functions

_S = z3.StringSort()
_I = z3.IntSort()
F_lower = z3.Function("py_lower", _S, _S)
F_upper = z3.Function("py_upper", _S, _S)
F_utf8enc = z3.Function("utf8_encode", _S, _S)
F_utf8dec = z3.Function("utf8_decode", _S, _S)
F_utf8ok = z3.Function("utf8_valid", _S, z3.BoolSort())
F_b64enc = z3.Function("b64_encode", _S, _S)
F_int2str = z3.Function("py_int_to_str", _I, _S)
F_str2int = z3.Function("py_str_to_int", _S, _I)
F_repr_bytes = z3.Function("py_repr_bytes", _S, _S)

ASCII_RE = None
NOUPPER_ASCII_RE = None


def _ascii_re():
    global ASCII_RE, NOUPPER_ASCII_RE
    if ASCII_RE is None:
        ASCII_RE = z3.Star(z3.Range(strval("\x00"), strval("\x7f")))
        NOUPPER_ASCII_RE = z3.Star(z3.Union(z3.Range(strval("\x00"), strval("@")), z3.Range(strval("["), strval("\x7f"))))
    return ASCII_RE, NOUPPER_ASCII_RE


def s_lower(x):
    if isinstance(x, (str, bytes)):
        return x.lower()
    _, noup = _ascii_re()
    r = F_lower(x.t)
    p = core.cur()
    # instances of the defining lemmas (sound for str and bytes):
    p.add(F_lower(r) == r)  # idempotent
    p.add(z3.Implies(z3.InRe(x.t, noup), r == x.t))  # identity on ASCII text without upper-case letters
    p.ghost.setdefault("uf_apps", []).append(("lower", x.t, r))
    return SStr(r, x.isbytes)


F_capitalize = z3.Function("py_capitalize", _S, _S)


def s_capitalize(x):
    if isinstance(x, (str, bytes)):
        return x.capitalize()
    r = F_capitalize(x.t)
    p = core.cur()
    p.add((z3.Length(r) == 0) == (z3.Length(x.t) == 0))
    p.ghost.setdefault("uf_apps", []).append(("capitalize", x.t, r))
    return SStr(r, x.isbytes)


def s_encode_utf8(x):
    if isinstance(x, str):
        return x.encode("utf-8")
    asc, _ = _ascii_re()
    r = F_utf8enc(x.t)
    p = core.cur()
    p.add(F_utf8dec(r) == x.t)
    p.add(F_utf8ok(r))
    p.add(z3.Implies(z3.InRe(x.t, asc), r == x.t))
    p.add(z3.Length(r) >= z3.Length(x.t))
    p.add(z3.InRe(r, z3.Star(z3.Range(strval("\x00"), strval("\xff")))))
    p.add((z3.Length(r) == 0) == (z3.Length(x.t) == 0))
    return SStr(r, True)


def s_decode_utf8(x, fork_error=True):
    """bytes.decode('utf-8'): forks on validity; the invalid side raises UnicodeDecodeError."""
    if isinstance(x, bytes):
        return x.decode("utf-8")
    asc, _ = _ascii_re()
    p = core.cur()
    p.add(z3.Implies(z3.InRe(x.t, asc), z3.And(F_utf8ok(x.t), F_utf8dec(x.t) == x.t)))
    if fork_error:
        if not core.branch(F_utf8ok(x.t)):
            raise UnicodeDecodeError("utf-8", b"", 0, 1, "symbolic invalid utf-8")
    r = F_utf8dec(x.t)
    p.add(F_utf8enc(r) == x.t)
    p.add(z3.Length(r) <= z3.Length(x.t))
    p.add((z3.Length(r) == 0) == (z3.Length(x.t) == 0))
    return SStr(r, False)


def s_int2str(n, isbytes=False):
    if isinstance(n, int) and not isinstance(n, bool):
        s = "%d" % n
        return s.encode() if isbytes else s
    t = to_z3int(n)
    r = F_int2str(t)
    p = core.cur()
    p.add(F_str2int(r) == t)
    p.add(z3.Implies(t >= 0, z3.InRe(r, z3.Plus(z3.Range(strval("0"), strval("9"))))))
    p.add(z3.Length(r) >= 1)
    return SStr(r, isbytes)


def s_str2int(x):
    """int(s) for s known (by the caller) to be a decimal literal; abstract inverse of '%d'."""
    if isinstance(x, (str, bytes)):
        return int(x)
    r = F_str2int(x.t)
    core.cur().add(r >= 0)
    return SInt(r)


# ----------------------------------------------------------------------------- regexes used by the models

def re_char_not(chars):
    """regex for one code point (0..0x2ffff) not in `chars` (a string of single characters)."""
    pts = sorted(set(ord(c) for c in chars))
    parts = []
    lo = 0
    for c in pts:
        if c - 1 >= lo:
            parts.append(z3.Range(strval(chr(lo)), strval(chr(c - 1))))
        lo = c + 1
    if lo <= 0x2FFFF:
        parts.append(z3.Range(strval(chr(lo)), strval(chr(0x2FFFF))))
    return parts[0] if len(parts) == 1 else z3.Union(*parts)


def re_chars(chars):
    parts = [z3.Re(strval(c)) for c in chars]
    return parts[0] if len(parts) == 1 else z3.Union(*parts)


# ----------------------------------------------------------------------------- abstract lists of strings

SEQ_STR = z3.SeqSort(z3.StringSort())
F_splitlines = z3.Function("py_splitlines", _S, SEQ_STR)
F_map_utf8dec = z3.Function("map_utf8_decode", SEQ_STR, SEQ_STR)
F_all_utf8ok = z3.Function("all_utf8_valid", SEQ_STR, z3.BoolSort())
_JOIN_FUNCS = {}
F_seq_elem = z3.Function("list_elem", SEQ_STR, _I, _S)


class SSeq(Sym):
    """list of str/bytes of symbolic length (z3 Seq(String)); elements all str or all bytes"""
    pytype = list

    def __init__(self, t, elem_bytes):
        self.t = t
        self.elem_bytes = elem_bytes

    def __repr__(self):
        return "SSeq(%s)" % self.t

    def __pyvc_len__(self, ip):
        return mkint(z3.Length(self.t))

    def __pyvc_truth__(self):
        return mkbool(z3.Length(self.t) > 0)

    def __pyvc_getitem__(self, ip, key):
        n = z3.Length(self.t)
        if isinstance(key, slice):
            if key.step is not None:
                raise Unsupported("slice step on abstract list")
            lo = ip._slice_bound(key.start, n, True)
            hi = ip._slice_bound(key.stop, n, False)
            ln = z3.If(hi > lo, hi - lo, z3.IntVal(0))
            return SSeq(z3.simplify(z3.SubSeq(self.t, lo, ln)), self.elem_bytes)
        i = to_z3int(key)
        if not core.branch(z3.And(i >= -n, i < n)):
            raise IndexError("list index out of range")
        i = z3.simplify(z3.If(i < 0, i + n, i))
        return self.elem(i)

    def elem(self, i):
        """i-th element as an uninterpreted function of (list, index): z3 answers `unknown` on regex goals over
        seq.nth, and no contract here needs more than congruence"""
        r = F_seq_elem(self.t, i)
        if self.elem_bytes:
            core.cur().add(z3.InRe(r, z3.Star(z3.Range(strval("\x00"), strval("\xff")))))
        return mkstr(r, self.elem_bytes)

    def __pyvc_iadd__(self, ip, val):
        return self.__pyvc_binop__(ip, None, val, False)

    def __pyvc_binop__(self, ip, op, other, reflected):
        import ast as _ast
        if op is not None and not isinstance(op, _ast.Add):
            raise Unsupported("operator on abstract list")
        if isinstance(other, SSeq):
            parts = [other.t, self.t] if reflected else [self.t, other.t]
            return SSeq(z3.Concat(*parts), self.elem_bytes)
        if not isinstance(other, list):
            raise TypeError("can only concatenate list to list")
        units = []
        for x in other:
            if not is_strlike(x) or is_bytes(x) != self.elem_bytes:
                raise Unsupported("abstract list of %s extended with %r" % ("bytes" if self.elem_bytes else "str", x))
            units.append(z3.Unit(to_z3str(x)))
        if not units:
            return self
        parts = units + [self.t] if reflected else [self.t] + units
        return SSeq(z3.Concat(*parts), self.elem_bytes)

    def __pyvc_contains__(self, ip, x):
        if not is_strlike(x) or is_bytes(x) != self.elem_bytes:
            return False
        return mkbool(z3.Contains(self.t, z3.Unit(to_z3str(x))))

    def map_decode_utf8(self):
        if not self.elem_bytes:
            raise AttributeError("'str' object has no attribute 'decode'")
        p = core.cur()
        if not core.branch(F_all_utf8ok(self.t)):
            raise UnicodeDecodeError("utf-8", b"", 0, 1, "symbolic invalid utf-8 in a list element")
        r = F_map_utf8dec(self.t)
        p.add(z3.Length(r) == z3.Length(self.t))
        return SSeq(r, False)

    def joined(self, sep):
        key = ("b:" if self.elem_bytes else "s:") + (sep.decode("latin-1") if isinstance(sep, bytes) else sep)
        F = _JOIN_FUNCS.get(key)
        if F is None:
            F = _JOIN_FUNCS[key] = z3.Function("py_join_%s" % "".join("%02x" % ord(c) for c in key), SEQ_STR, _S)
        return SStr(F(self.t), self.elem_bytes)


def s_splitlines(x):
    if isinstance(x, (str, bytes)):
        return x.splitlines()
    r = F_splitlines(x.t)
    p = core.cur()
    p.add((z3.Length(r) == 0) == (z3.Length(x.t) == 0))
    p.add(z3.Length(r) <= z3.Length(x.t))
    return SSeq(r, x.isbytes)
