"""Run units (harness + parameters) through the interpreter; collect obligations."""
import importlib
import os
import sys
import time
import traceback

from . import core, source
from .interp import Interp

VERIF = os.path.dirname(os.path.dirname(os.path.abspath(__file__)))

SIEVELIB_MODULES = ["sievelib.tools", "sievelib.commands", "sievelib.parser", "sievelib.factory",
                    "sievelib.digest_md5", "sievelib.managesieve"]


class Unit:
    """One harness invocation: module.func(*params), explored over all paths."""

    def __init__(self, uid, module, func, params=(), setup=None, max_paths=200000, meta=None):
        self.uid = uid
        self.module = module
        self.func = func
        self.params = tuple(params)
        self.setup = setup  # (module, funcname) called natively with the Interp before exploration
        self.max_paths = max_paths
        self.meta = meta or {}


_INTERP = None
_INDEX = None


def get_index():
    global _INDEX
    if _INDEX is None:
        if VERIF not in sys.path:
            sys.path.insert(0, VERIF)
        source.ensure_repo_on_path()
        idx = source.SourceIndex()
        for m in SIEVELIB_MODULES:
            idx.add_module(m)
        _INDEX = idx
    return _INDEX


def new_interp():
    idx = get_index()
    ip = Interp(idx, tracked_prefixes=("sievelib", "contracts"))
    return ip


def track_contract_module(modname):
    idx = get_index()
    if modname not in idx.files:
        idx.add_module(modname)


def run_unit(unit):
    """Returns a picklable dict."""
    t0 = time.time()
    res = {"uid": unit.uid, "obligations": {}, "paths": 0, "ended": 0, "unsupported": [], "error": None,
           "meta": unit.meta}
    try:
        mod = importlib.import_module(unit.module)
        for mname in sorted(sys.modules):
            if mname.startswith("contracts.") and sys.modules[mname] is not None:
                track_contract_module(mname)
        ip = new_interp()
        if unit.setup is not None:
            smod = importlib.import_module(unit.setup[0])
            getattr(smod, unit.setup[1])(ip, unit)
        fn = getattr(mod, unit.func)
        ex = core.Exploration(unit.uid, max_paths=unit.max_paths)
        ex.sample_models = bool(unit.meta.get("sample_models"))

        def once(p):
            ip.shared_store_log = []
            ip.depth = 0
            try:
                ip.call(fn, list(unit.params), {})
            except (core.PathEnd, core.Unsupported, core.CheckerError):
                raise
            except Exception as e:  # an exception escaping the harness is a harness bug
                raise core.Unsupported("exception escaped harness %s: %s: %s" % (unit.uid, type(e).__name__, e))

        ex.run(once)
        res["paths"] = ex.paths
        res["ended"] = ex.ended
        res["unsupported"] = sorted(set(ex.unsupported))[:20]
        res["unknown_branches"] = ex.unknown_branches
        res["inlined"] = sorted(ip.inlined)
        res["contract_uses"] = dict(ip.contract_uses)
        res["native_calls"] = sorted(x for x in ip.native_calls if x)
        for label, ob in ex.obligations.items():
            res["obligations"][label] = {
                "status": ob.status, "paths": ob.paths, "backend": sorted(ob.backend), "time": round(ob.time, 4),
                "fail": ob.fail, "note": ob.note,
            }
        if ex.sample_models:
            res["crosscheck"] = crosscheck(unit, fn, ex.path_models)
        # replay of every refuted obligation's counter-model against the real code
        if unit.meta.get("replay"):
            rmod = importlib.import_module(unit.meta["replay"][0])
            rfn = getattr(rmod, unit.meta["replay"][1])
            for label, ob in ex.obligations.items():
                if ob.status == "refuted" and ob.fail and ob.fail.get("model") is not None:
                    try:
                        res["obligations"][label]["native"] = rfn(unit, label, ob.fail["model"])
                    except Exception as e:
                        res["obligations"][label]["native"] = {"confirmed": False,
                                                               "outcome": "replay crashed: %s: %s" % (type(e).__name__, e)}
        elif unit.meta.get("native_ok"):
            for label, ob in ex.obligations.items():
                if ob.status == "refuted" and ob.fail and ob.fail.get("model") is not None:
                    log, outcome = native_run(fn, unit.params, ob.fail["model"])
                    verdicts = [e[1] for e in log if len(e) == 2 and e[0] == label]
                    res["obligations"][label]["native"] = {
                        "outcome": outcome, "clause_values": verdicts,
                        "confirmed": (False in verdicts),
                    }
    except BaseException as e:
        res["error"] = "%s: %s\n%s" % (type(e).__name__, e, traceback.format_exc())
    res["wall"] = round(time.time() - t0, 3)
    res["stats"] = dict(core.STATS)
    return res


def native_run(fn, params, inputs):
    """Run the harness under CPython itself on concrete inputs (the real code runs natively)."""
    from . import api
    from sievelib import commands
    saved = commands.RequireCommand.loaded_extensions
    api.native_begin(inputs)
    outcome = None
    try:
        fn(*params)
    except api.NativeAssumeFailed:
        outcome = "assume-failed"
    except BaseException as e:
        outcome = "exception %s: %s" % (type(e).__name__, e)
    finally:
        api.native_end()
        commands.RequireCommand.loaded_extensions = saved
    return list(api.NATIVE_LOG), outcome


def crosscheck(unit, fn, samples):
    """CPython cross-check of the encoding: every sampled path's model is run natively; the notes and the
    verdict of each clause must agree with what the executor derived for that path."""
    n = 0
    mismatches = []
    for trace, model, notes, failed in samples:
        if model is None:
            continue
        log, outcome = native_run(fn, unit.params, model)
        if outcome == "assume-failed":
            continue
        n += 1
        nnotes = [x[1:] for x in log if x and x[0] == "note"]
        if outcome is not None:
            mismatches.append({"model": model, "why": "native run ended with " + outcome})
            continue
        if [tuple(x) for x in nnotes] != [tuple(x) for x in notes]:
            mismatches.append({"model": model, "why": "notes differ", "native": nnotes, "symbolic": notes})
            continue
        for entry in log:
            if entry[0] == "note":
                continue
            label, ok = entry
            if not ok and label not in failed:
                mismatches.append({"model": model, "why": "clause %s false natively but proved on this path" % label})
                break
    return {"paths_checked": n, "mismatches": mismatches[:5]}


def run_units(units, jobs=None):
    import multiprocessing as mp
    jobs = jobs or min(16, os.cpu_count() or 1)
    if jobs <= 1 or len(units) <= 1:
        return [run_unit(u) for u in units]
    ctx = mp.get_context("fork")
    with ctx.Pool(jobs, maxtasksperchild=50) as pool:
        return pool.map(run_unit, units, chunksize=1)
