"""Syntactic frame scans over the real source (AST of /repo's files, re-read on every run)."""
import ast

from . import runner


def _enclosing_map(tree):
    """node -> qualname of the innermost enclosing def (or '<module>' / 'Class')"""
    out = {}

    def visit(n, q):
        for ch in ast.iter_child_nodes(n):
            if isinstance(ch, (ast.FunctionDef, ast.AsyncFunctionDef)):
                q2 = (q + "." if q else "") + ch.name
                out[ch] = q2
                visit(ch, q2)
            elif isinstance(ch, ast.ClassDef):
                q2 = (q + "." if q else "") + ch.name
                out[ch] = q2
                visit(ch, q2)
            else:
                out[ch] = q or "<module>"
                visit(ch, q)

    visit(tree, "")
    return out


def _mangled(attr, qual):
    return attr


def attr_accesses(modname, attr):
    """All uses of `.attr` in the module: [(enclosing, lineno, 'store'|'load'|'augstore'|'del', src of the target object)]"""
    tree = runner.get_index().trees[modname]
    enc = _enclosing_map(tree)
    aug_targets = set()
    for n in ast.walk(tree):
        if isinstance(n, ast.AugAssign):
            aug_targets.add(n.target)
    out = []
    for n in ast.walk(tree):
        if isinstance(n, ast.Attribute) and n.attr == attr:
            if n in aug_targets:
                kind = "augstore"
            elif isinstance(n.ctx, ast.Store):
                kind = "store"
            elif isinstance(n.ctx, ast.Del):
                kind = "del"
            else:
                kind = "load"
            out.append((enc.get(n, "?"), n.lineno, kind, ast.unparse(n.value)))
    return out


def name_stores_at_class_level(modname, clsname):
    tree = runner.get_index().trees[modname]
    out = []
    for n in ast.walk(tree):
        if isinstance(n, ast.ClassDef) and n.name == clsname:
            for st in n.body:
                if isinstance(st, (ast.Assign, ast.AnnAssign)):
                    targets = st.targets if isinstance(st, ast.Assign) else [st.target]
                    for t in targets:
                        if isinstance(t, ast.Name):
                            out.append(t.id)
    return out


def calls_to(modname, funcname):
    """Calls whose callee is the plain name or an attribute named funcname: [(enclosing, lineno, call node)]"""
    tree = runner.get_index().trees[modname]
    enc = _enclosing_map(tree)
    out = []
    for n in ast.walk(tree):
        if isinstance(n, ast.Call):
            f = n.func
            name = f.id if isinstance(f, ast.Name) else (f.attr if isinstance(f, ast.Attribute) else None)
            if name == funcname:
                out.append((enc.get(n, "?"), n.lineno, n))
    return out


def all_attr_stores(modname):
    """Every attribute store in the module: [(enclosing, lineno, attr, object src, kind)]"""
    tree = runner.get_index().trees[modname]
    enc = _enclosing_map(tree)
    aug_targets = set()
    for n in ast.walk(tree):
        if isinstance(n, ast.AugAssign):
            aug_targets.add(n.target)
    out = []
    for n in ast.walk(tree):
        if isinstance(n, ast.Attribute) and (isinstance(n.ctx, (ast.Store, ast.Del)) or n in aug_targets):
            out.append((enc.get(n, "?"), n.lineno, n.attr, ast.unparse(n.value), "aug" if n in aug_targets else "store"))
    return out
