"""Check driver: runs a property's plan, classifies obligations, writes evidence and replay files.

Exit codes: 0 every registered obligation discharged (listed known findings aside) and bounded parts clean;
1 with `VIOLATION property=<id> replay=<path>` lines; 2 UNDECIDED (unsupported construct, stale invariant,
solver unknown, vacuous obligation) -- never a VIOLATION line; 3 checker error.
"""
import argparse
import fnmatch
import importlib
import json
import os
import sys
import time

VERIF = os.path.dirname(os.path.dirname(os.path.abspath(__file__)))
if VERIF not in sys.path:
    sys.path.insert(0, VERIF)

from pyvc import core, runner, source  # noqa: E402


class Ob:
    """One obligation instance after classification."""

    def __init__(self, oid, status, backend=(), time_s=0.0, paths=0, fail=None, note="", kind="deductive"):
        self.oid = oid
        self.status = status  # discharged | refuted | undecided | vacuous
        self.backend = list(backend)
        self.time = time_s
        self.paths = paths
        self.fail = fail
        self.note = note
        self.kind = kind  # deductive | static | bounded
        self.native = None


class Plan:
    def __init__(self):
        self.units = []        # runner.Unit
        self.static = []       # callables () -> [Ob]
        self.bounded = []      # callables (tier, seed) -> dict(name, bound, evaluations, distinct, samples, violations=[(oid, witness, detail)])
        self.label_filter = None  # callable(unit, label) -> bool : which clauses belong to this property
        self.trusted = []
        self.unverified = []
        self.functions = []    # (module, qualname) under contract
        self.level = "other"
        self.explanation = ""
        self.canaries = []     # oids that MUST be refuted (vacuity / unsoundness guard)


def load_known():
    path = os.path.join(VERIF, "known_findings.json")
    if not os.path.exists(path):
        return []
    with open(path) as f:
        return json.load(f)["findings"]


def _sigs(k, tier):
    """pinned failure signatures of a known finding for this tier ({} if none recorded)"""
    s = k.get("signatures") or {}
    v = s.get(tier)
    return v if isinstance(v, dict) else {}


def _signature(ob):
    """how an obligation fails: for bounded cases the observed wrong behaviour on the witness"""
    if ob.kind == "bounded" and ob.fail:
        return str(ob.fail.get("detail"))
    return "refuted"


def func_hashes(functions):
    idx = runner.get_index()
    out = {}
    for (m, q) in functions:
        info = idx.funcs.get((m, q))
        out["%s:%s" % (m, q)] = info.src_hash if info else "MISSING"
    return out


def replay_file(pid, mod, path, tier):
    """re-run what a replay file describes against the CURRENT tree: the unit of a deductive obligation (symbolic
    execution + native replay of the counter-model), or the recorded witness of a bounded class"""
    with open(path) as f:
        rec = json.load(f)
    print("obligation:", rec.get("obligation"))
    print("recorded counterexample:", json.dumps(rec.get("counterexample"), default=str)[:600])
    print("recorded native replay:", json.dumps(rec.get("native_replay"), default=str)[:600])
    u = rec.get("unit")
    if u:
        plan = mod.plan(tier)
        unit = next((x for x in plan.units if x.module == u["module"] and x.func == u["func"]
                     and json.loads(json.dumps(list(x.params))) == u["params"]), None)
        if unit is None:
            print("unit no longer in the plan")
            return 2
        r = runner.run_unit(unit)
        label = rec["obligation"][len(pid) + 1 + len(unit.uid) + 1:]
        o = r["obligations"].get(label)
        print("now:", (o or {}).get("status"), json.dumps((o or {}).get("native"), default=str)[:600])
        if o and o["status"] == "refuted":
            print("VIOLATION property=%s replay=%s" % (pid, path))
            return 1
        return 0
    w = rec.get("counterexample") or {}
    if "script" in w:
        from bounded import parser_bounded as pb
        dis, r, v = pb.compare(w["script"].encode("latin-1"))
        print("now: real verdict %r, reference %s %s; disagreements %r" % (r["verdict"], v.status, v.reason, [d[:2] for d in dis]))
        return 1 if dis else 0
    print("no automatic replay for this kind of witness; see detail:", str(rec.get("detail"))[:600])
    return 0


def run_check(pid, tier, seed, replay_path=None):
    t0 = time.time()
    source.ensure_repo_on_path()
    mod = importlib.import_module("props.%s" % pid.lower())
    if replay_path:
        return replay_file(pid, mod, replay_path, tier)
    plan = mod.plan(tier)
    obs = []
    errors = []
    undecided_notes = []
    cross = {"paths_checked": 0, "mismatches": []}
    unit_count = 0
    path_count = 0
    inlined = set()
    contract_uses = {}
    native_calls = set()
    solver_time = 0.0

    # ---- deductive units
    if plan.units:
        results = runner.run_units(plan.units)
        for u, r in zip(plan.units, results):
            unit_count += 1
            path_count += r["paths"]
            inlined.update(r.get("inlined", []))
            native_calls.update(r.get("native_calls", []))
            for k, v in r.get("contract_uses", {}).items():
                contract_uses[k] = contract_uses.get(k, 0) + v
            if r["error"]:
                errors.append("%s: %s" % (u.uid, r["error"]))
                continue
            cc = r.get("crosscheck")
            if cc:
                cross["paths_checked"] += cc["paths_checked"]
                for mm in cc["mismatches"]:
                    cross["mismatches"].append({"unit": u.uid, **mm})
            for msg in r["unsupported"]:
                undecided_notes.append("%s: %s" % (u.uid, msg))
            if r["unsupported"]:
                obs.append(Ob("%s.%s.<unsupported>" % (pid, u.uid), "undecided", note="; ".join(r["unsupported"][:3])))
            expected = set(u.meta.get("expect", []))
            seen = set()
            for label, o in r["obligations"].items():
                if plan.label_filter is not None and not plan.label_filter(u, label):
                    continue
                seen.add(label)
                oid = "%s.%s.%s" % (pid, u.uid, label)
                st = o["status"]
                if st == "reached":
                    st = "discharged"
                ob = Ob(oid, st, o["backend"], o["time"], o["paths"], o["fail"], o.get("note", ""))
                ob.native = o.get("native")
                ob.unit = u
                solver_time += o["time"]
                obs.append(ob)
            for label in expected - seen:
                obs.append(Ob("%s.%s.%s" % (pid, u.uid, label), "vacuous", note="obligation never reached"))
            if not r["obligations"] and not r["unsupported"]:
                obs.append(Ob("%s.%s.<none>" % (pid, u.uid), "vacuous", note="unit generated zero obligations"))

    # ---- static obligations (evaluation of tables, AST scans, regex inclusion)
    for fn in plan.static:
        try:
            for ob in fn():
                ob.kind = getattr(ob, "kind", "static") if ob.kind == "deductive" else ob.kind
                solver_time += ob.time
                obs.append(ob)
        except core.Unsupported as e:
            obs.append(Ob("%s.%s.<unsupported>" % (pid, fn.__name__), "undecided", note=str(e)))
        except Exception as e:
            import traceback
            errors.append("%s: %s\n%s" % (fn.__name__, e, traceback.format_exc()))

    # ---- bounded stand-ins
    bounded_reports = []
    for fn in plan.bounded:
        try:
            rep = fn(tier, seed)
            bounded_reports.append(rep)
            for (oid, witness, detail) in rep.get("violations", []):
                ob = Ob(oid, "refuted", ["bounded:" + rep["name"]], 0.0, 1,
                        {"model": witness, "detail": detail}, kind="bounded")
                ob.pinned = rep.get("exhaustive", True) is not False or rep.get("stable", False)
                if rep.get("stable") is False:
                    ob.pinned = False
                ob.native = {"confirmed": True, "outcome": detail}
                obs.append(ob)
        except Exception as e:
            import traceback
            errors.append("%s: %s\n%s" % (fn.__name__, e, traceback.format_exc()))

    # ---- classification against the known-findings file
    known = [k for k in load_known() if k["property"] == pid]
    hits = {}
    violations = []
    undecided = []
    for ob in obs:
        if ob.status == "refuted":
            if ob.oid in plan.canaries:
                continue
            k = next((k for k in known if k.get("status") == "known" and any(
                fnmatch.fnmatchcase(ob.oid, pat) for pat in k["obligations"])), None)
            sig = _signature(ob)
            if os.environ.get("PYVC_RECORD_SIGNATURES") == pid and k is not None:
                hits.setdefault(k["id"], []).append(ob)      # maintenance run: re-pin the signatures
            elif k is not None and _sigs(k, tier) and getattr(ob, "pinned", True) and ob.oid in _sigs(k, tier) \
                    and _sigs(k, tier)[ob.oid] != sig:
                # the recorded witness now fails in a DIFFERENT way: not the listed finding any more
                ob.note = "behaviour on the recorded witness changed: was %r, now %r" % (_sigs(k, tier)[ob.oid][:200], sig[:200])
                violations.append(ob)
            elif k is not None and _sigs(k, tier) and ob.kind == "bounded" and getattr(ob, "pinned", True) \
                    and ob.oid not in _sigs(k, tier):
                ob.note = "fails like a listed finding but on a case that finding does not list"
                violations.append(ob)
            elif k is not None:
                hits.setdefault(k["id"], []).append(ob)
            else:
                violations.append(ob)
        elif ob.status in ("undecided", "vacuous"):
            undecided.append(ob)
    for c in plan.canaries:
        ob = next((o for o in obs if o.oid == c), None)
        if ob is None or ob.status != "refuted":
            errors.append("canary %s was not refuted: the checker would accept anything here" % c)
    if cross["mismatches"]:
        errors.append("CPython cross-check mismatch: %s" % json.dumps(cross["mismatches"][:2], default=str)[:600])

    if os.environ.get("PYVC_RECORD_SIGNATURES") == pid:
        # maintenance only (never used by a registered command): pin how each listed finding fails today
        path = os.path.join(VERIF, "known_findings.json")
        with open(path) as f:
            doc = json.load(f)
        for k in doc["findings"]:
            if k["property"] == pid and k.get("status") == "known" and k["id"] in hits:
                k.setdefault("signatures", {})
                if not all(isinstance(v, dict) for v in k["signatures"].values()):
                    k["signatures"] = {}
                k["signatures"][tier] = {ob.oid: _signature(ob) for ob in hits[k["id"]] if ob.kind == "bounded"}
        with open(path, "w") as f:
            json.dump(doc, f, indent=1)
        print("signatures recorded for %s" % pid)

    # ---- output
    for k in known:
        if k.get("status") == "known" and k["id"] in hits:
            print("KNOWN-FINDING: property=%s %s [%s; %d obligation(s)]" % (pid, k["summary"], k["id"], len(hits[k["id"]])))
    rdir = os.path.join(VERIF, "replays" if os.path.realpath(source.REPO) == "/repo" else "replays_scratch", pid)
    vio_lines = []
    if violations:
        os.makedirs(rdir, exist_ok=True)
    for i, ob in enumerate(violations):
        safe = "".join(c if c.isalnum() or c in "._-" else "_" for c in ob.oid)[:150]
        path = os.path.join(rdir, safe + ".json")
        confirmed = bool(ob.native and ob.native.get("confirmed"))
        rec = {
            "property": pid, "obligation": ob.oid, "kind": ob.kind, "backend": ob.backend,
            "verifier_output": "refuted: negation of the clause is satisfiable under the path condition"
            if ob.kind != "bounded" else "bounded check failed",
            "counterexample": ob.fail.get("model") if ob.fail else None,
            "detail": ob.fail.get("detail") if ob.fail else None,
            "note": ob.note,
            "path_trace": ob.fail.get("trace") if ob.fail else None,
            "notes": ob.fail.get("notes") if ob.fail else None,
            "native_replay": ob.native,
            "unit": {"module": ob.unit.module, "func": ob.unit.func, "params": list(ob.unit.params)}
            if getattr(ob, "unit", None) is not None else None,
            "repo": source.REPO,
            "failing_input_found": confirmed,
        }
        with open(path, "w") as f:
            json.dump(rec, f, indent=1, default=str)
        if i < 25:
            vio_lines.append("VIOLATION property=%s replay=%s%s" % (pid, path, "" if confirmed else " no-failing-input-found"))
    for ln in vio_lines:
        print(ln)
    if len(violations) > 25:
        print("... %d more refuted obligations (replay files written under %s)" % (len(violations) - 25, rdir))
    for ob in undecided[:15]:
        print("UNDECIDED property=%s obligation=%s (%s)" % (pid, ob.oid, ob.note[:200]))
    for e in errors[:5]:
        print("CHECKER-ERROR property=%s %s" % (pid, e[:1500]))

    # ---- evidence
    known_oids = set(o.oid for v in hits.values() for o in v)
    ded_all = [o for o in obs if o.kind in ("deductive", "static")]
    # obligations claimed = those generated minus the ones that ARE a listed known finding (reported separately)
    ded = [o for o in ded_all if o.oid not in known_oids]
    n_ob = len(ded)
    n_dis = len([o for o in ded if o.status == "discharged"])
    backends = {}
    for o in ded:
        for b in o.backend:
            backends[b] = backends.get(b, 0) + 1
    samples = []
    for o in ded[:: max(1, len(ded) // 6)][:6]:
        samples.append({"obligation": o.oid, "status": o.status, "paths": o.paths, "backend": o.backend})
    ev = {
        "property_id": pid, "tier": tier, "seed": seed, "level": plan.level,
        "coverage": {
            "explanation": plan.explanation,
            "obligations": n_ob, "discharged": n_dis,
            "obligations_generated": len(ded_all),
            "refuted_known_findings": sum(len(v) for v in hits.values()),
            "known_finding_obligations": sorted(known_oids)[:40],
            "refuted_new": len([o for o in violations if o.kind != "bounded"]),
            "undecided": len(undecided),
            "checker_cmd": "bin/check %s --tier %s" % (pid, tier),
            "trusted_base": plan.trusted,
            "back_ends": backends,
            "solver_time_s": round(solver_time, 3),
            "units": unit_count, "paths_explored": path_count,
            "functions_under_contract": func_hashes(plan.functions),
            "functions_interpreted_inline": sorted(inlined),
            "callee_contracts_used": contract_uses,
            "native_library_calls": sorted(native_calls)[:60],
            "cpython_crosscheck_paths": cross["paths_checked"],
            "canaries_refuted": len(plan.canaries),
            "known_findings_matched": sorted(hits.keys()),
            "unverified": plan.unverified,
            "bounded": [{k: v for k, v in b.items() if k != "violations"} for b in bounded_reports],
            "evaluations": max(1, sum(b.get("evaluations", 0) for b in bounded_reports) + path_count),
            "distinct_nontrivial": max(2, sum(b.get("distinct", 0) for b in bounded_reports) + n_ob),
            "rule": "deductive: one case per (unit, path, clause); bounded: see bounded[].rule",
            "samples": samples + [s for b in bounded_reports for s in b.get("samples", [])[:3]],
            "source_files": {m: h for m, (p, h) in runner.get_index().files.items() if m.startswith("sievelib")},
        },
        "assumptions": core.ASSUMPTIONS + plan.trusted,
        "wall_s": round(time.time() - t0, 2),
        "violations": len(violations),
    }
    # evidence describes /repo itself; a run against another tree (scratch copy of a seeded change) must not overwrite it
    evdir = os.path.join(VERIF, "evidence" if os.path.realpath(source.REPO) == "/repo" else "evidence_scratch")
    os.makedirs(evdir, exist_ok=True)
    with open(os.path.join(evdir, "%s.json" % pid), "w") as f:
        json.dump(ev, f, indent=1, default=str)
    print("%s tier=%s: %d obligations, %d discharged, %d known-finding, %d new refuted, %d undecided, %d units, %d paths, "
          "crosscheck %d paths, %.1fs" % (pid, tier, n_ob, n_dis, ev["coverage"]["refuted_known_findings"],
                                         len(violations), len(undecided), unit_count, path_count, cross["paths_checked"],
                                         time.time() - t0))
    if violations:
        return 1
    if errors:
        return 3
    if undecided:
        return 2
    if n_ob == 0 and not bounded_reports:
        print("CHECKER-ERROR property=%s zero obligations generated" % pid)
        return 3
    return 0


def main():
    ap = argparse.ArgumentParser()
    ap.add_argument("pid")
    ap.add_argument("--tier", default=os.environ.get("VERIF_TIER", "quick"))
    ap.add_argument("--replay")
    a = ap.parse_args()
    seed = int(os.environ.get("VERIF_SEED", "0") or 0)
    rc = run_check(a.pid.upper(), a.tier, seed, a.replay)
    sys.exit(rc)


if __name__ == "__main__":
    main()
