"""Regular expressions: translation of `re` patterns to SMT regexes, and a symbolic model of
match()/group() for the deterministic fragment the repository uses.

Trusted contract of `re` (DESIGN.md 2.5): compile(p).match(s, pos) is not None  <=>  some prefix of s[pos:] is in
L(p) (with `$`/MULTILINE read as "end of text or before a newline").  L(p) is obtained mechanically from
re._parser.parse.  Group extents are modelled only where the pattern is *deterministic* under leftmost-greedy
semantics; the conditions are checked mechanically on the parse tree (else Unsupported) and the whole model is
cross-checked against CPython by exhaustive enumeration (selftest_pattern).
"""
import re
import itertools

import z3

from . import core, sym
from .core import Unsupported, strval, branch, assume
from .sym import SStr, SInt, Sym, mkstr, mkint, mkbool, to_z3str, to_z3int

try:
    import re._parser as sre_parse
    import re._constants as sre_c
except ImportError:  # pragma: no cover
    import sre_parse
    import sre_constants as sre_c

MAXCP = 0x2FFFF


class N:
    """regex node: kind in lit, cls, rep, grp, alt, seq, at"""

    def __init__(self, kind, **kw):
        self.kind = kind
        self.__dict__.update(kw)


def _cat_set(cat, bytes_mode, ascii_flag):
    name = str(cat)
    if not (bytes_mode or ascii_flag):
        raise Unsupported("unicode category %s in a str pattern" % name)
    digits = set(range(48, 58))
    word = digits | set(range(65, 91)) | set(range(97, 123)) | {95}
    space = {9, 10, 11, 12, 13, 32}
    full = set(range(256)) if bytes_mode else None
    if name.endswith("CATEGORY_DIGIT"):
        return digits, False
    if name.endswith("CATEGORY_NOT_DIGIT"):
        return digits, True
    if name.endswith("CATEGORY_WORD"):
        return word, False
    if name.endswith("CATEGORY_NOT_WORD"):
        return word, True
    if name.endswith("CATEGORY_SPACE"):
        return space, False
    if name.endswith("CATEGORY_NOT_SPACE"):
        return space, True
    raise Unsupported("category %s" % name)


class CharSet:
    """set of code points: explicit members below `top`, plus `rest` (everything >= 256 included?)"""

    def __init__(self, members, rest, bytes_mode):
        self.members = frozenset(m for m in members if m < 256)
        self.rest = rest and not bytes_mode
        self.bytes_mode = bytes_mode

    def negate(self):
        return CharSet(set(range(256)) - self.members, not self.rest, self.bytes_mode)

    def union(self, o):
        return CharSet(self.members | o.members, self.rest or o.rest, self.bytes_mode)

    def disjoint(self, o):
        return not (self.members & o.members) and not (self.rest and o.rest)

    def contains(self, cp):
        return cp in self.members if cp < 256 else self.rest

    def z3(self):
        parts = []
        ms = sorted(self.members)
        i = 0
        while i < len(ms):
            j = i
            while j + 1 < len(ms) and ms[j + 1] == ms[j] + 1:
                j += 1
            parts.append(z3.Range(strval(chr(ms[i])), strval(chr(ms[j]))))
            i = j + 1
        if self.rest:
            parts.append(z3.Range(strval(chr(256)), strval(chr(MAXCP))))
        if not parts:
            return z3.Empty(z3.ReSort(z3.StringSort()))
        return parts[0] if len(parts) == 1 else z3.Union(*parts)

    def empty(self):
        return not self.members and not self.rest


def convert(pattern, flags=0):
    """re pattern (bytes or str) -> N tree"""
    bytes_mode = isinstance(pattern, bytes)
    tree = sre_parse.parse(pattern, flags)
    fl = tree.state.flags | flags
    ascii_flag = bool(fl & re.ASCII)
    ignorecase = bool(fl & re.IGNORECASE)
    multiline = bool(fl & re.MULTILINE)
    dotall = bool(fl & re.DOTALL)
    groupnames = {v: k for k, v in tree.state.groupdict.items()}

    def cs(members, rest=False):
        return CharSet(members, rest, bytes_mode)

    def lit(c):
        if ignorecase and c < 128 and chr(c).isalpha():
            return N("cls", cs=cs({ord(chr(c).lower()), ord(chr(c).upper())}), lit=None)
        return N("cls", cs=cs({c}) if c < 256 else None, lit=c)

    def conv_seq(sub):
        items = []
        for op, av in sub:
            items.append(conv(op, av))
        # merge adjacent single literals into lit strings
        out = []
        for it in items:
            if it.kind == "cls" and getattr(it, "lit", None) is not None and not ignorecase:
                if out and out[-1].kind == "lit":
                    out[-1] = N("lit", s=out[-1].s + chr(it.lit))
                else:
                    out.append(N("lit", s=chr(it.lit)))
            else:
                out.append(it)
        if len(out) == 1:
            return out[0]
        return N("seq", items=out)

    def conv(op, av):
        name = str(op)
        if name == "LITERAL":
            return lit(av)
        if name == "NOT_LITERAL":
            return N("cls", cs=cs({av}).negate())
        if name == "ANY":
            return N("cls", cs=cs(set() if dotall else {10}).negate())
        if name == "IN":
            acc = cs(set())
            neg = False
            for o2, a2 in av:
                n2 = str(o2)
                if n2 == "NEGATE":
                    neg = True
                elif n2 == "LITERAL":
                    if ignorecase and a2 < 128 and chr(a2).isalpha():
                        acc = acc.union(cs({ord(chr(a2).lower()), ord(chr(a2).upper())}))
                    else:
                        acc = acc.union(cs({a2}))
                elif n2 == "RANGE":
                    lo, hi = a2
                    acc = acc.union(cs(set(range(lo, min(hi, 255) + 1)), rest=hi > 255))
                elif n2 == "CATEGORY":
                    members, negated = _cat_set(a2, bytes_mode, ascii_flag)
                    c2 = cs(members)
                    acc = acc.union(c2.negate() if negated else c2)
                else:
                    raise Unsupported("IN item %s" % n2)
            return N("cls", cs=acc.negate() if neg else acc)
        if name == "BRANCH":
            return N("alt", alts=[conv_seq(a) for a in av[1]])
        if name == "SUBPATTERN":
            g, add_f, del_f, sub = av
            if add_f or del_f:
                raise Unsupported("inline flags")
            inner = conv_seq(sub)
            if g is None:
                return inner
            return N("grp", idx=g, name=groupnames.get(g), node=inner)
        if name in ("MAX_REPEAT", "MIN_REPEAT"):
            lo, hi, sub = av
            hi = None if hi == sre_c.MAXREPEAT else hi
            return N("rep", lo=lo, hi=hi, node=conv_seq(sub), greedy=(name == "MAX_REPEAT"))
        if name == "AT":
            a = str(av)
            if a.endswith("AT_END") or a.endswith("AT_END_LINE") or a.endswith("AT_END_STRING"):
                return N("at", where="end", multiline=multiline and not a.endswith("AT_END_STRING"))
            if a.endswith("AT_BEGINNING") or a.endswith("AT_BEGINNING_STRING") or a.endswith("AT_BEGINNING_LINE"):
                return N("at", where="begin", multiline=multiline)
            raise Unsupported("anchor %s" % a)
        if name == "CATEGORY":
            members, negated = _cat_set(av, bytes_mode, ascii_flag)
            c2 = cs(members)
            return N("cls", cs=c2.negate() if negated else c2)
        raise Unsupported("regex construct %s" % name)

    root = conv_seq(tree)
    root_info = {"bytes": bytes_mode, "groups": tree.state.groups - 1, "groupnames": groupnames, "multiline": multiline}
    return root, root_info


# ----------------------------------------------------------------------------- language, first sets, nullability

EPS = None


def lang(n):
    """SMT regex for the set of texts the node can match (anchors read as epsilon)."""
    k = n.kind
    if k == "lit":
        return z3.Re(strval(n.s))
    if k == "cls":
        if n.cs is None:
            return z3.Re(strval(chr(n.lit)))
        return n.cs.z3()
    if k == "seq":
        parts = [lang(i) for i in n.items if i.kind != "at"]
        if not parts:
            return z3.Re(strval(""))
        return parts[0] if len(parts) == 1 else z3.Concat(*parts)
    if k == "alt":
        parts = [lang(a) for a in n.alts]
        return parts[0] if len(parts) == 1 else z3.Union(*parts)
    if k == "grp":
        return lang(n.node)
    if k == "at":
        return z3.Re(strval(""))
    if k == "rep":
        inner = lang(n.node)
        if n.lo == 0 and n.hi is None:
            return z3.Star(inner)
        if n.lo == 1 and n.hi is None:
            return z3.Plus(inner)
        if n.lo == 0 and n.hi == 1:
            return z3.Option(inner)
        if n.hi is None:
            return z3.Concat(z3.Loop(inner, n.lo, n.lo), z3.Star(inner))
        return z3.Loop(inner, n.lo, n.hi)
    raise Unsupported("lang of %s" % k)


def nullable(n):
    k = n.kind
    if k == "lit":
        return len(n.s) == 0
    if k == "cls":
        return False
    if k == "seq":
        return all(nullable(i) for i in n.items)
    if k == "alt":
        return any(nullable(a) for a in n.alts)
    if k == "grp":
        return nullable(n.node)
    if k == "at":
        return True
    if k == "rep":
        return n.lo == 0 or nullable(n.node)
    raise Unsupported(k)


def first(n, bytes_mode=True):
    """set of code points a non-empty match can start with"""
    k = n.kind
    if k == "lit":
        return CharSet({ord(n.s[0])} if n.s else set(), False, bytes_mode)
    if k == "cls":
        return n.cs if n.cs is not None else CharSet(set(), True, bytes_mode)
    if k == "seq":
        acc = CharSet(set(), False, bytes_mode)
        for i in n.items:
            acc = acc.union(first(i, bytes_mode))
            if not nullable(i):
                break
        return acc
    if k == "alt":
        acc = CharSet(set(), False, bytes_mode)
        for a in n.alts:
            acc = acc.union(first(a, bytes_mode))
        return acc
    if k == "grp":
        return first(n.node, bytes_mode)
    if k == "at":
        return CharSet(set(), False, bytes_mode)
    if k == "rep":
        return first(n.node, bytes_mode)
    raise Unsupported(k)


def flatten(n):
    if n.kind == "seq":
        out = []
        for i in n.items:
            out.extend(flatten(i))
        return out
    return [n]


ANY_STR = None


def sigma_star():
    return z3.Star(z3.Range(strval("\x00"), strval(chr(MAXCP))))


def end_context_regex(multiline):
    """what may follow a `$`: end of text, a final newline, or (MULTILINE) any newline"""
    nl = z3.Re(strval("\n"))
    if multiline:
        return z3.Union(z3.Re(strval("")), z3.Concat(nl, sigma_star()))
    return z3.Union(z3.Re(strval("")), nl)


def match_language(root, info):
    """regex R such that  pattern.match(s) is not None  <=>  s in R   (s = text from the match position)"""
    items = flatten(root)
    parts = []
    trailing_end = False
    for idx, it in enumerate(items):
        if it.kind == "at":
            if it.where == "end":
                if idx != len(items) - 1:
                    raise Unsupported("`$` not at the end of the pattern")
                trailing_end = it
            else:
                if idx != 0:
                    raise Unsupported("`^` not at the start of the pattern")
            continue
        parts.append(lang(it))
        _no_inner_anchor(it)
    body = z3.Re(strval("")) if not parts else (parts[0] if len(parts) == 1 else z3.Concat(*parts))
    if trailing_end:
        return z3.Concat(body, end_context_regex(trailing_end.multiline))
    return z3.Concat(body, sigma_star())


def _no_inner_anchor(n):
    if n.kind == "at":
        raise Unsupported("anchor inside a group/alternative")
    for ch in (getattr(n, "items", None) or []) + (getattr(n, "alts", None) or []) + ([n.node] if hasattr(n, "node") else []):
        _no_inner_anchor(ch)


# ----------------------------------------------------------------------------- symbolic match objects

class SMatch:
    """result of a successful symbolic match; groups: index -> SStr | bytes/str | None"""

    def __init__(self, groups, start, end, isbytes, names, lastgroup=None):
        self.groups = groups
        self.start_ = start
        self.end_ = end
        self.isbytes = isbytes
        self.names = names
        self.lastgroup = lastgroup


def _method(name):
    def deco(f):
        f._mname = name
        return f
    return deco


def smatch_getattr(m, name):
    if name == "lastgroup":
        return m.lastgroup
    return _BoundMatch(m, name)


class _BoundMatch:
    def __init__(self, m, name):
        self.m = m
        self.name = name

    def __pyvc_call__(self, ip, args, kwargs):
        m = self.m
        if self.name == "group":
            if not args:
                args = [0]
            out = []
            for a in args:
                if a is m.lastgroup and getattr(m, "group_by_lastgroup", None) is not None:
                    out.append(m.group_by_lastgroup)
                    continue
                if isinstance(a, str):
                    idx = next((i for i, n in m.names.items() if n == a), None)
                    if idx is None:
                        raise IndexError("no such group")
                else:
                    idx = a
                if isinstance(idx, Sym):
                    raise Unsupported("symbolic group index")
                if idx not in m.groups:
                    raise IndexError("no such group")
                out.append(m.groups[idx])
            return out[0] if len(out) == 1 else tuple(out)
        if self.name == "start":
            if args and args[0] != 0:
                raise Unsupported("start(group)")
            return m.start_
        if self.name == "end":
            if args and args[0] != 0:
                raise Unsupported("end(group)")
            return m.end_
        raise Unsupported("match method %s" % self.name)


class Decomposer:
    """Walks the flattened item list, introducing one fresh string per item and constraining it (see module doc)."""

    def __init__(self, info):
        self.info = info
        self.groups = {i: None for i in range(1, info["groups"] + 1)}
        self.consumed = []  # list of z3 string terms, in order
        self.p = core.cur()

    def fresh(self, base):
        return z3.String(self.p.fresh_name("rx_" + base))

    def run(self, items, rem):
        """rem: z3 term of the remaining text; returns the remaining text after the items"""
        bm = self.info["bytes"]
        i = 0
        while i < len(items):
            it = items[i]
            rest = items[i + 1:]
            if it.kind == "at":
                i += 1
                continue
            if it.kind == "lit":
                r2 = self.fresh("r")
                assume(rem == z3.Concat(strval(it.s), r2))
                self.consumed.append(strval(it.s))
                rem = r2
            elif it.kind == "cls":
                v, r2 = self.fresh("c"), self.fresh("r")
                assume(z3.And(rem == z3.Concat(v, r2), z3.InRe(v, lang(it))))
                self.consumed.append(v)
                rem = r2
            elif it.kind == "grp":
                mark = len(self.consumed)
                rem = self.run_group(it, rem, rest)
                parts = self.consumed[mark:]
                if self.groups.get(it.idx, None) != "absent":
                    val = parts[0] if len(parts) == 1 else (z3.Concat(*parts) if parts else strval(""))
                    self.groups[it.idx] = mkstr(val, bm)
                else:
                    self.groups[it.idx] = None
            elif it.kind == "alt":
                rem = self.run_alt(it, rem, rest)
            elif it.kind == "rep":
                rem = self.run_rep(it, rem, rest)
            elif it.kind == "seq":
                rem = self.run(flatten(it) + [], rem) if not rest else self.run(flatten(it), rem)
            else:
                raise Unsupported("item %s" % it.kind)
            i += 1
        return rem

    def run_group(self, g, rem, rest):
        inner = flatten(g.node)
        if len(inner) == 1 and inner[0].kind in ("alt", "rep"):
            if inner[0].kind == "alt":
                return self.run_alt(inner[0], rem, rest)
            return self.run_rep(inner[0], rem, rest)
        # a sequence inside a group: the items after the group constrain the last inner item
        return self.run_inner_seq(inner, rem, rest)

    def run_inner_seq(self, inner, rem, rest):
        # process inner items with knowledge of what follows the group
        for j, it in enumerate(inner):
            follow = inner[j + 1:] + rest
            if it.kind == "rep":
                rem = self.run_rep(it, rem, follow)
            elif it.kind == "alt":
                rem = self.run_alt(it, rem, follow)
            elif it.kind == "grp":
                mark = len(self.consumed)
                rem = self.run_group(it, rem, follow)
                parts = self.consumed[mark:]
                val = parts[0] if len(parts) == 1 else (z3.Concat(*parts) if parts else strval(""))
                self.groups[it.idx] = mkstr(val, self.info["bytes"])
            else:
                rem = self.run([it], rem)
        return rem

    def run_alt(self, a, rem, rest):
        # alternatives must be literals none of which is a prefix of another (then at most one can match here)
        lits = []
        for alt in a.alts:
            f = flatten(alt)
            if len(f) != 1 or f[0].kind != "lit":
                raise Unsupported("alternation of non-literals inside a modelled match")
            lits.append(f[0].s)
        for x, y in itertools.permutations(lits, 2):
            if y.startswith(x):
                raise Unsupported("alternatives %r / %r are not prefix-free" % (x, y))
        for s_ in lits:
            if branch(z3.PrefixOf(strval(s_), rem)):
                r2 = self.fresh("r")
                assume(rem == z3.Concat(strval(s_), r2))
                self.consumed.append(strval(s_))
                return r2
        raise core.PathEnd()  # contradicts the established overall match

    def run_rep(self, r, rem, rest):
        bm = self.info["bytes"]
        rest = [x for x in rest if x.kind != "at"] if all(x.kind != "at" or x.where == "end" for x in rest) else rest
        rest_nullable = all(nullable(x) for x in rest)
        inner = flatten(r.node)
        # optional group / optional literal
        if r.lo == 0 and r.hi == 1:
            restlang = self._lang_seq(rest)
            if rest_nullable and not rest:
                taken = z3.InRe(rem, z3.Concat(lang(r.node), sigma_star()))
            else:
                if rest_nullable:
                    raise Unsupported("optional item followed by a nullable remainder")
                if not first(r.node, bm).disjoint(self._first_seq(rest, bm)):
                    raise Unsupported("optional item whose first set overlaps the remainder's")
                taken = z3.InRe(rem, z3.Concat(lang(r.node), restlang, sigma_star()))
            if not r.greedy:
                raise Unsupported("lazy optional")
            if branch(taken):
                return self.run_inner_seq(inner, rem, rest)
            for g in self._groups_in(r.node):
                self.groups[g] = "absent"
            return rem
        # repeat of a single character class
        if len(inner) != 1 or inner[0].kind != "cls" or inner[0].cs is None:
            raise Unsupported("repeat of a non-class inside a modelled match")
        C = inner[0].cs
        v, r2 = self.fresh("v"), self.fresh("r")
        if not r.greedy:
            raise Unsupported("lazy repeat inside a modelled match")
        if r.hi is not None:
            raise Unsupported("bounded repeat inside a modelled match")
        assume(z3.And(rem == z3.Concat(v, r2), z3.InRe(v, lang(r))))
        notC = C.negate().z3()
        if rest_nullable or C.disjoint(self._first_seq(rest, bm)):
            # maximal munch is exact: what follows is empty or starts outside C
            assume(z3.InRe(r2, z3.Union(z3.Re(strval("")), z3.Concat(notC, sigma_star()))))
        else:
            # C* q ...  with q a literal character inside C and nothing (or only nullable items) after it:
            # backtracking yields the LAST q of the C-run
            nxt = rest[0]
            after = rest[1:]
            if nxt.kind == "lit" and len(nxt.s) == 1 and C.contains(ord(nxt.s)) and all(nullable(x) for x in after) \
                    and not after:
                q = nxt.s
                Cminus = CharSet(C.members - {ord(q)}, C.rest, C.bytes_mode).z3()
                tail = self.fresh("t")
                assume(z3.And(r2 == z3.Concat(strval(q), tail),
                              z3.InRe(tail, z3.Concat(z3.Star(Cminus), z3.Union(z3.Re(strval("")),
                                                                                 z3.Concat(notC, sigma_star()))))))
            else:
                raise Unsupported("greedy repeat whose class overlaps what follows (backtracking not modelled)")
        self.consumed.append(v)
        return r2

    def _lang_seq(self, items):
        parts = [lang(i) for i in items if i.kind != "at"]
        if not parts:
            return z3.Re(strval(""))
        return parts[0] if len(parts) == 1 else z3.Concat(*parts)

    def _first_seq(self, items, bm):
        return first(N("seq", items=list(items)), bm)

    def _groups_in(self, n):
        out = []
        if n.kind == "grp":
            out.append(n.idx)
        for ch in (getattr(n, "items", None) or []) + (getattr(n, "alts", None) or []) + ([n.node] if hasattr(n, "node") else []):
            out.extend(self._groups_in(ch))
        return out


_CONVERT_CACHE = {}


def compiled(pat):
    key = (pat.pattern, pat.flags)
    c = _CONVERT_CACHE.get(key)
    if c is None:
        c = _CONVERT_CACHE[key] = convert(pat.pattern, pat.flags & (re.I | re.M | re.S | re.A))
    return c


def pattern_method(ip, pat, name, args, kwargs):
    """model of compiled_pattern.match / .search on a symbolic subject"""
    from .interp import contains_sym
    if not contains_sym(list(args)):
        return getattr(pat, name)(*args, **kwargs)
    root, info = compiled(pat)
    subj = args[0]
    pos = args[1] if len(args) > 1 else 0
    if len(args) > 2:
        raise Unsupported("match with endpos")
    if info["bytes"] != sym.is_bytes(subj):
        raise TypeError("cannot use a %s pattern on a %s object" % ("bytes" if info["bytes"] else "string",
                                                                     "bytes-like" if sym.is_bytes(subj) else "string"))
    st = to_z3str(subj)
    if isinstance(pos, Sym) or pos != 0:
        n = z3.Length(st)
        pz = to_z3int(pos)
        rem = z3.SubString(st, pz, n - pz)
    else:
        rem = st
        pz = z3.IntVal(0)
    if name == "search":
        # abstract: either None or a match at some offset; only start() is modelled
        R = z3.Concat(sigma_star(), match_language(root, info))
        if not branch(z3.InRe(rem, R)):
            return None
        off = sym.fresh_int("rx_search_start", register=False)
        assume(z3.And(off.t >= 0, off.t <= z3.Length(rem)))
        m = SMatch({0: None}, mkint(pz + off.t), None, info["bytes"], info["groupnames"])
        return _MatchObj(m)
    if name != "match":
        raise Unsupported("pattern method %s on a symbolic subject" % name)
    if not isinstance(pos, Sym) and pos == 0:
        # shaped subject (constants + pieces of known class): the match and its groups are computed on the structure
        from . import shape
        try:
            res = shape.structural_match(root, info, st)
        except Unsupported:
            res = None
        if res is not None:
            core.cur().ghost["structural_matches"] = core.cur().ghost.get("structural_matches", 0) + 1
            if res[0] == "nomatch":
                return None
            groups = {0: mkstr(res[2], info["bytes"])}
            for gi, gv in res[1].items():
                groups[gi] = None if gv is None else mkstr(gv, info["bytes"])
            whole_len = z3.Length(res[2])
            m = SMatch(groups, 0, mkint(whole_len), info["bytes"], info["groupnames"])
            return _MatchObj(m)
    if core.TRACE:
        print("[pyvc] regex %r not decided on the structure of %s" % (pat.pattern, str(z3.simplify(st))[:400]), flush=True)
    R = match_language(root, info)
    if not branch(z3.InRe(rem, R)):
        return None
    d = Decomposer(info)
    items = flatten(root)
    rest = d.run(items, rem)
    whole = d.consumed[0] if len(d.consumed) == 1 else (z3.Concat(*d.consumed) if d.consumed else strval(""))
    groups = {0: mkstr(whole, info["bytes"])}
    for gi, gv in d.groups.items():
        groups[gi] = None if gv == "absent" else gv
    m = SMatch(groups, mkint(pz), mkint(pz + z3.Length(whole)), info["bytes"], info["groupnames"])
    return _MatchObj(m)


class _MatchObj(sym.Opaque):
    """symbolic match object (truthy, never None)"""

    def __init__(self, m):
        sym.Opaque.__init__(self, "match", re.Match)
        self.m = m
        self.attrs = _MatchAttrs(m)


class _MatchAttrs:
    def __init__(self, m):
        self.m = m

    def __contains__(self, name):
        return name in ("group", "start", "end", "lastgroup")

    def __getitem__(self, name):
        return smatch_getattr(self.m, name)


# ----------------------------------------------------------------------------- bounded cross-check against CPython

def selftest_pattern(pat, alphabet, maxlen):
    """Exhaustively compare the model with CPython's re on all strings over `alphabet` up to `maxlen`:
    match/no-match and every group value.  Returns (cases, mismatches)."""
    from . import core as _core
    root, info = compiled(pat)
    bm = info["bytes"]
    cases = 0
    bad = []
    for n in range(maxlen + 1):
        for tup in itertools.product(alphabet, repeat=n):
            s = "".join(tup)
            subj = s.encode("latin-1") if bm else s
            real = pat.match(subj)
            cases += 1
            ex = _core.Exploration("rxselftest")
            results = []

            def once(p):
                x = z3.String("subj")
                p.add(x == strval(s))
                r = pattern_method(None, pat, "match", [SStr(x, bm)], {})
                if r is None:
                    results.append(None)
                    return
                m = r.m
                vals = {}
                mod = None
                if p.solver.check() == z3.sat:
                    mod = p.solver.model()
                for gi, gv in m.groups.items():
                    if gv is None:
                        vals[gi] = None
                    elif isinstance(gv, (str, bytes)):
                        vals[gi] = gv
                    else:
                        v = _core.unesc(mod.eval(gv.t, model_completion=True).as_string())
                        vals[gi] = v.encode("latin-1") if bm else v
                results.append(vals)

            ex.run(once)
            if ex.unsupported:
                return cases, [("unsupported", ex.unsupported[0])]
            if real is None:
                if results != [None]:
                    bad.append((s, "model matches, CPython does not", results))
            else:
                exp = {0: real.group(0)}
                for gi in range(1, info["groups"] + 1):
                    exp[gi] = real.group(gi)
                if len(results) != 1 or results[0] != exp:
                    bad.append((s, exp, results))
            if len(bad) > 5:
                return cases, bad
    return cases, bad
