"""Models of str / bytes / list / dict methods over symbolic values (see DESIGN.md 2.5)."""
import z3

from . import core, sym
from .core import Unsupported, branch
from .sym import (Sym, SBool, SInt, SStr, SDict, SSet, Opaque, mkbool, mkint, mkstr, to_z3str, to_z3int, is_strlike,
                  pytype_of, strval)

WS_STR = " \t\n\r\x0b\x0c"  # ASCII whitespace (bytes.strip()); str.strip() also strips Unicode spaces: see note


def _isb(x):
    return sym.is_bytes(x)


def _check_kind(obj, other, what):
    if _isb(obj) != _isb(other):
        raise TypeError("%s: mixing str and bytes" % what)


def call_method(ip, obj, name, args, kwargs):
    from .interp import contains_sym
    if isinstance(obj, SStr) or isinstance(obj, (str, bytes)):
        m = STR_METHODS.get(name)
        if m is None:
            raise Unsupported("string method %s on symbolic value" % name)
        return m(ip, obj, *args, **kwargs)
    if isinstance(obj, SDict):
        return sdict_method(ip, obj, name, args, kwargs)
    if isinstance(obj, SSet):
        raise Unsupported("method %s on symbolic set" % name)
    raise Unsupported("method %s on %r" % (name, obj))


# ----------------------------------------------------------------------------- str / bytes

def m_startswith(ip, s, prefix, *rest):
    if rest:
        raise Unsupported("startswith with start/end")
    if isinstance(prefix, tuple):
        acc = False
        for p in prefix:
            acc = ip.or_(acc, m_startswith(ip, s, p))
        return acc
    _check_kind(s, prefix, "startswith")
    return mkbool(z3.PrefixOf(to_z3str(prefix), to_z3str(s)))


def m_endswith(ip, s, suffix, *rest):
    if rest:
        raise Unsupported("endswith with start/end")
    if isinstance(suffix, tuple):
        acc = False
        for p in suffix:
            acc = ip.or_(acc, m_endswith(ip, s, p))
        return acc
    _check_kind(s, suffix, "endswith")
    return mkbool(z3.SuffixOf(to_z3str(suffix), to_z3str(s)))


def m_lower(ip, s):
    return sym.s_lower(s)


def m_encode(ip, s, enc="utf-8", *a):
    if enc.lower().replace("_", "-") not in ("utf-8", "utf8"):
        raise Unsupported("encode(%s)" % enc)
    if _isb(s):
        raise AttributeError("'bytes' object has no attribute 'encode'")
    return sym.s_encode_utf8(s)


def m_decode(ip, s, enc="utf-8", *a):
    if not _isb(s):
        raise AttributeError("'str' object has no attribute 'decode'")
    e = enc.lower().replace("_", "-")
    if e in ("utf-8", "utf8"):
        return sym.s_decode_utf8(s)
    if e == "ascii":
        asc, _ = sym._ascii_re()
        if not branch(z3.InRe(s.t, asc)):
            raise UnicodeDecodeError("ascii", b"", 0, 1, "symbolic non-ascii")
        return SStr(s.t, False)
    raise Unsupported("decode(%s)" % enc)


def m_strip(ip, s, chars=None):
    """strip(chars): longest prefix and suffix over `chars` removed (chars concrete)."""
    if isinstance(chars, Sym):
        raise Unsupported("strip with symbolic chars")
    isb = _isb(s)
    if chars is None:
        cs = WS_STR  # for str, CPython also strips other Unicode whitespace; listed as an assumption
    else:
        _check_kind(s, chars, "strip")
        cs = chars.decode("latin-1") if isinstance(chars, bytes) else chars
    if not isinstance(s, Sym):
        return s.strip(chars)
    from . import shape
    ps = shape.pieces_of(s.t)
    if ps is not None:
        r = shape.strip_chars(ps, cs)
        if r is not shape.UNKNOWN:
            return mkstr(shape.concat(r), isb)      # decided on the structure of the shaped string (exact)
    p = core.cur()
    # strip is a function symbol (so that equal arguments give equal results by congruence); each distinct
    # application gets one instance of its defining decomposition  s = pre ++ strip(s) ++ suf
    key = "".join("%02x" % ord(c) for c in cs)
    F = _STRIP_FUNCS.get(key)
    if F is None:
        F = _STRIP_FUNCS[key] = z3.Function("py_strip_" + key, z3.StringSort(), z3.StringSort())
    mid = F(s.t)
    seen = p.ghost.setdefault("strip_apps", {})
    tag = (key, s.t.get_id())
    if tag not in seen:
        _strip_concat_lemma(p, s.t, mid, cs)
        base = p.fresh_name("strip")
        pre, suf = z3.String(base + "_pre"), z3.String(base + "_suf")
        cre = sym.re_chars(cs)
        notc = sym.re_char_not(cs)
        allc = z3.Range(strval("\x00"), strval(chr(0x2FFFF)))
        p.add(s.t == z3.Concat(pre, mid, suf))
        p.add(z3.InRe(pre, z3.Star(cre)))
        p.add(z3.InRe(suf, z3.Star(cre)))
        # the result is empty or starts and ends with a non-strippable character
        p.add(z3.InRe(mid, z3.Union(z3.Re(strval("")), notc, z3.Concat(notc, z3.Star(allc), notc))))
    return SStr(mid, isb)


_STRIP_FUNCS = {}


def _strip_concat_lemma(p, t, result, cs):
    """Lemma instance (a theorem of strip): if t = c1 ++ x ++ c2 with c1, c2 constants over the strip characters and x is
    empty or begins and ends with a non-strip character, then strip(t) = x.  The side condition on x is PROVED under the
    current path condition (quick query); only then is the instance added."""
    t = z3.simplify(t)
    if not (z3.is_app(t) and t.decl().kind() == z3.Z3_OP_SEQ_CONCAT):
        return
    kids = list(t.children())
    lead, trail = 0, len(kids)
    while lead < trail and z3.is_string_value(kids[lead]) and all(ch in cs for ch in core.unesc(kids[lead].as_string())):
        lead += 1
    while trail > lead and z3.is_string_value(kids[trail - 1]) and all(ch in cs for ch in core.unesc(kids[trail - 1].as_string())):
        trail -= 1
    if (lead == 0 and trail == len(kids)) or lead >= trail:
        return
    middle = kids[lead:trail]
    x = middle[0] if len(middle) == 1 else z3.Concat(*middle)
    notc = sym.re_char_not(cs)
    allc = z3.Range(strval("\x00"), strval(chr(0x2FFFF)))
    ok_shape = z3.InRe(x, z3.Union(z3.Re(strval("")), notc, z3.Concat(notc, z3.Star(allc), notc)))
    p.solver.push()
    p.solver.add(z3.Not(ok_shape))
    r = p.solver.check()
    p.solver.pop()
    if r == z3.unsat:
        p.add(result == x)
        p.ghost.setdefault("strip_lemmas", []).append(str(x)[:60])


def _one_sided_strip(ip, s, chars, left):
    if isinstance(chars, Sym):
        raise Unsupported("strip with symbolic chars")
    isb = _isb(s)
    if chars is None:
        cs = WS_STR
    else:
        _check_kind(s, chars, "strip")
        cs = chars.decode("latin-1") if isinstance(chars, bytes) else chars
    if not isinstance(s, Sym):
        return s.lstrip(chars) if left else s.rstrip(chars)
    p = core.cur()
    key = ("l" if left else "r") + "".join("%02x" % ord(c) for c in cs)
    F = _STRIP_FUNCS.get(key)
    if F is None:
        F = _STRIP_FUNCS[key] = z3.Function("py_%sstrip_%s" % ("l" if left else "r", key[1:]), z3.StringSort(), z3.StringSort())
    res = F(s.t)
    seen = p.ghost.setdefault("strip_apps", {})
    tag = (key, s.t.get_id())
    if tag not in seen:
        seen[tag] = True
        cut = z3.String(p.fresh_name("strip") + "_cut")
        cre = sym.re_chars(cs)
        notc = sym.re_char_not(cs)
        allc = z3.Range(strval("\x00"), strval(chr(0x2FFFF)))
        p.add(z3.InRe(cut, z3.Star(cre)))
        if left:
            p.add(s.t == z3.Concat(cut, res))
            p.add(z3.InRe(res, z3.Union(z3.Re(strval("")), z3.Concat(notc, z3.Star(allc)))))
        else:
            p.add(s.t == z3.Concat(res, cut))
            p.add(z3.InRe(res, z3.Union(z3.Re(strval("")), z3.Concat(z3.Star(allc), notc))))
    return SStr(res, isb)


def m_lstrip(ip, s, chars=None):
    return _one_sided_strip(ip, s, chars, True)


def m_rstrip(ip, s, chars=None):
    return _one_sided_strip(ip, s, chars, False)


def m_index(ip, s, sub, *rest):
    if rest:
        raise Unsupported("index with start/end")
    _check_kind(s, sub, "index")
    i = z3.IndexOf(to_z3str(s), to_z3str(sub), 0)
    if not branch(i >= 0):
        raise ValueError("substring not found")
    return mkint(i)


def m_find(ip, s, sub, *rest):
    if rest:
        raise Unsupported("find with start/end")
    _check_kind(s, sub, "find")
    return mkint(z3.IndexOf(to_z3str(s), to_z3str(sub), 0))


def m_replace(ip, s, old, new, count=-1):
    _check_kind(s, old, "replace")
    if isinstance(count, Sym):
        raise Unsupported("replace with symbolic count")
    if count == 1:
        return mkstr(z3.Replace(to_z3str(s), to_z3str(old), to_z3str(new)), _isb(s))
    if isinstance(s, SStr) and isinstance(old, (str, bytes)) and isinstance(new, (str, bytes)) and len(old) >= 1:
        from . import shape
        ps = shape.pieces_of(s.t)
        if ps is not None:
            dec = (lambda x: x.decode("latin-1")) if isinstance(old, bytes) else (lambda x: x)
            r = shape.replace_all_char(ps, dec(old), dec(new))
            if r is not shape.UNKNOWN:
                return mkstr(shape.concat(r), _isb(s))      # decided on the structure (exact)
    # replace-all: neither solver decides goals over str.replace_all, so it is an uninterpreted function of its three
    # arguments (equal arguments give equal results) with two lemma instances that are theorems of str.replace:
    # no occurrence of `old` -> unchanged; `old` empty is not modelled
    so, sn = to_z3str(old), to_z3str(new)
    if isinstance(old, (str, bytes)) and len(old) == 0:
        raise Unsupported("replace of the empty string")
    r = _F_REPLACE_ALL(to_z3str(s), so, sn)
    p = core.cur()
    p.add(z3.Implies(z3.Not(z3.Contains(to_z3str(s), so)), r == to_z3str(s)))
    if isinstance(old, (str, bytes)) and isinstance(new, (str, bytes)) and len(new) >= len(old):
        p.add(z3.Length(r) >= z3.Length(to_z3str(s)))
    return mkstr(r, _isb(s))


_F_REPLACE_ALL = z3.Function("py_replace_all", z3.StringSort(), z3.StringSort(), z3.StringSort(), z3.StringSort())


def m_join(ip, sep, items):
    if isinstance(items, sym.SSeq):
        if isinstance(sep, Sym):
            raise Unsupported("symbolic separator")
        if _isb(sep) != items.elem_bytes:
            raise TypeError("sequence item 0: expected %s instance" % ("bytes" if _isb(sep) else "str"))
        return items.joined(sep)
    items = ip.iterate(items)
    isb = _isb(sep)
    for it in items:
        if not is_strlike(it):
            raise TypeError("sequence item: expected %s instance" % ("bytes" if isb else "str"))
        _check_kind(sep, it, "join")
    parts = []
    for i, it in enumerate(items):
        if i:
            parts.append(sep)
        parts.append(it)
    return ip.concat_all(parts, isb)


def m_format(ip, s, *args, **kwargs):
    return ip.format_brace(s, args, kwargs)


def m_count(ip, s, sub, *rest):
    raise Unsupported("count on symbolic string")


F_split_set = z3.Function("py_split_ws_set", z3.StringSort(), z3.ArraySort(z3.StringSort(), z3.BoolSort()))


def m_split(ip, s, *a, **k):
    """s.split() (whitespace) of a symbolic string, usable only through membership: the set of its fields,
    an uninterpreted function of s."""
    if a and a[0] is not None and is_strlike(a[0]) and _isb(a[0]) != _isb(s):
        raise TypeError("a bytes-like object is required, not 'str'" if _isb(s) else "must be str or None, not bytes")
    if isinstance(s, SStr) and not k and len(a) == 2 and a[0] is None and isinstance(a[1], int) and a[1] == 1:
        # s.split(None, 1) of a shaped string: decided on the structure (pyvc/shape.py)
        from . import shape
        ps = shape.pieces_of(s.t)
        if ps is not None:
            ws = " \t\n\r\x0b\x0c" if s.isbytes else None
            if ws is not None:
                r = shape.split_ws_once(ps, ws)
                if r is not shape.UNKNOWN:
                    return [mkstr(shape.concat(x), True) for x in r]
        raise Unsupported("split(None, 1) on a string whose structure does not decide it")
    if isinstance(s, SStr) and not k and len(a) == 1 and isinstance(a[0], (str, bytes)) and len(a[0]) == 1:
        # s.split(c) of a shaped string whose symbolic pieces cannot contain c: decided on the structure
        from . import shape
        ps = shape.pieces_of(s.t)
        if ps is not None:
            c = a[0].decode("latin-1") if isinstance(a[0], bytes) else a[0]
            r = shape.split_char(ps, c)
            if r is not shape.UNKNOWN:
                return [mkstr(shape.concat(x), s.isbytes) for x in r]
    if a or k or not isinstance(s, SStr):
        if core.TRACE:
            print("[pyvc] split not decided on", str(z3.simplify(s.t))[:600] if isinstance(s, SStr) else s, a, flush=True)
        raise Unsupported("split(sep) on symbolic string")
    arr = F_split_set(s.t)
    core.cur().ghost.setdefault("split_apps", []).append((s.t, arr))
    return SSet(arr, arr, None)


def m_splitlines(ip, s, *a, **k):
    if a or k:
        raise Unsupported("splitlines(keepends)")
    if isinstance(s, SStr) and s.isbytes:
        from . import shape
        ps = shape.pieces_of(s.t)
        if ps is not None:
            lines = shape.splitlines_bytes(ps)
            if lines is not shape.UNKNOWN:
                return [mkstr(shape.concat(l), True) for l in lines]
    return sym.s_splitlines(s)


def m_capitalize(ip, s):
    return sym.s_capitalize(s)


def m_isdigit(ip, s):
    return mkbool(z3.InRe(to_z3str(s), z3.Plus(z3.Range(strval("0"), strval("9")))))


STR_METHODS = {
    "startswith": m_startswith, "endswith": m_endswith, "lower": m_lower, "encode": m_encode, "decode": m_decode,
    "strip": m_strip, "lstrip": m_lstrip, "rstrip": m_rstrip, "index": m_index, "find": m_find, "replace": m_replace, "join": m_join, "format": m_format,
    "count": m_count, "split": m_split, "splitlines": m_splitlines, "capitalize": m_capitalize,
}


# ----------------------------------------------------------------------------- list / dict with concrete shape

def list_method(ip, lst, name, args, kwargs):
    from .interp import contains_sym
    if name == "append":
        lst.append(args[0])
        return None
    if name == "extend":
        lst.extend(ip.iterate(args[0]))
        return None
    if name == "insert":
        if isinstance(args[0], Sym):
            raise Unsupported("insert at symbolic index")
        lst.insert(args[0], args[1])
        return None
    if name == "pop":
        if args and isinstance(args[0], Sym):
            raise Unsupported("pop at symbolic index")
        return lst.pop(*args)
    if name == "remove":
        x = args[0]
        for i, c in enumerate(lst):
            if ip.truth(ip.eq(c, x)):
                del lst[i]
                return None
        raise ValueError("list.remove(x): x not in list")
    if name == "index":
        x = args[0]
        if len(args) > 1:
            raise Unsupported("list.index with bounds")
        for i, c in enumerate(lst):
            if ip.truth(ip.eq(c, x)):
                return i
        raise ValueError("x is not in list")
    if name == "count":
        if contains_sym(lst) or contains_sym(list(args)):
            raise Unsupported("list.count symbolic")
        return lst.count(*args)
    if name == "copy":
        return list(lst)
    if name in ("sort", "reverse", "clear"):
        if contains_sym(lst):
            raise Unsupported("list.%s symbolic" % name)
        return getattr(lst, name)(*args, **kwargs)
    raise Unsupported("list method %s" % name)


def dict_method(ip, d, name, args, kwargs):
    if name == "get":
        key = args[0]
        default = args[1] if len(args) > 1 else None
        if isinstance(key, Sym):
            from .interp import _NOKEY
            k = ip.pick_key(d, key)
            return default if k is _NOKEY else d[k]
        if isinstance(key, Opaque):
            return default
        return d.get(key, default)
    if name in ("items", "keys", "values"):
        return list(getattr(d, name)())
    if name == "pop":
        if isinstance(args[0], Sym):
            raise Unsupported("dict.pop symbolic key")
        return d.pop(*args)
    if name == "update":
        d.update(*args, **kwargs)
        return None
    if name == "setdefault":
        if isinstance(args[0], Sym):
            raise Unsupported("dict.setdefault symbolic key")
        return d.setdefault(*args)
    if name == "copy":
        return dict(d)
    raise Unsupported("dict method %s" % name)


def sdict_method(ip, d, name, args, kwargs):
    if name == "get":
        key = args[0]
        default = args[1] if len(args) > 1 else None
        if ip.truth(ip.contains(d, key)):
            return d.entries[key][1]
        return default
    if name == "pop":
        key = args[0]
        if ip.truth(ip.contains(d, key)):
            v = d.entries[key][1]
            d.delete(key)
            return v
        if len(args) > 1:
            return args[1]
        raise KeyError(key)
    raise Unsupported("SDict method %s" % name)
