"""Harness API: functions the interpreted harness/contract code may call.

Every function here is executed natively by CPython (marked _pyvc_native) and
receives symbolic values as they are.
"""
import z3

from . import core, sym
from .sym import SBool, SInt, SStr, SDict, SSet, Opaque, mkbool, to_z3bool, to_z3int, to_z3str


MODE = "sym"          # 'sym': called from the interpreter; 'native': the harness runs under CPython on concrete inputs
NATIVE_INPUTS = {}
NATIVE_LOG = []       # (label, bool) for prove; ('note', ...) for notes
_native_counter = {}


class NativeAssumeFailed(Exception):
    pass


def native_begin(inputs):
    global MODE
    MODE = "native"
    NATIVE_INPUTS.clear()
    NATIVE_INPUTS.update(inputs)
    NATIVE_GHOST.clear()
    del NATIVE_LOG[:]
    _native_counter.clear()


def native_end():
    global MODE
    MODE = "sym"


def _nname(base):
    n = _native_counter.get(base, 0)
    _native_counter[base] = n + 1
    return "%s!%d" % (base, n) if n else base


class _NativeOpaque:
    def __init__(self, name):
        self.name = name

    def __repr__(self):
        return "<opaque %s>" % self.name


def native(f):
    f._pyvc_native = True
    return f


@native
def sym_str(name):
    if MODE == "native":
        return NATIVE_INPUTS.get(_nname(name), "")
    return sym.fresh_str(name, False)


@native
def sym_bytes(name):
    if MODE == "native":
        return NATIVE_INPUTS.get(_nname(name), b"")
    return sym.fresh_str(name, True)


@native
def sym_int(name):
    if MODE == "native":
        return NATIVE_INPUTS.get(_nname(name), 0)
    return sym.fresh_int(name)


@native
def sym_bool(name):
    if MODE == "native":
        return NATIVE_INPUTS.get(_nname(name), False)
    return sym.fresh_bool(name)


@native
def sym_set(name):
    if MODE == "native":
        return list(NATIVE_INPUTS.get(_nname(name), []))
    return sym.fresh_set(name)


@native
def opaque(name, pytype=object):
    if MODE == "native":
        if pytype is list:
            return ["<opaque %s>" % name]
        if pytype is not object and pytype is not None:
            try:
                return pytype(None)
            except Exception:
                return _NativeOpaque(name)
        return _NativeOpaque(name)
    return Opaque(name, pytype)


@native
def sdict(entries):
    """entries: {key: (present, value)}; present may be True/False/SBool"""
    if MODE == "native":
        return {k: v for k, (p, v) in entries.items() if p}
    d = SDict()
    for k, (p, v) in entries.items():
        d.entries[k] = [p.t if isinstance(p, SBool) else p, v]
    return d


def _cond(c):
    if isinstance(c, bool):
        return c
    if isinstance(c, SBool):
        return c.t
    if z3.is_expr(c):
        return c
    raise core.Unsupported("prove/assume of non-boolean %r" % (c,))


@native
def prove(cond, label):
    if MODE == "native":
        NATIVE_LOG.append((label, bool(cond)))
        return bool(cond)
    return core.prove(_cond(cond), label)


@native
def assume(cond):
    if MODE == "native":
        if not cond:
            raise NativeAssumeFailed()
        return
    core.assume(_cond(cond))


@native
def note(*xs):
    if MODE == "native":
        NATIVE_LOG.append(("note",) + tuple(xs))
        return
    core.cur().notes.append(tuple(repr(x) if isinstance(x, (sym.Sym, Opaque)) else x for x in xs))


@native
def implies(a, b):
    if MODE == "native":
        return (not a) or bool(b)
    if a is False:
        return True
    if a is True:
        return b
    if b is True:
        return True
    return mkbool(z3.Implies(_cond(a), _cond(b)))


@native
def both(*cs):
    if MODE == "native":
        return all(cs)
    out = True
    for c in cs:
        if c is False:
            return False
        if c is True:
            continue
        out = c if out is True else mkbool(z3.And(_cond(out), _cond(c)))
    return out


@native
def either(*cs):
    if MODE == "native":
        return any(cs)
    out = False
    for c in cs:
        if c is True:
            return True
        if c is False:
            continue
        out = c if out is False else mkbool(z3.Or(_cond(out), _cond(c)))
    return out


@native
def neg(c):
    if MODE == "native":
        return not c
    if isinstance(c, bool):
        return not c
    return mkbool(z3.Not(_cond(c)))


@native
def is_symbolic(x):
    return isinstance(x, sym.Sym)


@native
def in_re(s, regex):
    if MODE == "native":
        return True   # concrete inputs come from a model of the path condition, which already satisfies the membership
    return mkbool(z3.InRe(to_z3str(s), regex))


NATIVE_GHOST = {}


@native
def ghost():
    if MODE == "native":
        return NATIVE_GHOST
    return core.cur().ghost


@native
def unreachable(label):
    if MODE == "native":
        return
    """vacuity guard: this point must be reachable (recorded, checked by the driver)"""
    core.cur().ex.obligation(label)
    core.cur().ex.obligations[label].paths += 1
    if core.cur().ex.obligations[label].status is None:
        core.cur().ex.obligations[label].status = "reached"


@native
def same(a, b):
    """value identity: object identity for opaque/objects, term equality for symbolic scalars"""
    if MODE == "native":
        return a is b or (type(a) is type(b) and isinstance(a, (str, bytes, int)) and a == b)
    if a is b:
        return True
    if isinstance(a, sym.SStr) and isinstance(b, sym.SStr):
        return a.isbytes == b.isbytes and a.t.eq(b.t)
    if isinstance(a, sym.SInt) and isinstance(b, sym.SInt):
        return a.t.eq(b.t)
    return False
