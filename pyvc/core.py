"""pyvc core: per-path context, branching, obligations, solver portfolio.

A *unit* is a harness function that is executed symbolically by the AST
interpreter (pyvc.interp).  Exploration is by re-execution: every path is run
from scratch following a recorded prefix of branch decisions; at the first new
symbolic branch both sides are checked for feasibility, one is followed and the
other is pushed on the work list.  An obligation (``prove``) is a validity query
under the current path condition.  All paths are explored (loops are either
concretely bounded or cut by an invariant), so "every obligation discharged on
every path" is a proof for all inputs, relative to the encoding assumptions
listed in pyvc.ASSUMPTIONS.
"""
import os
import re
import subprocess
import tempfile
import time

import z3

ASSUMPTIONS = [
    "Python semantics assumed by the encoding: left-to-right evaluation, short-circuit and/or, "
    "truthiness of None/0/empty containers, dict insertion order, str = sequence of code points "
    "(<= U+2FFFF), bytes = sequence of code points 0..255, ints are mathematical integers (exact for Python)",
    "no concurrency, signals or monkey-patching during the verified calls",
    "the symbolic executor pyvc (own code, cross-checked against CPython on every explored path where a "
    "native replay exists, and by refutation canaries)",
]


class Unsupported(BaseException):
    """Construct or library call outside the modelled subset -> UNDECIDED, never a verdict."""


class PathEnd(BaseException):
    """Silently ends the current path (assume(False), invariant cut, ...)."""


class CheckerError(BaseException):
    pass


# ----------------------------------------------------------------------------- strings

def esc(s):
    return "".join(c if (0x20 <= ord(c) <= 0x7E and c != "\\") else "\\u{%x}" % ord(c) for c in s)


def unesc(s):
    return re.sub(r"\\u\{([0-9a-fA-F]+)\}", lambda m: chr(int(m.group(1), 16)), s)


_STRVAL_CACHE = {}


def strval(s):
    if isinstance(s, (bytes, bytearray)):
        s = bytes(s).decode("latin-1")
    v = _STRVAL_CACHE.get(s)
    if v is None:
        v = _STRVAL_CACHE[s] = z3.StringVal(esc(s))
    return v


# ----------------------------------------------------------------------------- solver portfolio

TRACE = bool(os.environ.get("PYVC_TRACE"))
Z3_TIMEOUT_MS = int(os.environ.get("PYVC_Z3_TIMEOUT_MS", "20000"))      # last-resort budget
Z3_QUICK_MS = int(os.environ.get("PYVC_Z3_QUICK_MS", "1500"))           # first attempt, before cvc5 is asked
CVC5_TIMEOUT_S = int(os.environ.get("PYVC_CVC5_TIMEOUT_S", "30"))
UNIT_BUDGET_S = int(os.environ.get("PYVC_UNIT_BUDGET_S", "300"))         # wall-clock budget of one unit (all its paths)
CVC5 = "/usr/bin/cvc5"

STATS = {"z3_queries": 0, "z3_time": 0.0, "cvc5_queries": 0, "cvc5_time": 0.0, "unknown": 0}


def _cvc5_check(assertions):
    """Ask cvc5 (CLI, --strings-exp) about the conjunction; returns 'sat'/'unsat'/'unknown'."""
    s = z3.Solver()
    for a in assertions:
        s.add(a)
    text = s.to_smt2()
    # z3 prints (set-info ...) and uses String/Seq syntax cvc5 mostly accepts
    text = "(set-logic ALL)\n" + text
    t0 = time.time()
    STATS["cvc5_queries"] += 1
    try:
        with tempfile.NamedTemporaryFile("w", suffix=".smt2", delete=False) as f:
            f.write(text)
            name = f.name
        try:
            out = subprocess.run(
                [CVC5, "--strings-exp", "--tlimit=%d" % (CVC5_TIMEOUT_S * 1000), name],
                capture_output=True, text=True, timeout=CVC5_TIMEOUT_S + 5,
            )
            ans = out.stdout.strip().split("\n")[0] if out.stdout.strip() else "unknown"
        finally:
            os.unlink(name)
    except Exception:
        ans = "unknown"
    STATS["cvc5_time"] += time.time() - t0
    if ans not in ("sat", "unsat"):
        ans = "unknown"
    return ans


def _cvc5_model(assertions, inputs):
    """counter-model from cvc5 for the registered scalar inputs ({name: value}) or None"""
    s = z3.Solver()
    for a in assertions:
        s.add(a)
    names = [n for n, (c, kind) in inputs.items() if kind in ("str", "bytes", "int", "bool")]
    if not names:
        return None
    text = "(set-logic ALL)\n(set-option :produce-models true)\n" + s.to_smt2()
    consts = " ".join(inputs[n][0].sexpr() for n in names)
    text += "\n(get-value (%s))\n" % consts
    try:
        with tempfile.NamedTemporaryFile("w", suffix=".smt2", delete=False) as f:
            f.write(text)
            name = f.name
        try:
            out = subprocess.run([CVC5, "--strings-exp", "--strings-fmf", "--tlimit=%d" % (CVC5_TIMEOUT_S * 1000), name],
                                 capture_output=True, text=True, timeout=CVC5_TIMEOUT_S + 5).stdout
        finally:
            os.unlink(name)
    except Exception:
        return None
    if not out.startswith("sat"):
        return None
    model = {}
    body = out[out.index("\n") + 1:]
    for n in names:
        c, kind = inputs[n]
        sx = c.sexpr()
        m = re.search(r"\(%s\s+(\"(?:[^\"]|\"\")*\"|\(- \d+\)|-?\d+|true|false)\)" % re.escape(sx), body)
        if not m:
            continue
        v = m.group(1)
        if kind in ("str", "bytes"):
            sv = unesc(v[1:-1].replace('""', '"'))
            model[n] = sv.encode("latin-1", errors="replace") if kind == "bytes" else sv
        elif kind == "int":
            model[n] = -int(v[3:-1]) if v.startswith("(") else int(v)
        else:
            model[n] = v == "true"
    return model or None


class Obligation:
    __slots__ = ("label", "status", "paths", "fail", "backend", "time", "note")

    def __init__(self, label):
        self.label = label
        self.status = None  # 'discharged' | 'refuted' | 'undecided'
        self.paths = 0
        self.fail = None  # dict(model=..., path=..., detail=...)
        self.backend = set()
        self.time = 0.0
        self.note = ""


class Path:
    """Per-path state."""

    def __init__(self, exploration, prefix):
        self.ex = exploration
        self.prefix = prefix
        self.trace = []
        self.solver = z3.Solver()
        self.solver.set("timeout", Z3_QUICK_MS)
        seed = int(os.environ.get("VERIF_SEED", "0") or 0) % (2 ** 30)
        self.solver.set("random_seed", seed)
        self.pc = []
        self.counter = {}
        self.inputs = {}  # name -> (z3 const, kind)
        self.journal = []  # undo actions for shared objects
        self.notes = []  # path signature events (for CPython cross-check)
        self.ghost = {}
        self.failed = []  # labels refuted on this path

    def fresh_name(self, base):
        n = self.counter.get(base, 0)
        self.counter[base] = n + 1
        return "%s!%d" % (base, n) if n else base

    def add(self, cond):
        self.pc.append(cond)
        self.solver.add(cond)

    def check(self, extra=None):
        """sat / unsat / unknown of pc (and extra)."""
        t0 = time.time()
        if t0 - self.ex.t_start > UNIT_BUDGET_S:
            raise Unsupported("time budget of the unit exhausted (%d s): undecided, never a verdict" % UNIT_BUDGET_S)
        STATS["z3_queries"] += 1
        if extra is not None:
            self.solver.push()
            self.solver.add(extra)
        r = self.solver.check()
        if extra is not None:
            self.solver.pop()
        STATS["z3_time"] += time.time() - t0
        if TRACE and time.time() - t0 > 1.0:
            print("[pyvc] slow branch query %.1fs -> %s (pc size %d)" % (time.time() - t0, r, len(self.pc)), flush=True)
        if r == z3.sat:
            return "sat"
        if r == z3.unsat:
            return "unsat"
        # second opinion
        if os.environ.get("PYVC_DEBUG_UNKNOWN"):
            sys_s = z3.Solver()
            for a in self.pc + ([extra] if extra is not None else []):
                sys_s.add(a)
            with open("/tmp/unknown_%d.smt2" % STATS["unknown"], "w") as f:
                f.write(sys_s.to_smt2())
        ans = _cvc5_check(self.pc + ([extra] if extra is not None else []))
        if ans == "unknown":
            STATS["unknown"] += 1
        return ans

    def model(self, extra=None):
        """A model of pc (and extra) as {input name: concrete value}, refined so that the
        uninterpreted library functions take their real values where that is satisfiable."""
        self.solver.push()
        try:
            if extra is not None:
                self.solver.add(extra)
            r = self.solver.check()
            if r != z3.sat:
                return None
            m = self.solver.model()
            # preference: printable ASCII values for the string inputs where the path allows it (uninterpreted library
            # functions such as the UTF-8 codec are pinned to their real values on ASCII, so such a model replays natively)
            pref = z3.Star(z3.Range(strval(" "), strval("~")))
            for name, (const, kind) in self.inputs.items():
                if kind in ("str", "bytes"):
                    self.solver.push()
                    self.solver.add(z3.InRe(const, pref))
                    ok = self.solver.check() == z3.sat
                    if ok:
                        m = self.solver.model()
                    self.solver.pop()
                    if ok:
                        self.solver.add(z3.InRe(const, pref))
            # refinement: make the uninterpreted library functions (lower, capitalize) agree with CPython
            # on the chosen arguments, later applications first (they constrain the earlier ones)
            pyf = {"lower": lambda v: v.lower(), "capitalize": lambda v: v.capitalize()}
            inv = {"lower": lambda rv: (rv, rv.upper(), rv.capitalize(), rv.title(), rv.swapcase()),
                   "capitalize": lambda rv: (rv.lower(), rv, rv.upper())}
            apps = list(self.ghost.get("uf_apps", []))[-8:]
            for (fname, xt, rt) in reversed(apps):
                f = pyf[fname]
                try:
                    rv = unesc(m.eval(rt, model_completion=True).as_string())
                    xv = unesc(m.eval(xt, model_completion=True).as_string())
                except Exception:
                    continue
                cands = [xv] if f(xv) == rv else []
                cands += [c for c in inv[fname](rv) if f(c) == rv and c not in cands]
                done = False
                for cand in cands:
                    self.solver.push()
                    self.solver.add(xt == strval(cand))
                    self.solver.add(rt == strval(rv))
                    if self.solver.check() == z3.sat:
                        m = self.solver.model()
                        self.solver.pop()
                        self.solver.add(xt == strval(cand))
                        self.solver.add(rt == strval(rv))
                        done = True
                        break
                    self.solver.pop()
                if not done:
                    # x keeps its value, f(x) takes the real one
                    self.solver.push()
                    self.solver.add(xt == strval(xv))
                    self.solver.add(rt == strval(f(xv)))
                    if self.solver.check() == z3.sat:
                        m = self.solver.model()
                        self.solver.pop()
                        self.solver.add(xt == strval(xv))
                        self.solver.add(rt == strval(f(xv)))
                    else:
                        self.solver.pop()
            # refinement of str.split(): choose the split string as the join of the names the model puts in the set
            for (st, arr) in self.ghost.get("split_apps", [])[:4]:
                qs = self.ghost.get("set_queries_by_id", {}).get(arr.get_id(), [])
                try:
                    vals = []
                    for q in qs:
                        qv = unesc(m.eval(q, model_completion=True).as_string())
                        if qv not in [v for v, _ in vals]:
                            vals.append((qv, z3.is_true(m.eval(z3.Select(arr, q), model_completion=True))))
                except Exception:
                    continue
                if any((" " in v or v == "") for v, _ in vals):
                    continue
                cand = " ".join(v for v, inside in vals if inside)
                self.solver.push()
                self.solver.add(st == strval(cand))
                for v, inside in vals:
                    self.solver.add(z3.Select(arr, strval(v)) == z3.BoolVal(inside))
                if self.solver.check() == z3.sat:
                    m = self.solver.model()
                    self.solver.pop()
                    self.solver.add(st == strval(cand))
                else:
                    self.solver.pop()
            out = {}
            for name, (const, kind) in self.inputs.items():
                if kind == "set":
                    members = []
                    for xt in self.ghost.get("set_queries", {}).get(name, []):
                        try:
                            if z3.is_true(m.eval(z3.Select(const, xt), model_completion=True)):
                                v = unesc(m.eval(xt, model_completion=True).as_string())
                                if v not in members:
                                    members.append(v)
                        except Exception:
                            pass
                    out[name] = members
                else:
                    out[name] = model_value(m, const, kind)
            return out
        finally:
            self.solver.pop()


def model_value(m, const, kind):
    v = m.eval(const, model_completion=True)
    if kind in ("str", "bytes"):
        s = unesc(v.as_string())
        if kind == "bytes":
            return s.encode("latin-1", errors="replace")
        return s
    if kind == "int":
        return v.as_long()
    if kind == "bool":
        return z3.is_true(v)
    return str(v)


CUR = None  # the current Path


def cur():
    if CUR is None:
        raise CheckerError("no current path")
    return CUR


def branch(cond):
    """Decide a symbolic boolean; forks the exploration when both sides are feasible."""
    p = cur()
    c = z3.simplify(cond)
    if z3.is_true(c):
        return True
    if z3.is_false(c):
        return False
    i = len(p.trace)
    if i < len(p.prefix):
        d = p.prefix[i]
        if not isinstance(d, bool):
            raise CheckerError("trace desynchronised: expected a recorded branch decision")
        p.trace.append(d)
        p.add(c if d else z3.Not(c))
        return d
    rt = p.check(c)
    rf = p.check(z3.Not(c))
    t_ok = rt != "unsat"
    f_ok = rf != "unsat"
    if rt == "unknown" or rf == "unknown":
        p.ex.unknown_branches += 1
    if t_ok and f_ok:
        p.ex.push(p.trace + [False])
        d = True
    elif t_ok:
        d = True
    elif f_ok:
        d = False
    else:
        # path condition itself is infeasible: end silently
        raise PathEnd()
    p.trace.append(d)
    p.prefix = p.prefix  # unchanged
    p.add(c if d else z3.Not(c))
    return d


def choose(compute):
    """A non-boolean choice made during exploration (e.g. which feasible dict key to try first).  It is
    recorded in the trace so that re-execution of a prefix repeats it exactly."""
    p = cur()
    i = len(p.trace)
    if i < len(p.prefix):
        d = p.prefix[i]
        if not (isinstance(d, tuple) and d[0] == "pick"):
            raise CheckerError("trace desynchronised: expected a recorded choice")
        p.trace.append(d)
        return d[1]
    v = compute()
    p.trace.append(("pick", v))
    return v


def assume(cond):
    p = cur()
    if isinstance(cond, bool):
        if not cond:
            raise PathEnd()
        return
    c = z3.simplify(cond)
    if z3.is_true(c):
        return
    from . import shape
    shape.record_class_fact(p, cond)
    p.add(c)
    if z3.is_false(c) or p.check() == "unsat":
        raise PathEnd()


def _consts_of(e, cache):
    """uninterpreted constants (arity 0) occurring in e"""
    k = e.get_id()
    r = cache.get(k)
    if r is not None:
        return r[1]
    out = set()
    stack = [e]
    seen = set()
    while stack:
        x = stack.pop()
        i = x.get_id()
        if i in seen:
            continue
        seen.add(i)
        if z3.is_app(x):
            if x.num_args() == 0 and x.decl().kind() == z3.Z3_OP_UNINTERPRETED:
                out.add(x.decl().name())
            for c in x.children():
                stack.append(c)
        elif z3.is_quantifier(x):
            stack.append(x.body())
    cache[k] = (e, out)     # the term is kept alive with its entry: ids of freed terms are reused by z3
    return out


_CONST_CACHE = {}


def relevant_slice(pc, goal):
    """conjuncts of pc connected to the goal through shared constants (dropping assumptions is sound for validity)"""
    want = set(_consts_of(goal, _CONST_CACHE))
    sets = [(_consts_of(c, _CONST_CACHE), c) for c in pc]
    chosen = [False] * len(sets)
    changed = True
    while changed:
        changed = False
        for i, (cs, c) in enumerate(sets):
            if not chosen[i] and (cs & want):
                chosen[i] = True
                want |= cs
                changed = True
    return [c for i, (cs, c) in enumerate(sets) if chosen[i]]


def prove(cond, label, detail=None):
    """Obligation: cond is valid under the current path condition."""
    p = cur()
    ob = p.ex.obligation(label)
    ob.paths += 1
    t0 = time.time()
    # an obligation at the same program point under the same decision prefix has the same path condition:
    # re-executions of a prefix reuse the verdict instead of asking the solvers again
    key = (label, tuple(p.trace), p.counter.get("$prove:" + label, 0))
    p.counter["$prove:" + label] = key[2] + 1
    hit = p.ex.prove_cache.get(key)
    if hit is not None:
        if hit == "unsat":
            return True
        if hit == "sat":
            p.failed.append(label)
        return False
    res = _prove_uncached(p, ob, cond, label, detail, t0)
    p.ex.prove_cache[key] = res
    return res == "unsat"


def _prove_uncached(p, ob, cond, label, detail, t0):
    if isinstance(cond, bool):
        res = "unsat" if cond else "sat"
        neg = None
        ob.backend.add("evaluation")
    else:
        c = z3.simplify(cond)
        if z3.is_true(c):
            res, neg = "unsat", None
            ob.backend.add("simplifier")
        else:
            neg = z3.Not(c)
            res = None
    if res is None:
        STATS["z3_queries"] += 1
        p.solver.push()
        p.solver.add(neg)
        r = p.solver.check()
        p.solver.pop()
        if r == z3.unsat:
            res = "unsat"
            ob.backend.add("z3-%s" % z3.get_version_string())
        elif r == z3.sat:
            res = "sat"
            ob.backend.add("z3-%s" % z3.get_version_string())
        else:
            # z3 said unknown: retry on the cone of influence of the goal (sound: fewer assumptions), then cvc5
            sl = relevant_slice(p.pc, neg)
            res = None
            if len(sl) < len(p.pc):
                s2 = z3.Solver()
                s2.set("timeout", Z3_QUICK_MS)
                for a in sl:
                    s2.add(a)
                s2.add(neg)
                STATS["z3_queries"] += 1
                if s2.check() == z3.unsat:
                    res = "unsat"
                    ob.backend.add("z3-%s(sliced)" % z3.get_version_string())
            if res is None:
                res = _cvc5_check(sl + [neg])
                if res == "sat" and len(sl) < len(p.pc):
                    res = "unknown"   # a model of the slice need not satisfy the full path condition
                    r2 = _cvc5_check(p.pc + [neg])
                    res = r2
                ob.backend.add("cvc5-cli")
                if res == "unknown":
                    s3 = z3.Solver()
                    s3.set("timeout", Z3_TIMEOUT_MS)
                    for a in sl:
                        s3.add(a)
                    s3.add(neg)
                    STATS["z3_queries"] += 1
                    if s3.check() == z3.unsat:
                        res = "unsat"
                        ob.backend.add("z3-%s(sliced,long)" % z3.get_version_string())
    ob.time += time.time() - t0
    if TRACE and time.time() - t0 > 1.0:
        print("[pyvc] slow obligation %s %.1fs -> %s %s" % (label, time.time() - t0, res, sorted(ob.backend)), flush=True)
    if res == "unsat":
        if ob.status is None:
            ob.status = "discharged"
        return "unsat"
    if res == "sat":
        p.failed.append(label)
        if ob.status != "refuted":
            ob.status = "refuted"
            mdl = p.model(neg) if neg is not None else p.model()
            if mdl is None and neg is not None:
                mdl = _cvc5_model(p.pc + [neg], p.inputs)
            ob.fail = {
                "model": mdl,
                "trace": list(p.trace),
                "detail": detail() if callable(detail) else detail,
                "notes": list(p.notes),
            }
        return "sat"
    if ob.status in (None, "discharged"):
        ob.status = "undecided"
        ob.note = "solver returned unknown"
    return "unknown"


class Exploration:
    def __init__(self, name, max_paths=200000):
        self.name = name
        self.work = [[]]
        self.obligations = {}
        self.paths = 0
        self.ended = 0
        self.unknown_branches = 0
        self.unsupported = []
        self.max_paths = max_paths
        self.prove_cache = {}
        self.path_models = []  # sampled (trace, model, notes) for CPython cross-check
        self.sample_models = False
        self.sample_limit = 64
        self.t_start = time.time()

    def push(self, prefix):
        self.work.append(prefix)

    def obligation(self, label):
        ob = self.obligations.get(label)
        if ob is None:
            ob = self.obligations[label] = Obligation(label)
        return ob

    def run(self, fn):
        """fn(path) executes the harness once under the current path."""
        global CUR
        while self.work:
            prefix = self.work.pop()
            if self.paths >= self.max_paths:
                self.unsupported.append("path budget exhausted (%d)" % self.max_paths)
                break
            if time.time() - self.t_start > UNIT_BUDGET_S:
                self.unsupported.append("time budget of the unit exhausted (%d s): undecided, never a verdict" % UNIT_BUDGET_S)
                break
            p = Path(self, prefix)
            CUR = p
            self.paths += 1
            try:
                fn(p)
                if self.sample_models and len(self.path_models) < self.sample_limit:
                    self.path_models.append((list(p.trace), p.model(), list(p.notes), list(p.failed)))
            except PathEnd:
                self.ended += 1
            except Unsupported as e:
                self.unsupported.append(str(e))
            finally:
                for undo in reversed(p.journal):
                    undo()
                CUR = None
        return self
