"""Locate the real functions: the verified text is re-read from disk on every run."""
import ast
import hashlib
import importlib
import os
import sys

REPO = os.environ.get("SIEVELIB_REPO", "/repo")


def ensure_repo_on_path():
    if REPO not in sys.path:
        sys.path.insert(0, REPO)
    # the imported package must be the one under REPO
    import sievelib

    f = os.path.realpath(sievelib.__file__)
    if not f.startswith(os.path.realpath(REPO) + os.sep):
        raise RuntimeError("sievelib imported from %s, expected under %s" % (f, REPO))


class FuncInfo:
    __slots__ = ("node", "module", "qualname", "cls", "file", "src_hash", "loops")

    def __init__(self, node, module, qualname, cls, file, src_hash):
        self.node = node
        self.module = module
        self.qualname = qualname
        self.cls = cls  # innermost enclosing class name (for private-name mangling)
        self.file = file
        self.src_hash = src_hash
        self.loops = None


class SourceIndex:
    """(module name, qualname) -> FuncInfo for every def in the tracked modules."""

    def __init__(self):
        self.funcs = {}
        self.files = {}
        self.trees = {}
        self.tracked_prefixes = ()
        self.dropped = set()  # what extraction drops: docstrings, annotations (recorded for evidence)

    def add_module(self, modname):
        mod = importlib.import_module(modname)
        path = mod.__file__
        with open(path, "rb") as f:
            data = f.read()
        tree = ast.parse(data, filename=path)
        self.files[modname] = (path, hashlib.sha256(data).hexdigest()[:16])
        self.trees[modname] = tree
        src_lines = data.decode("utf-8").splitlines()

        def visit(node, prefix, cls):
            for ch in ast.iter_child_nodes(node):
                if isinstance(ch, (ast.FunctionDef, ast.AsyncFunctionDef)):
                    q = prefix + ch.name
                    seg = "\n".join(src_lines[ch.lineno - 1: ch.end_lineno])
                    h = hashlib.sha256(seg.encode()).hexdigest()[:12]
                    self.funcs[(modname, q)] = FuncInfo(ch, modname, q, cls, path, h)
                    visit(ch, q + ".<locals>.", cls)
                elif isinstance(ch, ast.ClassDef):
                    visit(ch, prefix + ch.name + ".", ch.name)
                elif isinstance(ch, (ast.If, ast.Try, ast.With, ast.For, ast.While)):
                    visit(ch, prefix, cls)

        visit(tree, "", None)
        return mod

    def lookup(self, fn):
        """FuncInfo for a Python function object, or None if not tracked."""
        mod = getattr(fn, "__module__", None)
        q = getattr(fn, "__qualname__", None)
        info = self.funcs.get((mod, q))
        if info is None:
            return None
        code = getattr(fn, "__code__", None)
        if code is not None and os.path.realpath(code.co_filename) != os.path.realpath(info.file):
            return None
        return info

    def get(self, modname, qualname):
        return self.funcs[(modname, qualname)]


def loops_of(funcnode):
    """Loops of a function in source order (ordinal = index), not descending into nested defs."""
    out = []

    def visit(n):
        for ch in ast.iter_child_nodes(n):
            if isinstance(ch, (ast.FunctionDef, ast.AsyncFunctionDef, ast.Lambda, ast.ClassDef)):
                continue
            if isinstance(ch, (ast.For, ast.While)):
                out.append(ch)
            visit(ch)

    visit(funcnode)
    return out


def assigned_names(nodes):
    """Names stored to anywhere inside the given statements (not nested defs)."""
    names = set()

    def visit(n):
        if isinstance(n, (ast.FunctionDef, ast.Lambda, ast.ClassDef)):
            return
        if isinstance(n, ast.Name) and isinstance(n.ctx, (ast.Store, ast.Del)):
            names.add(n.id)
        for ch in ast.iter_child_nodes(n):
            visit(ch)

    for n in nodes:
        visit(n)
    return names
