"""AST interpreter over mixed concrete/symbolic values (the VC generator).

Concrete values are ordinary Python objects handled by CPython itself; symbolic
values are pyvc.sym objects.  Functions of tracked modules (the repository and
the sidecar contract modules) are always interpreted from their AST, never run
natively.  A callee with a registered contract is replaced by the contract
(modular verification).
"""
import ast
import builtins
import re
import types

import z3

from . import core, sym
from .core import Unsupported, PathEnd, branch, prove, assume
from .sym import (Sym, SBool, SInt, SStr, SDict, SSet, Opaque, mkbool, mkint, mkstr, to_z3str, to_z3int,
                  to_z3bool, is_strlike, pytype_of, strval)
from .source import loops_of, assigned_names


class _Return(BaseException):
    def __init__(self, v):
        self.v = v


class _Break(BaseException):
    pass


class _Continue(BaseException):
    pass


_NOKEY = object()


class Undefined:
    """Value of a havocked local for which the loop spec gave no type: any use is Unsupported."""

    def __init__(self, name):
        self.name = name

    def __repr__(self):
        return "<undefined %s>" % self.name


class IFunction:
    """Closure created by interpreted code (nested def / lambda)."""

    def __init__(self, node, frame, name):
        self.node = node
        self.frame = frame
        self.__name__ = name


class Frame:
    __slots__ = ("locals", "globals", "cls", "qualname", "module", "outer", "info")

    def __init__(self, globals_, cls, qualname, module, outer=None, info=None):
        self.locals = {}
        self.globals = globals_
        self.cls = cls
        self.qualname = qualname
        self.module = module
        self.outer = outer
        self.info = info


class LoopSpec:
    """Invariant for one loop of a real function, keyed by (module, qualname, ordinal).

    invariant(L) is an interpreted predicate over a view L of the loop frame's locals;
    havoc maps each local assigned in the body to a constructor of a fresh value
    ('int' | 'str' | 'bytes' | 'bool' | callable(name) -> value); heap(frame) havocs the
    heap/ghost locations the body may modify.  header is the fingerprint of the loop
    header source: a mismatch makes the obligation UNDECIDED rather than applying a stale
    invariant.
    """

    def __init__(self, invariant, havoc=None, heap=None, header=None, label=None, decreases=None):
        self.invariant = invariant
        self.havoc = havoc or {}
        self.heap = heap
        self.header = header
        self.label = label
        self.decreases = decreases


class LoopSummary:
    """Replace a loop of a real function by its proven effect (the loop's own proof obligation lives elsewhere and is
    named in `proved_by`).  effect(L) assigns the loop's outputs (locals through L, heap directly) or raises."""

    def __init__(self, effect, header=None, proved_by=""):
        self.effect = effect
        self.header = header
        self.proved_by = proved_by


class NS:
    """attribute view over a dict (used to hand loop locals to invariants)."""

    def __init__(self, d):
        object.__setattr__(self, "_d", d)

    def __getattr__(self, k):
        try:
            return self._d[k]
        except KeyError:
            raise AttributeError(k)

    def __setattr__(self, k, v):
        self._d[k] = v


def contains_sym(v, depth=0):
    if isinstance(v, (Sym, Opaque, Undefined)):
        return True
    if depth > 4:
        return False
    if isinstance(v, (list, tuple, set, frozenset)):
        return any(contains_sym(x, depth + 1) for x in v)
    if isinstance(v, dict):
        return any(contains_sym(x, depth + 1) for x in v.values()) or any(contains_sym(x, depth + 1) for x in v.keys())
    return False


_FMT_SPEC = None


class Interp:
    def __init__(self, index, tracked_prefixes=("sievelib",)):
        self.index = index
        self.tracked = tuple(tracked_prefixes)
        self.fn_contracts = {}      # python function object (id) -> handler(interp, args, kwargs)
        self.name_contracts = {}    # (module, qualname) -> handler
        self.method_name_contracts = {}  # (class, attribute name) -> handler, for decorated methods
        self.loop_specs = {}        # (module, qualname, ordinal) -> LoopSpec
        self.yield_handler = None   # callable(value) for generators under contract; default: eager collection
        self.inlined = set()        # qualnames interpreted (for evidence)
        self.contract_uses = {}     # qualname -> count
        self.native_calls = set()
        self.frozen_ids = {}        # id(obj) -> description, for shared table objects
        self.depth = 0
        self.max_depth = 60
        self.on_call = None         # optional hook(qualname, args) for logging
        self.shared_store_log = []  # stores to shared (class/module) state seen on this path

    # ------------------------------------------------------------------ tracked?
    def is_tracked_module(self, modname):
        return modname is not None and any(modname == p or modname.startswith(p + ".") for p in self.tracked)

    def func_info(self, fn):
        if not isinstance(fn, types.FunctionType):
            return None
        mod = getattr(fn, "__module__", None)
        if not self.is_tracked_module(mod):
            return None
        if mod not in self.index.files:
            self.index.add_module(mod)   # tracked modules are indexed on demand: their code never runs natively
        info = self.index.lookup(fn)
        if info is None and not getattr(fn, "_pyvc_native", False):
            raise Unsupported("function %s.%s of a tracked module has no source in the index" % (mod, fn.__qualname__))
        return info

    # ------------------------------------------------------------------ truth / branching
    def truth(self, v):
        if isinstance(v, bool) or v is None:
            return bool(v)
        if isinstance(v, SBool):
            return branch(v.t)
        if isinstance(v, SInt):
            return branch(v.t != 0)
        if isinstance(v, SStr):
            return branch(z3.Length(v.t) > 0)
        if isinstance(v, SSet):
            raise Unsupported("truth of symbolic set")
        if isinstance(v, SDict):
            raise Unsupported("truth of symbolic dict")
        if hasattr(v, "__pyvc_truth__"):
            return self.truth(v.__pyvc_truth__())
        if isinstance(v, (Opaque, Undefined)):
            if isinstance(v, Opaque) and v.pytype not in (list, dict, str, bytes, int, tuple, bool):
                return True
            raise Unsupported("truth of %r" % (v,))
        if isinstance(v, (int, float, str, bytes, list, tuple, dict, set, frozenset, range)):
            return bool(v)
        cls = type(v)
        if self.is_tracked_module(getattr(cls, "__module__", None)):
            for k in cls.__mro__:
                if "__bool__" in k.__dict__ or "__len__" in k.__dict__:
                    if k is object:
                        break
                    raise Unsupported("truthiness through %s.__bool__/__len__" % k.__name__)
            return True
        return bool(v)

    # ------------------------------------------------------------------ comparison
    def eq(self, a, b):
        """a == b as a value (True/False/SBool)."""
        if isinstance(a, Undefined) or isinstance(b, Undefined):
            raise Unsupported("use of havocked local without declared type")
        if a is b and not isinstance(a, float):
            return True
        if isinstance(a, Opaque) or isinstance(b, Opaque):
            if isinstance(a, Opaque) and isinstance(b, Opaque):
                return a is b
            other = b if isinstance(a, Opaque) else a
            if other is None:
                return False
            if pytype_of(other) is not (a if isinstance(a, Opaque) else b).pytype:
                return False
            raise Unsupported("equality on opaque value")
        if hasattr(a, "__pyvc_eq__"):
            return a.__pyvc_eq__(self, b)
        if hasattr(b, "__pyvc_eq__"):
            return b.__pyvc_eq__(self, a)
        sa, sb = isinstance(a, Sym), isinstance(b, Sym)
        if not sa and not sb:
            if isinstance(a, (list, tuple)) and type(a) is type(b) and (contains_sym(a) or contains_sym(b)):
                if len(a) != len(b):
                    return False
                acc = True
                for x, y in zip(a, b):
                    acc = self.and_(acc, self.eq(x, y))
                    if acc is False:
                        return False
                return acc
            if isinstance(a, dict) and isinstance(b, dict) and (contains_sym(a) or contains_sym(b)):
                if set(a.keys()) != set(b.keys()) or contains_sym(list(a.keys())):
                    if contains_sym(list(a.keys())) or contains_sym(list(b.keys())):
                        raise Unsupported("equality of dicts with symbolic keys")
                    return False
                acc = True
                for k in a:
                    acc = self.and_(acc, self.eq(a[k], b[k]))
                    if acc is False:
                        return False
                return acc
            if contains_sym(a) or contains_sym(b):
                if type(a) is not type(b):
                    return False
                raise Unsupported("equality of containers with symbolic content: %r %r" % (type(a), type(b)))
            return a == b
        ta, tb = pytype_of(a), pytype_of(b)
        if ta in (bool, int) and tb in (bool, int):
            if isinstance(a, SBool) and isinstance(b, (SBool, bool)) and tb is bool:
                return mkbool(to_z3bool(a) == to_z3bool(b))
            if isinstance(b, SBool) and isinstance(a, bool):
                return mkbool(to_z3bool(a) == to_z3bool(b))
            return mkbool(to_z3int(a) == to_z3int(b))
        if ta is not tb:
            return False
        if ta in (str, bytes):
            return mkbool(to_z3str(a) == to_z3str(b))
        raise Unsupported("equality on %s" % ta)

    def not_(self, v):
        if isinstance(v, SBool):
            return mkbool(z3.Not(v.t))
        if isinstance(v, bool):
            return not v
        return not self.truth(v)

    def and_(self, a, b):
        if a is False or b is False:
            return False
        if a is True:
            return b
        if b is True:
            return a
        return mkbool(z3.And(to_z3bool(a), to_z3bool(b)))

    def or_(self, a, b):
        if a is True or b is True:
            return True
        if a is False:
            return b
        if b is False:
            return a
        return mkbool(z3.Or(to_z3bool(a), to_z3bool(b)))

    def contains(self, container, x):
        """x in container"""
        if isinstance(container, Undefined) or isinstance(x, Undefined):
            raise Unsupported("use of havocked local without declared type")
        if hasattr(container, "__pyvc_contains__"):
            return container.__pyvc_contains__(self, x)
        if isinstance(container, SSet):
            return container.contains(x)
        if isinstance(container, SDict):
            p = container.present(x)
            return p if isinstance(p, bool) else mkbool(p)
        if isinstance(container, (list, tuple, set, frozenset)) or isinstance(container, type({}.keys())):
            if not isinstance(x, Sym) and not contains_sym(container):
                if isinstance(x, Opaque):
                    return any(x is c for c in container)
                return x in container
            acc = False
            for c in container:
                acc = self.or_(acc, self.eq(c, x))
                if acc is True:
                    return True
            return acc
        if isinstance(container, dict):
            if isinstance(x, Sym):
                acc = False
                for c in container.keys():
                    acc = self.or_(acc, self.eq(c, x))
                return acc
            if isinstance(x, Opaque):
                return False
            return x in container
        if is_strlike(container):
            if not is_strlike(x):
                if sym.is_bytes(container) and pytype_of(x) is int:
                    raise Unsupported("int in bytes")
                raise TypeError("'in <string>' requires string as left operand")
            if not isinstance(container, Sym) and not isinstance(x, Sym):
                return x in container
            if isinstance(x, (str, bytes)) and len(x) == 1:
                ch = x.decode("latin-1") if isinstance(x, bytes) else x
                from . import shape
                ps = shape.pieces_of(to_z3str(container))
                if ps is not None:
                    r = shape.contains_char(ps, ch)
                    if r is not shape.UNKNOWN:
                        return r
                return mkbool(z3.Not(z3.InRe(to_z3str(container), z3.Star(sym.re_char_not(ch)))))
            return mkbool(z3.Contains(to_z3str(container), to_z3str(x)))
        cls = type(container)
        m = self._find_dunder(cls, "__contains__")
        if m is not None:
            return self.call(m, [container, x], {})
        if isinstance(container, Opaque):
            raise Unsupported("membership in opaque value")
        return x in container

    def _find_dunder(self, cls, name):
        for k in cls.__mro__:
            if name in k.__dict__:
                f = k.__dict__[name]
                if isinstance(f, types.FunctionType) and self.func_info(f) is not None:
                    return f
                return None
        return None

    def compare(self, op, a, b):
        if isinstance(op, ast.Eq):
            return self.eq(a, b)
        if isinstance(op, ast.NotEq):
            return self.not_(self.eq(a, b))
        if isinstance(op, ast.Is):
            return self.is_(a, b)
        if isinstance(op, ast.IsNot):
            return self.not_(self.is_(a, b))
        if isinstance(op, ast.In):
            return self.contains(b, a)
        if isinstance(op, ast.NotIn):
            return self.not_(self.contains(b, a))
        if isinstance(a, Undefined) or isinstance(b, Undefined):
            raise Unsupported("use of havocked local without declared type")
        if isinstance(a, Sym) or isinstance(b, Sym):
            if pytype_of(a) in (int, bool) and pytype_of(b) in (int, bool):
                x, y = to_z3int(a), to_z3int(b)
                if isinstance(op, ast.Lt):
                    return mkbool(x < y)
                if isinstance(op, ast.LtE):
                    return mkbool(x <= y)
                if isinstance(op, ast.Gt):
                    return mkbool(x > y)
                if isinstance(op, ast.GtE):
                    return mkbool(x >= y)
            raise Unsupported("ordered comparison on %r, %r" % (pytype_of(a), pytype_of(b)))
        if isinstance(a, Opaque) or isinstance(b, Opaque):
            raise Unsupported("ordered comparison on opaque")
        if isinstance(op, ast.Lt):
            return a < b
        if isinstance(op, ast.LtE):
            return a <= b
        if isinstance(op, ast.Gt):
            return a > b
        if isinstance(op, ast.GtE):
            return a >= b
        raise Unsupported("compare op %r" % op)

    def is_(self, a, b):
        if isinstance(a, Undefined) or isinstance(b, Undefined):
            raise Unsupported("use of havocked local without declared type")
        if a is None or b is None:
            return a is b
        if isinstance(a, Sym) or isinstance(b, Sym):
            if isinstance(a, SBool) or isinstance(b, SBool):
                if pytype_of(a) is bool and pytype_of(b) is bool:
                    return mkbool(to_z3bool(a) == to_z3bool(b))
                return False
            return a is b
        return a is b

    # ------------------------------------------------------------------ arithmetic / strings
    def binop(self, op, a, b):
        if isinstance(a, Undefined) or isinstance(b, Undefined):
            raise Unsupported("use of havocked local without declared type")
        if hasattr(a, "__pyvc_binop__"):
            return a.__pyvc_binop__(self, op, b, False)
        if hasattr(b, "__pyvc_binop__"):
            return b.__pyvc_binop__(self, op, a, True)
        if isinstance(a, SSet) and isinstance(op, ast.Add) and isinstance(b, list):
            return a.added(b)
        if not contains_sym(a) and not contains_sym(b):
            return self._native_binop(op, a, b)
        ta, tb = pytype_of(a), pytype_of(b)
        if isinstance(op, ast.Mod) and ta in (str, bytes):
            return self.format_percent(a, b)
        if isinstance(op, ast.Add):
            if ta in (str, bytes) and tb is ta:
                return mkstr(z3.Concat(to_z3str(a), to_z3str(b)), ta is bytes)
            if ta in (str, bytes) and tb in (str, bytes):
                raise TypeError("can't concat %s to %s" % (tb.__name__, ta.__name__))
            if ta in (int, bool) and tb in (int, bool):
                return mkint(to_z3int(a) + to_z3int(b))
            if ta is list and tb is list and isinstance(a, list) and isinstance(b, list):
                return a + b
            if ta is tuple and tb is tuple and isinstance(a, tuple) and isinstance(b, tuple):
                return a + b
        if isinstance(op, ast.Sub) and ta in (int, bool) and tb in (int, bool):
            return mkint(to_z3int(a) - to_z3int(b))
        if isinstance(op, ast.Mult):
            if ta in (int, bool) and tb in (int, bool):
                if isinstance(a, Sym) and isinstance(b, Sym):
                    raise Unsupported("non-linear multiplication")
                return mkint(to_z3int(a) * to_z3int(b))
        raise Unsupported("binop %s on %s, %s" % (type(op).__name__, ta.__name__, tb.__name__))

    def _native_binop(self, op, a, b):
        if isinstance(op, ast.Add):
            return a + b
        if isinstance(op, ast.Sub):
            return a - b
        if isinstance(op, ast.Mult):
            return a * b
        if isinstance(op, ast.Mod):
            if isinstance(a, (str, bytes)):
                return self.format_percent(a, b)
            return a % b
        if isinstance(op, ast.FloorDiv):
            return a // b
        if isinstance(op, ast.Div):
            return a / b
        if isinstance(op, ast.BitOr):
            return a | b
        if isinstance(op, ast.BitAnd):
            return a & b
        raise Unsupported("binop %s" % type(op).__name__)

    def to_str(self, v, want_bytes=False):
        """str(v) (or the %s rendering in a bytes format when want_bytes)."""
        if isinstance(v, Undefined):
            raise Unsupported("use of havocked local without declared type")
        if want_bytes:
            if sym.is_bytes(v):
                return v
            raise Unsupported("%%s in bytes format with non-bytes %r" % (pytype_of(v),))
        if isinstance(v, str):
            return v
        if isinstance(v, SStr):
            if not v.isbytes:
                return v
            r = sym.F_repr_bytes(v.t)
            return SStr(r, False)
        if isinstance(v, SInt):
            return sym.s_int2str(v)
        if isinstance(v, SBool):
            raise Unsupported("str of symbolic bool")
        if isinstance(v, Opaque):
            raise Unsupported("str of opaque")
        if isinstance(v, (bytes, int, float, type(None), bool)):
            return str(v)
        if isinstance(v, (list, tuple, dict)):
            if contains_sym(v):
                # repr of a container with symbolic content: abstract
                return Opaque("repr", str) if False else self._repr_container(v)
            return str(v)
        cls = type(v)
        f = self._find_dunder(cls, "__str__")
        if f is not None:
            return self.call(f, [v], {})
        f = self._find_dunder(cls, "__repr__")
        if f is not None:
            return self.call(f, [v], {})
        if isinstance(v, BaseException):
            if len(v.args) == 1:
                return self.to_str(v.args[0])
            if len(v.args) == 0:
                return ""
            return self._repr_container(tuple(v.args))
        return str(v)

    def _repr_container(self, v):
        p = core.cur()
        name = p.fresh_name("repr")
        return SStr(z3.String(name), False)

    def to_repr(self, v):
        if isinstance(v, SStr) or contains_sym(v):
            return self._repr_container(v)
        if isinstance(v, (str, bytes, int, float, type(None), bool, list, tuple, dict)):
            return repr(v)
        cls = type(v)
        f = self._find_dunder(cls, "__repr__")
        if f is not None:
            return self.call(f, [v], {})
        return repr(v)

    def format_percent(self, fmt, args):
        if isinstance(fmt, Sym):
            raise Unsupported("symbolic format string")
        isb = isinstance(fmt, bytes)
        f = fmt.decode("latin-1") if isb else fmt
        if not isinstance(args, tuple):
            args = (args,)
        if not contains_sym(args) and all(isinstance(a, (str, bytes, int, float, type(None))) for a in args):
            return fmt % args
        out = []
        i = 0
        ai = 0
        lit = ""
        while i < len(f):
            c = f[i]
            if c != "%":
                lit += c
                i += 1
                continue
            if i + 1 >= len(f):
                raise ValueError("incomplete format")
            d = f[i + 1]
            i += 2
            if d == "%":
                lit += "%"
                continue
            if d not in "sdr":
                raise Unsupported("format directive %%%s" % d)
            if lit:
                out.append(lit.encode("latin-1") if isb else lit)
                lit = ""
            if ai >= len(args):
                raise TypeError("not enough arguments for format string")
            a = args[ai]
            ai += 1
            if d == "s":
                out.append(self.to_str(a, want_bytes=isb))
            elif d == "r":
                out.append(self.to_repr(a))
            else:
                if pytype_of(a) not in (int, bool):
                    raise TypeError("%d format: a number is required")
                out.append(sym.s_int2str(a, isbytes=isb))
        if ai != len(args):
            raise TypeError("not all arguments converted during string formatting")
        if lit:
            out.append(lit.encode("latin-1") if isb else lit)
        return self.concat_all(out, isb)

    def concat_all(self, parts, isb):
        if not parts:
            return b"" if isb else ""
        if not any(isinstance(p, Sym) for p in parts):
            return (b"" if isb else "").join(parts)
        if len(parts) == 1:
            return parts[0]
        return mkstr(z3.Concat(*[to_z3str(p) for p in parts]), isb)

    def format_brace(self, fmt, args, kwargs):
        if isinstance(fmt, Sym):
            raise Unsupported("symbolic format string")
        if not contains_sym(args) and not contains_sym(kwargs) and all(
                isinstance(a, (str, int, float, type(None), bytes)) for a in list(args) + list(kwargs.values())):
            return fmt.format(*args, **kwargs)
        import string
        out = []
        auto = 0
        for lit, field, spec, conv in string.Formatter().parse(fmt):
            if lit:
                out.append(lit)
            if field is None:
                continue
            if spec or conv:
                raise Unsupported("format spec/conversion")
            if field == "":
                a = args[auto]
                auto += 1
            elif field.isdigit():
                a = args[int(field)]
            else:
                a = kwargs[field]
            out.append(self.to_str(a))
        return self.concat_all(out, False)

    # ------------------------------------------------------------------ subscripts
    def norm_index(self, i, n):
        """concrete index normalisation helper for concrete sequences"""
        return i

    def getitem(self, obj, key):
        if isinstance(obj, Undefined) or isinstance(key, Undefined):
            raise Unsupported("use of havocked local without declared type")
        if hasattr(obj, "__pyvc_getitem__"):
            return obj.__pyvc_getitem__(self, key)
        if isinstance(obj, SDict):
            e = obj.get_entry(key) if not isinstance(key, Sym) else None
            if isinstance(key, Sym):
                raise Unsupported("symbolic key on SDict")
            if e is None or e[0] is False:
                raise KeyError(key)
            if e[0] is True:
                return e[1]
            if branch(e[0]):
                return e[1]
            raise KeyError(key)
        if isinstance(obj, dict):
            if isinstance(key, Sym):
                k = self.pick_key(obj, key)
                if k is _NOKEY:
                    raise KeyError(key)
                return obj[k]
            if isinstance(key, Opaque):
                raise KeyError(key)
            return obj[key]
        if isinstance(obj, (list, tuple, range)):
            if isinstance(key, slice):
                if contains_sym([key.start, key.stop, key.step]):
                    raise Unsupported("symbolic slice of concrete sequence")
                return obj[key]
            if isinstance(key, SInt):
                n = len(obj)
                for i in range(-n, n):
                    if branch(key.t == i):
                        return obj[i]
                raise IndexError("list index out of range")
            return obj[key]
        if is_strlike(obj):
            return self.str_getitem(obj, key)
        if isinstance(obj, Opaque):
            raise Unsupported("subscript of opaque")
        cls = type(obj)
        f = self._find_dunder(cls, "__getitem__")
        if f is not None:
            return self.call(f, [obj, key], {})
        return obj[key]

    def pick_key(self, d, key):
        """which concrete key of d equals the symbolic key (forks per feasible key); _NOKEY if none.
        Model-guided: the solver proposes a feasible key, so the number of queries is proportional to the
        number of feasible keys, not to len(d)."""
        keys = [k for k in d.keys() if pytype_of(k) is pytype_of(key)]
        if len(keys) <= 6 or not isinstance(key, SStr):
            for k in keys:
                if self.truth(self.eq(k, key)):
                    return k
            return _NOKEY
        p = core.cur()
        remaining = list(keys)
        while remaining:
            disj = z3.Or(*[key.t == strval(k) for k in remaining])
            if not branch(disj):
                return _NOKEY
            # some remaining key is feasible: let the solver name one (recorded in the trace)
            def propose():
                r = p.solver.check()
                if r == z3.sat:
                    v = p.solver.model().eval(key.t, model_completion=True)
                    try:
                        sv = core.unesc(v.as_string())
                        if isinstance(remaining[0], bytes):
                            sv = sv.encode("latin-1")
                        if sv in remaining:
                            return sv
                    except Exception:
                        pass
                return remaining[0]

            cand = core.choose(propose)
            if cand not in remaining:
                raise core.CheckerError("recorded key choice no longer available")
            if self.truth(self.eq(cand, key)):
                return cand
            remaining.remove(cand)
        return _NOKEY

    def str_getitem(self, s, key):
        isb = sym.is_bytes(s)
        if not isinstance(s, Sym) and not contains_sym([key.start, key.stop, key.step] if isinstance(key, slice) else key):
            return s[key]
        t = to_z3str(s)
        n = z3.Length(t)
        if isinstance(key, slice):
            if key.step is not None:
                raise Unsupported("slice step")
            cs, ce = key.start, key.stop
            if (cs is None or (isinstance(cs, int) and not isinstance(cs, bool) and cs >= 0)) and \
                    (ce is None or (isinstance(ce, int) and not isinstance(ce, bool) and ce < 0)):
                # constant cut at both ends of a shaped string: decided on the structure (pyvc/shape.py)
                from . import shape
                ps = shape.pieces_of(t)
                if ps is not None:
                    r = shape.slice_const_edges(ps, cs, ce)
                    if r is not shape.UNKNOWN:
                        return mkstr(shape.concat(r), isb)
            lo = self._slice_bound(key.start, n, True)
            hi = self._slice_bound(key.stop, n, False)
            ln = z3.If(hi > lo, hi - lo, z3.IntVal(0))
            return mkstr(z3.SubString(t, lo, ln), isb)
        # index
        i = to_z3int(key)
        if not branch(z3.And(i >= -n, i < n)):
            raise IndexError("string index out of range")
        i = z3.If(i < 0, i + n, i)
        if isb:
            # bytes[i] is an int
            ch = z3.SubString(t, i, 1)
            return mkint(z3.StrToCode(ch))
        return mkstr(z3.SubString(t, i, 1), False)

    def _slice_bound(self, b, n, is_start):
        if b is None:
            return z3.IntVal(0) if is_start else n
        if isinstance(b, int) and not isinstance(b, bool):
            if b >= 0:
                return z3.If(n < b, n, z3.IntVal(b))
            return z3.If(n + b < 0, z3.IntVal(0), n + b)
        t = to_z3int(b)
        cl = z3.If(t < 0, z3.If(n + t < 0, z3.IntVal(0), n + t), z3.If(t > n, n, t))
        return cl

    def setitem(self, obj, key, value):
        if hasattr(obj, "__pyvc_setitem__"):
            return obj.__pyvc_setitem__(self, key, value)
        if isinstance(obj, SDict):
            obj.set(key, value)
            return
        if isinstance(obj, Sym) or isinstance(obj, Opaque):
            raise Unsupported("item store on %r" % (obj,))
        if isinstance(key, Sym):
            raise Unsupported("symbolic key in item store")
        self.note_mutation(obj, "setitem %r" % (key,))
        if isinstance(obj, dict) and obj.get("__name__") in __import__("sys").modules and \
                getattr(__import__("sys").modules[obj["__name__"]], "__dict__", None) is obj:
            # a store into a module namespace (add_commands): undone at the end of the path
            had = key in obj
            old = obj.get(key)

            def undo(obj=obj, key=key, had=had, old=old):
                if had:
                    obj[key] = old
                else:
                    obj.pop(key, None)

            core.cur().journal.append(undo)
            self.shared_store_log.append((obj["__name__"], key))
        if isinstance(obj, (dict, list)):
            old_present = key in obj if isinstance(obj, dict) else True
            obj[key] = value
            return
        cls = type(obj)
        f = self._find_dunder(cls, "__setitem__")
        if f is not None:
            return self.call(f, [obj, key, value], {})
        obj[key] = value

    def note_mutation(self, obj, what):
        d = self.frozen_ids.get(id(obj))
        if d is not None:
            raise Unsupported("store into shared table object %s (%s)" % (d, what))

    # ------------------------------------------------------------------ attributes
    def mangle(self, name, frame):
        if frame.cls and name.startswith("__") and not name.endswith("__"):
            return "_%s%s" % (frame.cls.lstrip("_"), name)
        return name

    def getattr_(self, obj, name):
        if isinstance(obj, Undefined):
            raise Unsupported("use of havocked local without declared type")
        if isinstance(obj, Sym):
            return BoundSym(obj, name)
        if isinstance(obj, Opaque):
            if hasattr(obj, "attrs") and name in obj.attrs:
                return obj.attrs[name]
            raise Unsupported("attribute %s of opaque %r" % (name, obj))
        if isinstance(obj, IFunction):
            return getattr(obj, name)
        if isinstance(obj, (str, bytes, list, dict, tuple)):
            return BoundNative(obj, name)
        return getattr(obj, name)

    def setattr_(self, obj, name, value):
        if isinstance(obj, (Sym, Opaque)):
            raise Unsupported("attribute store on %r" % (obj,))
        if isinstance(obj, (type, types.ModuleType)):
            p = core.cur()
            had = name in obj.__dict__
            old = obj.__dict__.get(name)

            def undo(obj=obj, name=name, had=had, old=old):
                if had:
                    setattr(obj, name, old)
                else:
                    try:
                        delattr(obj, name)
                    except AttributeError:
                        pass

            p.journal.append(undo)
            self.shared_store_log.append((getattr(obj, "__name__", str(obj)), name))
        setattr(obj, name, value)

    # ------------------------------------------------------------------ calls
    def call(self, fn, args, kwargs):
        if isinstance(fn, Undefined):
            raise Unsupported("use of havocked local without declared type")
        # contracts first
        if isinstance(fn, types.MethodType):
            f0 = fn.__func__
            h = self.fn_contracts.get(f0)
            if h is None:
                h = self._name_contract(f0)
            if h is not None:
                return self._use_contract(h, f0, [fn.__self__] + list(args), kwargs)
            return self.call(f0, [fn.__self__] + list(args), kwargs)
        if isinstance(fn, types.FunctionType):
            h = self.fn_contracts.get(fn)
            if h is None:
                h = self._name_contract(fn)
            if h is not None:
                return self._use_contract(h, fn, list(args), kwargs)
            if getattr(fn, "_pyvc_native", False):
                return fn(*args, **kwargs)
            info = self.func_info(fn)
            if info is not None:
                return self.call_function(fn, info, args, kwargs)
            if (fn is re.match or fn is re.search) and contains_sym(list(args)):
                from . import rx
                pat = re.compile(args[0], *args[2:])
                return rx.pattern_method(self, pat, "match" if fn is re.match else "search", [args[1]], {})
            return self.call_native(fn, args, kwargs)
        if isinstance(fn, IFunction):
            return self.call_ifunction(fn, args, kwargs)
        if isinstance(fn, (BoundSym, BoundNative)):
            return fn.call(self, args, kwargs)
        if isinstance(fn, type):
            return self.instantiate(fn, args, kwargs)
        if isinstance(fn, types.BuiltinFunctionType) or isinstance(fn, types.BuiltinMethodType):
            owner = getattr(fn, "__self__", None)
            if isinstance(owner, re.Pattern):
                h = self.fn_contracts.get(("re.Pattern", fn.__name__))
                if h is not None:
                    return h(self, [owner] + list(args), kwargs)
                from . import rx
                return rx.pattern_method(self, owner, fn.__name__, list(args), kwargs)
            b = BUILTIN_MODELS.get(fn)
            if b is not None:
                return b(self, args, kwargs)
            h = self.fn_contracts.get(fn)
            if h is not None:
                return h(self, list(args), kwargs)
            return self.call_native(fn, args, kwargs)
        if hasattr(fn, "__pyvc_call__"):
            return fn.__pyvc_call__(self, args, kwargs)
        h = None
        try:
            h = self.fn_contracts.get(fn)
        except TypeError:
            pass
        if h is not None:
            return h(self, list(args), kwargs)
        if callable(fn):
            return self.call_native(fn, args, kwargs)
        raise TypeError("%r is not callable" % (fn,))

    def _name_contract(self, fn):
        key = (getattr(fn, "__module__", None), getattr(fn, "__qualname__", None))
        return self.name_contracts.get(key)

    def _use_contract(self, h, fn, args, kwargs):
        q = getattr(fn, "__qualname__", str(fn))
        self.contract_uses[q] = self.contract_uses.get(q, 0) + 1
        return h(self, args, kwargs)

    def call_native(self, fn, args, kwargs):
        if contains_sym(list(args)) or contains_sym(dict(kwargs)):
            raise Unsupported("native call %s with symbolic arguments" % getattr(fn, "__qualname__", fn))
        # a bound method of a tracked object must never run natively
        self.native_calls.add(getattr(fn, "__qualname__", None) or getattr(fn, "__name__", str(fn)))
        return fn(*args, **kwargs)

    def instantiate(self, cls, args, kwargs):
        b = BUILTIN_MODELS.get(cls)
        if b is not None:
            return b(self, args, kwargs)
        h = self.fn_contracts.get(cls)
        if h is not None:
            return h(self, list(args), kwargs)
        if not self.is_tracked_module(getattr(cls, "__module__", None)):
            if issubclass(cls, BaseException):
                return cls(*args, **kwargs)  # exceptions may carry symbolic payloads
            return self.call_native(cls, args, kwargs)
        # tracked class: allocate natively, run the real __init__ through the interpreter
        if issubclass(cls, BaseException):
            obj = cls.__new__(cls, *args)
        elif issubclass(cls, dict):
            return cls(*args, **kwargs)
        else:
            obj = cls.__new__(cls)
        for k in cls.__mro__:
            if "__init__" in k.__dict__:
                init = k.__dict__["__init__"]
                if isinstance(init, types.FunctionType) and self.func_info(init) is not None:
                    self.call(init, [obj] + list(args), kwargs)
                elif k is object:
                    if args or kwargs:
                        raise TypeError("%s() takes no arguments" % cls.__name__)
                elif issubclass(k, BaseException):
                    pass
                else:
                    raise Unsupported("native __init__ of %s" % k)
                break
        return obj

    def bind_args(self, node_args, defaults, kwdefaults, args, kwargs, fname):
        a = node_args
        params = [x.arg for x in a.posonlyargs + a.args]
        loc = {}
        args = list(args)
        if len(args) > len(params) and a.vararg is None:
            raise TypeError("%s() takes %d positional arguments but %d were given" % (fname, len(params), len(args)))
        for i, pname in enumerate(params):
            if i < len(args):
                loc[pname] = args[i]
        if a.vararg is not None:
            loc[a.vararg.arg] = tuple(args[len(params):])
        kw = dict(kwargs)
        for pname in params:
            if pname in kw:
                if pname in loc:
                    raise TypeError("%s() got multiple values for argument '%s'" % (fname, pname))
                loc[pname] = kw.pop(pname)
        for ko in a.kwonlyargs:
            if ko.arg in kw:
                loc[ko.arg] = kw.pop(ko.arg)
        if a.kwarg is not None:
            loc[a.kwarg.arg] = kw
        elif kw:
            raise TypeError("%s() got an unexpected keyword argument '%s'" % (fname, next(iter(kw))))
        nd = len(defaults)
        for i, pname in enumerate(params):
            if pname not in loc:
                j = i - (len(params) - nd)
                if j >= 0:
                    loc[pname] = defaults[j]
                else:
                    raise TypeError("%s() missing required positional argument: '%s'" % (fname, pname))
        for ko in a.kwonlyargs:
            if ko.arg not in loc:
                if kwdefaults and ko.arg in kwdefaults:
                    loc[ko.arg] = kwdefaults[ko.arg]
                else:
                    raise TypeError("%s() missing keyword-only argument '%s'" % (fname, ko.arg))
        return loc

    def call_function(self, fn, info, args, kwargs):
        node = info.node
        self.inlined.add(info.qualname)
        if self.on_call is not None:
            self.on_call(info, args, kwargs)
        frame = Frame(fn.__globals__, info.cls, info.qualname, info.module, info=info)
        frame.locals = self.bind_args(node.args, fn.__defaults__ or (), fn.__kwdefaults__, args, kwargs, fn.__name__)
        if fn.__closure__:
            for name, cell in zip(fn.__code__.co_freevars, fn.__closure__):
                try:
                    frame.locals.setdefault(name, cell.cell_contents)
                except ValueError:
                    pass
        return self.run_body(node, frame)

    def call_ifunction(self, f, args, kwargs):
        node = f.node
        outer = f.frame
        frame = Frame(outer.globals, outer.cls, outer.qualname + ".<locals>." + f.__name__, outer.module, outer=outer,
                      info=None)
        defaults = getattr(f, "defaults", ())
        frame.locals = self.bind_args(node.args, defaults, getattr(f, "kwdefaults", None), args, kwargs, f.__name__)
        if isinstance(node, ast.Lambda):
            self.depth += 1
            try:
                if self.depth > self.max_depth:
                    raise Unsupported("recursion depth")
                return self.ev(node.body, frame)
            finally:
                self.depth -= 1
        return self.run_body(node, frame)

    def run_body(self, node, frame):
        self.depth += 1
        if self.depth > self.max_depth:
            self.depth -= 1
            raise Unsupported("recursion depth exceeded in %s" % frame.qualname)
        is_gen = _is_generator(node)
        try:
            if is_gen:
                if self.yield_handler is None:
                    collected = []
                    frame.locals["$yield"] = collected.append
                else:
                    frame.locals["$yield"] = self.yield_handler
            try:
                self.exec_block(node.body, frame)
            except _Return as r:
                if is_gen:
                    return iter(collected) if self.yield_handler is None else None
                return r.v
            if is_gen:
                return iter(collected) if self.yield_handler is None else None
            return None
        finally:
            self.depth -= 1

    # ------------------------------------------------------------------ statements
    def exec_block(self, stmts, frame):
        for s in stmts:
            self.exec_stmt(s, frame)

    def exec_stmt(self, s, frame):
        m = getattr(self, "st_" + type(s).__name__, None)
        if m is None:
            raise Unsupported("statement %s at %s:%d" % (type(s).__name__, frame.qualname, s.lineno))
        return m(s, frame)

    def st_Expr(self, s, frame):
        if isinstance(s.value, ast.Constant):
            return  # docstring
        self.ev(s.value, frame)

    def st_Pass(self, s, frame):
        pass

    def st_Assign(self, s, frame):
        v = self.ev(s.value, frame)
        for t in s.targets:
            self.assign(t, v, frame)

    def st_AnnAssign(self, s, frame):
        if s.value is not None:
            self.assign(s.target, self.ev(s.value, frame), frame)

    def st_AugAssign(self, s, frame):
        t = s.target
        if isinstance(t, ast.Name):
            cur = self.load_name(t.id, frame)
            new = self.aug(s.op, cur, self.ev(s.value, frame))
            self.store_name(t.id, new, frame)
        elif isinstance(t, ast.Attribute):
            obj = self.ev(t.value, frame)
            name = self.mangle(t.attr, frame)
            cur = self.getattr_(obj, name)
            new = self.aug(s.op, cur, self.ev(s.value, frame))
            self.setattr_(obj, name, new)
        elif isinstance(t, ast.Subscript):
            obj = self.ev(t.value, frame)
            key = self.ev_slice(t.slice, frame)
            cur = self.getitem(obj, key)
            new = self.aug(s.op, cur, self.ev(s.value, frame))
            self.setitem(obj, key, new)
        else:
            raise Unsupported("augassign target")

    def aug(self, op, cur, val):
        if isinstance(cur, list) and isinstance(op, ast.Add):
            # in-place extend (list identity is preserved, as in CPython)
            self.note_mutation(cur, "+=")
            if hasattr(val, "__pyvc_iter__"):
                val = val.__pyvc_iter__(self)
            elif isinstance(val, Sym) or isinstance(val, Opaque):
                raise Unsupported("list += symbolic")
            cur.extend(val)
            return cur
        if hasattr(cur, "__pyvc_iadd__") and isinstance(op, ast.Add):
            return cur.__pyvc_iadd__(self, val)
        return self.binop(op, cur, val)

    def assign(self, t, v, frame):
        if isinstance(t, ast.Name):
            self.store_name(t.id, v, frame)
        elif isinstance(t, ast.Attribute):
            obj = self.ev(t.value, frame)
            self.setattr_(obj, self.mangle(t.attr, frame), v)
        elif isinstance(t, ast.Subscript):
            obj = self.ev(t.value, frame)
            key = self.ev_slice(t.slice, frame)
            self.setitem(obj, key, v)
        elif isinstance(t, (ast.Tuple, ast.List)):
            items = self.iterate(v)
            if len(items) != len(t.elts):
                if len(items) < len(t.elts):
                    raise ValueError("not enough values to unpack (expected %d, got %d)" % (len(t.elts), len(items)))
                raise ValueError("too many values to unpack (expected %d)" % len(t.elts))
            for tt, x in zip(t.elts, items):
                self.assign(tt, x, frame)
        else:
            raise Unsupported("assignment target %s" % type(t).__name__)

    def iterate(self, v):
        """materialise an iterable with concrete shape"""
        if isinstance(v, Undefined):
            raise Unsupported("use of havocked local without declared type")
        if hasattr(v, "__pyvc_iter__"):
            return v.__pyvc_iter__(self)
        if v is None:
            raise TypeError("cannot unpack non-iterable NoneType object")
        if isinstance(v, (Sym, Opaque)):
            raise Unsupported("iteration over %r" % (v,))
        if isinstance(v, (list, tuple)):
            return list(v)
        if isinstance(v, dict):
            return list(v.keys())
        if isinstance(v, (str, bytes, range, set, frozenset)):
            return list(v)
        try:
            it = iter(v)
        except TypeError:
            raise
        return list(it)

    def st_Return(self, s, frame):
        raise _Return(self.ev(s.value, frame) if s.value is not None else None)

    def st_If(self, s, frame):
        if self.truth(self.ev(s.test, frame)):
            self.exec_block(s.body, frame)
        else:
            self.exec_block(s.orelse, frame)

    def st_Break(self, s, frame):
        raise _Break()

    def st_Continue(self, s, frame):
        raise _Continue()

    def st_Raise(self, s, frame):
        if s.exc is None:
            raise Unsupported("bare raise")
        e = self.ev(s.exc, frame)
        if isinstance(e, type):
            e = self.instantiate(e, [], {})
        raise e

    def st_Try(self, s, frame):
        try:
            try:
                self.exec_block(s.body, frame)
            except (_Return, _Break, _Continue, PathEnd, Unsupported, core.CheckerError):
                raise
            except Exception as e:
                for h in s.handlers:
                    if h.type is None:
                        match = True
                    else:
                        et = self.ev(h.type, frame)
                        match = isinstance(e, et)
                    if match:
                        if h.name:
                            frame.locals[h.name] = e
                        self.exec_block(h.body, frame)
                        break
                else:
                    raise
            else:
                self.exec_block(s.orelse, frame)
        finally:
            if s.finalbody:
                self.exec_block(s.finalbody, frame)

    def st_FunctionDef(self, s, frame):
        f = IFunction(s, frame, s.name)
        f.defaults = tuple(self.ev(d, frame) for d in s.args.defaults)
        f.kwdefaults = {k.arg: self.ev(d, frame) for k, d in zip(s.args.kwonlyargs, s.args.kw_defaults) if d is not None}
        v = f
        for dec in reversed(s.decorator_list):
            v = self.call(self.ev(dec, frame), [v], {})
        frame.locals[s.name] = v

    def st_Assert(self, s, frame):
        if not self.truth(self.ev(s.test, frame)):
            raise AssertionError()

    def st_Delete(self, s, frame):
        for t in s.targets:
            if isinstance(t, ast.Name):
                del frame.locals[t.id]
            elif isinstance(t, ast.Subscript):
                obj = self.ev(t.value, frame)
                key = self.ev_slice(t.slice, frame)
                if isinstance(obj, SDict):
                    obj.delete(key)
                else:
                    self.note_mutation(obj, "del")
                    del obj[key]
            else:
                raise Unsupported("del target")

    def st_Global(self, s, frame):
        raise Unsupported("global statement")

    def st_With(self, s, frame):
        """with A as x, B as y: body  --  __enter__ / __exit__ called as CPython does (an exception in the body is handed to
        __exit__, which may suppress it; return / break / continue leave through __exit__(None, None, None))"""
        self._with_items(list(s.items), s.body, frame)

    def _with_items(self, items, body, frame):
        if not items:
            self.exec_block(body, frame)
            return
        it = items[0]
        ctx = self.ev(it.context_expr, frame)
        value = self.call(self.getattr_(ctx, "__enter__"), [], {})
        exit_ = self.getattr_(ctx, "__exit__")
        if it.optional_vars is not None:
            self.assign(it.optional_vars, value, frame)
        try:
            self._with_items(items[1:], body, frame)
        except (PathEnd, Unsupported, core.CheckerError):
            raise
        except (_Return, _Break, _Continue):
            self.call(exit_, [None, None, None], {})
            raise
        except Exception as e:
            if self.truth(self.call(exit_, [type(e), e, None], {})):
                return
            raise
        self.call(exit_, [None, None, None], {})

    # loops ---------------------------------------------------------------
    def loop_spec_for(self, s, frame):
        info = frame.info
        if info is None:
            return None, None
        if info.loops is None:
            info.loops = loops_of(info.node)
        try:
            ordinal = info.loops.index(s)
        except ValueError:
            return None, None
        return self.loop_specs.get((info.module, info.qualname, ordinal)), ordinal

    def st_While(self, s, frame):
        spec, ordinal = self.loop_spec_for(s, frame)
        if isinstance(spec, LoopSummary):
            if spec.header is not None and ast.unparse(s.test) != spec.header:
                raise Unsupported("stale loop summary for %s loop %d" % (frame.qualname, ordinal))
            self.call(spec.effect, [NS(frame.locals)], {})
            return
        if spec is not None:
            return self.loop_with_invariant(s, frame, spec, ordinal, None)
        n = 0
        while True:
            if not self.truth(self.ev(s.test, frame)):
                self.exec_block(s.orelse, frame)
                return
            n += 1
            if n > 10000:
                raise Unsupported("loop without invariant does not terminate concretely: %s:%d" % (frame.qualname, s.lineno))
            try:
                self.exec_block(s.body, frame)
            except _Break:
                return
            except _Continue:
                continue

    def st_For(self, s, frame):
        it = self.ev(s.iter, frame)
        if hasattr(it, "__pyvc_forloop__"):
            spec, ordinal = self.loop_spec_for(s, frame)
            return it.__pyvc_forloop__(self, s, frame, spec, ordinal)
        if isinstance(it, sym.SSeq):
            spec, ordinal = self.loop_spec_for(s, frame)
            if spec is None:
                raise Unsupported("for-loop over a list of symbolic length without an invariant: %s:%d"
                                  % (frame.qualname, s.lineno))
            return self.for_with_invariant(s, frame, spec, ordinal, it)
        items = self.iterate(it)
        live = it if isinstance(it, list) else None
        i = 0
        while True:
            # CPython list iteration observes in-place growth/shrink of the list
            seq = live if live is not None else items
            if i >= len(seq):
                break
            x = seq[i]
            i += 1
            self.assign(s.target, x, frame)
            try:
                self.exec_block(s.body, frame)
            except _Break:
                return
            except _Continue:
                continue
        self.exec_block(s.orelse, frame)

    def loop_with_invariant(self, s, frame, spec, ordinal, extra):
        """Cut a while-loop by its invariant: establish, havoc, assume, one arbitrary iteration, re-establish."""
        info = frame.info
        label = spec.label or "%s.loop%d" % (info.qualname, ordinal)
        if spec.header is not None:
            hdr = ast.unparse(s.test) if isinstance(s, ast.While) else ast.unparse(s.iter)
            if hdr != spec.header:
                raise Unsupported("stale loop invariant for %s loop %d: header is %r, invariant written for %r"
                                  % (info.qualname, ordinal, hdr, spec.header))
        L = NS(frame.locals)
        ok = self.call(spec.invariant, [L], {})
        if not prove(self._as_cond(ok), label + ".inv-entry"):
            raise PathEnd()
        # havoc
        for name in sorted(assigned_names(s.body)):
            kind = spec.havoc.get(name)
            frame.locals[name] = self.fresh_of_kind(kind, name)
        if spec.heap is not None:
            self.call(spec.heap, [L], {})
        inv = self.call(spec.invariant, [L], {})
        assume(self._as_cond(inv))
        variant0 = None
        if spec.decreases is not None:
            variant0 = self.call(spec.decreases, [L], {})
        if self.truth(self.ev(s.test, frame)):
            try:
                self.exec_block(s.body, frame)
            except _Break:
                return
            except _Continue:
                pass
            ok = self.call(spec.invariant, [L], {})
            prove(self._as_cond(ok), label + ".inv-preserved")
            if variant0 is not None:
                v1 = self.call(spec.decreases, [L], {})
                prove(z3.And(to_z3int(v1) < to_z3int(variant0), to_z3int(variant0) >= 0), label + ".variant")
            raise PathEnd()
        self.exec_block(s.orelse, frame)

    def for_with_invariant(self, s, frame, spec, ordinal, seq):
        """for x in <list of symbolic length>: cut by an invariant over (locals, index $i)."""
        info = frame.info
        label = spec.label or "%s.loop%d" % (info.qualname, ordinal)
        if spec.header is not None and ast.unparse(s.iter) != spec.header:
            raise Unsupported("stale loop invariant for %s loop %d" % (info.qualname, ordinal))
        n = z3.Length(seq.t)
        frame.locals["$i"] = 0
        frame.locals["$seq"] = seq
        L = NS(frame.locals)
        ok = self.call(spec.invariant, [L], {})
        if not prove(self._as_cond(ok), label + ".inv-entry"):
            raise PathEnd()
        names = assigned_names(s.body) | assigned_names([s.target])
        for name in sorted(names):
            frame.locals[name] = self.fresh_of_kind(spec.havoc.get(name), name)
        if spec.heap is not None:
            self.call(spec.heap, [L], {})
        i = sym.fresh_int("loop_i", register=False)
        assume(z3.And(i.t >= 0, i.t <= n))
        frame.locals["$i"] = i
        inv = self.call(spec.invariant, [L], {})
        assume(self._as_cond(inv))
        if branch(i.t < n):
            self.assign(s.target, seq.elem(i.t), frame)
            try:
                self.exec_block(s.body, frame)
            except _Break:
                return
            except _Continue:
                pass
            frame.locals["$i"] = mkint(i.t + 1)
            ok = self.call(spec.invariant, [L], {})
            prove(self._as_cond(ok), label + ".inv-preserved")
            raise PathEnd()
        self.exec_block(s.orelse, frame)

    def _as_cond(self, v):
        if isinstance(v, bool):
            return v
        if isinstance(v, SBool):
            return v.t
        return self.truth(v)

    def fresh_of_kind(self, kind, name):
        if kind is None:
            return Undefined(name)
        if callable(kind):
            return kind(name)
        if kind == "int":
            return sym.fresh_int(name, register=False)
        if kind == "str":
            return sym.fresh_str(name, False, register=False)
        if kind == "bytes":
            return sym.fresh_str(name, True, register=False)
        if kind == "bool":
            return sym.fresh_bool(name, register=False)
        raise Unsupported("havoc kind %r" % (kind,))

    # ------------------------------------------------------------------ names
    def load_name(self, name, frame):
        f = frame
        while f is not None:
            if name in f.locals:
                return f.locals[name]
            f = f.outer
        g = frame.globals
        if name in g:
            return g[name]
        if hasattr(builtins, name):
            return getattr(builtins, name)
        raise NameError("name '%s' is not defined" % name)

    def store_name(self, name, v, frame):
        frame.locals[name] = v

    # ------------------------------------------------------------------ expressions
    def ev(self, n, frame):
        m = getattr(self, "ex_" + type(n).__name__, None)
        if m is None:
            raise Unsupported("expression %s at %s:%d" % (type(n).__name__, frame.qualname, getattr(n, "lineno", 0)))
        return m(n, frame)

    def ex_Constant(self, n, frame):
        return n.value

    def ex_Name(self, n, frame):
        return self.load_name(n.id, frame)

    def ex_Attribute(self, n, frame):
        obj = self.ev(n.value, frame)
        return self.getattr_(obj, self.mangle(n.attr, frame))

    def ev_slice(self, sl, frame):
        if isinstance(sl, ast.Slice):
            return slice(self.ev(sl.lower, frame) if sl.lower is not None else None,
                         self.ev(sl.upper, frame) if sl.upper is not None else None,
                         self.ev(sl.step, frame) if sl.step is not None else None)
        return self.ev(sl, frame)

    def ex_Subscript(self, n, frame):
        obj = self.ev(n.value, frame)
        key = self.ev_slice(n.slice, frame)
        return self.getitem(obj, key)

    def ex_Tuple(self, n, frame):
        return tuple(self._elts(n.elts, frame))

    def ex_List(self, n, frame):
        return list(self._elts(n.elts, frame))

    def ex_Set(self, n, frame):
        return set(self._elts(n.elts, frame))

    def _elts(self, elts, frame):
        out = []
        for e in elts:
            if isinstance(e, ast.Starred):
                out.extend(self.iterate(self.ev(e.value, frame)))
            else:
                out.append(self.ev(e, frame))
        return out

    def ex_Dict(self, n, frame):
        d = {}
        for k, v in zip(n.keys, n.values):
            if k is None:
                d.update(self.ev(v, frame))
            else:
                kk = self.ev(k, frame)
                if isinstance(kk, Sym):
                    raise Unsupported("symbolic dict key")
                d[kk] = self.ev(v, frame)
        return d

    def ex_BoolOp(self, n, frame):
        if isinstance(n.op, ast.And):
            v = True
            for e in n.values:
                v = self.ev(e, frame)
                if not self.truth(v):
                    return v
            return v
        v = False
        for e in n.values:
            v = self.ev(e, frame)
            if self.truth(v):
                return v
        return v

    def ex_UnaryOp(self, n, frame):
        v = self.ev(n.operand, frame)
        if isinstance(n.op, ast.Not):
            return self.not_(v)
        if isinstance(n.op, ast.USub):
            if isinstance(v, SInt):
                return mkint(-v.t)
            return -v
        if isinstance(n.op, ast.UAdd):
            return v
        raise Unsupported("unary op")

    def ex_BinOp(self, n, frame):
        a = self.ev(n.left, frame)
        b = self.ev(n.right, frame)
        return self.binop(n.op, a, b)

    def ex_Compare(self, n, frame):
        left = self.ev(n.left, frame)
        result = True
        for op, rn in zip(n.ops, n.comparators):
            right = self.ev(rn, frame)
            r = self.compare(op, left, right)
            if len(n.ops) == 1:
                return r
            if not self.truth(r):
                return False
            result = r
            left = right
        return True

    def ex_IfExp(self, n, frame):
        if self.truth(self.ev(n.test, frame)):
            return self.ev(n.body, frame)
        return self.ev(n.orelse, frame)

    def ex_Lambda(self, n, frame):
        f = IFunction(n, frame, "<lambda>")
        f.defaults = tuple(self.ev(d, frame) for d in n.args.defaults)
        f.kwdefaults = {}
        return f

    def ex_JoinedStr(self, n, frame):
        parts = []
        for v in n.values:
            if isinstance(v, ast.Constant):
                parts.append(v.value)
            else:
                if v.format_spec is not None:
                    raise Unsupported("f-string format spec")
                x = self.ev(v.value, frame)
                if v.conversion == ord("r"):
                    parts.append(self.to_repr(x))
                elif v.conversion in (-1, ord("s")):
                    parts.append(self.to_str(x))
                else:
                    raise Unsupported("f-string conversion")
        return self.concat_all(parts, False)

    def _comp(self, n, frame, emit, first=_NOKEY):
        sub = Frame(frame.globals, frame.cls, frame.qualname, frame.module, outer=frame, info=None)

        def rec(i):
            if i == len(n.generators):
                emit(sub)
                return
            g = n.generators[i]
            src = first if (i == 0 and first is not _NOKEY) else self.ev(g.iter, sub if i else frame)
            for x in self.iterate(src):
                self.assign(g.target, x, sub)
                if all(self.truth(self.ev(c, sub)) for c in g.ifs):
                    rec(i + 1)

        rec(0)

    def _abstract_map(self, n, frame, it):
        """[x.decode("utf-8") for x in <abstract list>]  ->  abstract map (the only comprehension shape over a
        list of symbolic length that the executor models; anything else is Unsupported)"""
        if len(n.generators) != 1:
            return None
        g = n.generators[0]
        e = n.elt
        ok = (not g.ifs and isinstance(g.target, ast.Name) and isinstance(e, ast.Call) and isinstance(e.func, ast.Attribute)
              and e.func.attr == "decode" and isinstance(e.func.value, ast.Name) and e.func.value.id == g.target.id
              and not e.keywords and len(e.args) <= 1)
        if ok and e.args:
            enc = self.ev(e.args[0], frame)
            ok = isinstance(enc, str) and enc.lower().replace("_", "-") in ("utf-8", "utf8")
        if not ok:
            raise Unsupported("comprehension over a list of symbolic length: %s" % ast.unparse(n))
        return (True, it.map_decode_utf8())

    def ex_ListComp(self, n, frame):
        first = self.ev(n.generators[0].iter, frame)
        if isinstance(first, sym.SSeq):
            r = self._abstract_map(n, frame, first)
            if r is None:
                raise Unsupported("comprehension over a list of symbolic length")
            return r[1]
        out = []
        self._comp(n, frame, lambda f: out.append(self.ev(n.elt, f)), first)
        return out

    def ex_GeneratorExp(self, n, frame):
        first = self.ev(n.generators[0].iter, frame)
        if isinstance(first, sym.SSeq):
            # the one shape modelled over a list of symbolic length (same as for a list comprehension); eager, so an
            # invalid element raises here rather than at consumption -- both happen inside the same expression statement
            r = self._abstract_map(n, frame, first)
            if r is None:
                raise Unsupported("generator over a list of symbolic length")
            return r[1]
        out = []
        self._comp(n, frame, lambda f: out.append(self.ev(n.elt, f)), first)
        return out  # eager: a list stands for the generator

    def ex_SetComp(self, n, frame):
        out = []
        self._comp(n, frame, lambda f: out.append(self.ev(n.elt, f)))
        return set(out)

    def ex_DictComp(self, n, frame):
        out = {}

        def emit(f):
            out[self.ev(n.key, f)] = self.ev(n.value, f)

        self._comp(n, frame, emit)
        return out

    def ex_Yield(self, n, frame):
        v = self.ev(n.value, frame) if n.value is not None else None
        y = self.load_name("$yield", frame)
        if isinstance(y, (IFunction, types.FunctionType)):
            return self.call(y, [v], {})
        return y(v)

    def ex_Starred(self, n, frame):
        raise Unsupported("starred expression")

    def ex_Call(self, n, frame):
        mh = None
        if self.method_name_contracts and isinstance(n.func, ast.Attribute):
            obj = self.ev(n.func.value, frame)
            if not isinstance(obj, (Sym, Opaque, Undefined)):
                for k in type(obj).__mro__:
                    mh = self.method_name_contracts.get((k, n.func.attr))
                    if mh is not None:
                        break
            if mh is None:
                fn = self.getattr_(obj, self.mangle(n.func.attr, frame))
            else:
                fn = None
        else:
            fn = self.ev(n.func, frame)
        args = []
        for a in n.args:
            if isinstance(a, ast.Starred):
                args.extend(self.iterate(self.ev(a.value, frame)))
            else:
                args.append(self.ev(a, frame))
        kwargs = {}
        for k in n.keywords:
            if k.arg is None:
                kwargs.update(self.ev(k.value, frame))
            else:
                kwargs[k.arg] = self.ev(k.value, frame)
        if mh is not None:
            q = "%s.%s" % (type(obj).__name__, n.func.attr)
            self.contract_uses[q] = self.contract_uses.get(q, 0) + 1
            return mh(self, [obj] + args, kwargs)
        if fn is builtins.globals:
            return frame.globals
        if fn is builtins.locals:
            return frame.locals
        return self.call(fn, args, kwargs)


def _is_generator(node):
    for ch in ast.walk(node):
        if isinstance(ch, (ast.Yield, ast.YieldFrom)):
            # not inside a nested def
            return _owns(node, ch)
    return False


def _owns(fn, target):
    def visit(n):
        for ch in ast.iter_child_nodes(n):
            if ch is target:
                return True
            if isinstance(ch, (ast.FunctionDef, ast.Lambda, ast.ClassDef)):
                continue
            if visit(ch):
                return True
        return False

    return visit(fn)


# ----------------------------------------------------------------------------- methods on symbolic / builtin values

class BoundSym:
    def __init__(self, obj, name):
        self.obj = obj
        self.name = name

    def call(self, ip, args, kwargs):
        from . import strmodel
        return strmodel.call_method(ip, self.obj, self.name, args, kwargs)


class BoundNative:
    """method of a concrete str/bytes/list/dict/tuple; falls back to the model when arguments are symbolic"""

    def __init__(self, obj, name):
        self.obj = obj
        self.name = name

    def call(self, ip, args, kwargs):
        from . import strmodel
        obj = self.obj
        if isinstance(obj, (list, dict)) and self.name in ("append", "extend", "insert", "pop", "remove", "clear", "update",
                                                           "sort", "reverse", "setdefault", "popitem"):
            ip.note_mutation(obj, self.name)
        if isinstance(obj, (str, bytes)):
            if contains_sym(list(args)) or contains_sym(kwargs):
                return strmodel.call_method(ip, obj, self.name, args, kwargs)
            return getattr(obj, self.name)(*args, **kwargs)
        if isinstance(obj, list):
            return strmodel.list_method(ip, obj, self.name, args, kwargs)
        if isinstance(obj, dict):
            return strmodel.dict_method(ip, obj, self.name, args, kwargs)
        if isinstance(obj, tuple):
            if contains_sym(obj) or contains_sym(list(args)):
                raise Unsupported("tuple.%s with symbolic content" % self.name)
            return getattr(obj, self.name)(*args, **kwargs)
        raise Unsupported("method %s on %r" % (self.name, type(obj)))


# ----------------------------------------------------------------------------- builtins

def _b_len(ip, args, kwargs):
    (v,) = args
    if isinstance(v, SStr):
        return mkint(z3.Length(v.t))
    if hasattr(v, "__pyvc_len__"):
        return v.__pyvc_len__(ip)
    if isinstance(v, (Sym, Opaque, Undefined)):
        raise Unsupported("len of %r" % (v,))
    return len(v)


def _b_isinstance(ip, args, kwargs):
    v, t = args
    if isinstance(v, Undefined):
        raise Unsupported("use of havocked local without declared type")
    if isinstance(v, (Sym, Opaque)):
        pt = v.pytype
        if isinstance(t, tuple):
            return any(issubclass(pt, x) for x in t)
        return issubclass(pt, t)
    return isinstance(v, t)


def _b_type(ip, args, kwargs):
    if len(args) != 1:
        raise Unsupported("type() with 3 args")
    v = args[0]
    if isinstance(v, Undefined):
        raise Unsupported("use of havocked local without declared type")
    if isinstance(v, (Sym, Opaque)):
        return v.pytype
    return type(v)


def _b_str(ip, args, kwargs):
    if not args:
        return ""
    if len(args) > 1:
        v = args[0]
        if sym.is_bytes(v):
            return sym.s_decode_utf8(v)
        raise Unsupported("str(x, enc)")
    return ip.to_str(args[0])


def _b_repr(ip, args, kwargs):
    return ip.to_repr(args[0])


def _b_int(ip, args, kwargs):
    (v,) = args
    if isinstance(v, SInt):
        return v
    if isinstance(v, SStr):
        # int() of a symbolic string: ValueError unless a decimal literal (optional sign/space not modelled)
        digits = z3.Plus(z3.Range(strval("0"), strval("9")))
        if not branch(z3.InRe(v.t, digits)):
            raise Unsupported("int() of a symbolic string not known to be a decimal literal")
        return sym.s_str2int(v)
    if isinstance(v, SBool):
        return mkint(to_z3int(v))
    return int(v)


def _b_bool(ip, args, kwargs):
    if not args:
        return False
    v = args[0]
    if isinstance(v, SBool):
        return v
    return ip.truth(v)


def _b_bytes(ip, args, kwargs):
    if len(args) == 1 and sym.is_bytes(args[0]):
        return args[0]
    if contains_sym(list(args)):
        raise Unsupported("bytes() of symbolic")
    return bytes(*args, **kwargs)


def _b_tuple(ip, args, kwargs):
    if not args:
        return ()
    return tuple(ip.iterate(args[0]))


def _b_list(ip, args, kwargs):
    if not args:
        return []
    return list(ip.iterate(args[0]))


def _b_getattr(ip, args, kwargs):
    if len(args) == 3:
        try:
            return ip.getattr_(args[0], args[1])
        except AttributeError:
            return args[2]
    if isinstance(args[1], Sym):
        raise Unsupported("getattr with symbolic name")
    return ip.getattr_(args[0], args[1])


def _b_hasattr(ip, args, kwargs):
    try:
        ip.getattr_(args[0], args[1])
        return True
    except AttributeError:
        return False


def _b_print(ip, args, kwargs):
    return None


def _b_all(ip, args, kwargs):
    for x in ip.iterate(args[0]):
        if not ip.truth(x):
            return False
    return True


def _b_any(ip, args, kwargs):
    for x in ip.iterate(args[0]):
        if ip.truth(x):
            return True
    return False


def _b_range(ip, args, kwargs):
    if contains_sym(list(args)):
        raise Unsupported("range with symbolic bound")
    return range(*args)


def _b_enumerate(ip, args, kwargs):
    start = kwargs.get("start", args[1] if len(args) > 1 else 0)
    return [(i + start, x) for i, x in enumerate(ip.iterate(args[0]))]


def _b_zip(ip, args, kwargs):
    return list(zip(*[ip.iterate(a) for a in args]))


def _b_iter(ip, args, kwargs):
    return iter(ip.iterate(args[0]))


def _b_dict(ip, args, kwargs):
    if contains_sym(list(args)):
        if len(args) == 1 and isinstance(args[0], dict):
            d = dict(args[0])
            d.update(kwargs)
            return d
        raise Unsupported("dict() of symbolic")
    return dict(*args, **kwargs)


def _b_min(ip, args, kwargs):
    if contains_sym(list(args)):
        raise Unsupported("min of symbolic")
    return min(*args, **kwargs)


def _b_max(ip, args, kwargs):
    if contains_sym(list(args)):
        raise Unsupported("max of symbolic")
    return max(*args, **kwargs)


def _b_id(ip, args, kwargs):
    return id(args[0])


BUILTIN_MODELS = {
    builtins.len: _b_len,
    builtins.isinstance: _b_isinstance,
    builtins.type: _b_type,
    builtins.str: _b_str,
    builtins.repr: _b_repr,
    builtins.int: _b_int,
    builtins.bool: _b_bool,
    builtins.bytes: _b_bytes,
    builtins.tuple: _b_tuple,
    builtins.list: _b_list,
    builtins.dict: _b_dict,
    builtins.getattr: _b_getattr,
    builtins.hasattr: _b_hasattr,
    builtins.print: _b_print,
    builtins.all: _b_all,
    builtins.any: _b_any,
    builtins.range: _b_range,
    builtins.enumerate: _b_enumerate,
    builtins.zip: _b_zip,
    builtins.iter: _b_iter,
    builtins.min: _b_min,
    builtins.max: _b_max,
    builtins.id: _b_id,
}
