"""C09 -- operation results mirror the server's status reply."""
from pyvc.driver import Plan
from pyvc import runner
from props import common
from props.common import U

PID = "C09"


def bounded(tier, seed):
    from bounded import client_bounded as cb
    return cb.bounded_status(PID, tier, seed)


def plan(tier):
    runner.get_index()
    from contracts import client
    pl = Plan()
    pl.level = "other"
    for m in client.SCRIPT_METHODS:
        pl.units.append(U("S3.%s" % m, "contracts.client", "h_status", (m,), setup=("contracts.client", "setup_typestate"),
                          replay=("contracts.client_replay", "replay_typestate")))
    pl.units.append(U("S1.read_line", "contracts.reader", "h_read_line", (), setup=("contracts.reader", "setup_read_line")))
    for code in ("none", "atom", "slashed"):
        pl.units.append(U("S2.parse_error.code-%s" % code, "contracts.replies", "h_parse_error", (code,), native_ok=True, sample_models=True))

    from contracts import replies
    for st in replies.STATUSES:
        for code in replies.CODES:
            for text in replies.TEXTS:
                pl.units.append(U("D.reply.%s.%s.%s" % (st, code, text), "contracts.replies", "h_status_reply", (st, code, text),
                                  setup=("contracts.reader", "setup_summaries"), native_ok=True, sample_models=True))

    pl.units.append(U("M.rename-emulated", "contracts.rename", "h_rename", (), setup=("contracts.rename", "setup_rename"),
                      replay=("contracts.rename_replay", "replay")))

    def lf(u, label):
        if u.uid == "M.rename-emulated":
            return label in ("all-steps-OK-old-present-target-free-gives-True", "only-False-True-or-Error", "boolean-result")
        return label.startswith(("S3.", "S2.", "S1.", "S4.", "R1.")) or label in ("R2.response-code", "R2.classified-text-is-the-first-line")

    pl.label_filter = lf
    pl.static = [lambda: common.shape_selftest_obs(PID)]
    pl.bounded = [bounded]
    pl.functions = [("sievelib.managesieve", "Client.%s" % m) for m in client.SCRIPT_METHODS] + \
                   [("sievelib.managesieve", "Client.__read_line"), ("sievelib.managesieve", "Client.__parse_error")]
    pl.trusted = [common.TRUSTED_SERVER, common.TRUSTED_RE, "contract of Client.__send_command: returns the status atom of the "
                  "one reply it read as 'OK' or 'NO', raises Error for BYE/silence (its reader is verified under C05)",
                  "a GETSCRIPT/LISTSCRIPTS payload is UTF-8 (conforming server)"]
    pl.unverified = ["reply shapes outside the 60 listed ones (e.g. several response-code parameters, text with more than one "
                     "escape): covered only as far as the bounded reply pool samples them"]
    pl.explanation = (
        "Deductive: D -- the REAL __read_response / __read_line / __read_block / __parse_error (reader loops replaced by their "
        "summaries proved under C05) run on 60 reply shapes {OK, NO, BYE} x {no code, atom, atom/sub, atom with a quoted "
        "parameter} x {no text, quoted, empty quoted, quoted with an escaped quote, literal} with SYMBOLIC atoms and texts and "
        "arbitrary later bytes behind the reply: the status is recognised, errcode / errmsg are exactly the code and text sent, "
        "BYE raises Error, and the reader stops exactly at the end of the reply -- for every text of the shape (line splitting, "
        "regex groups and literal counts are computed on the structure of the shaped stream, pyvc/shape.py; the shapes that "
        "fail are the listed known findings, each replayed natively). S2 -- __parse_error on `[(CODE) ] \"text\"` for every response-code atom (none / atom / atom with slash) and "
        "every non-empty text without quote, backslash, CR, LF sets errcode and errmsg to the code and the text as sent, "
        "replacing stale values (the regex groups are computed on the STRUCTURE of the shaped text, pyvc/shape.py; cvc5 "
        "closes the strip lemma). S3 -- every script operation, run authenticated against the contract of __send_command, returns "
        "True/data iff the reply was OK, False/None iff NO, and lets Error through for BYE or silence, sending exactly one "
        "command of its verb (all paths). M -- the multi-step operation (emulated rename): for every store and every outcome of "
        "every step only True / False / Error come out, and when the old script exists, the target is free and every step is "
        "answered OK the result is True. S1 -- the line classified by __read_line is the first line of the stream and a "
        "Response carries OK or NO only. Bounded (labelled bounded, exhaustive over the pool): 8 operations x 3 statuses x "
        "4 response-code shapes x 5 text shapes x values, each followed by a content-returning sentinel command; checks "
        "return value, errcode, errmsg and that the reader stopped at the end of the reply.")
    return pl
