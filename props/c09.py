"""C09 -- operation results mirror the server's status reply."""
from pyvc.driver import Plan
from pyvc import runner
from props import common
from props.common import U

PID = "C09"


def bounded(tier, seed):
    from bounded import client_bounded as cb
    return cb.bounded_status(PID, tier, seed)


def plan(tier):
    runner.get_index()
    from contracts import client
    pl = Plan()
    pl.level = "other"
    for m in client.SCRIPT_METHODS:
        pl.units.append(U("S3.%s" % m, "contracts.client", "h_status", (m,), setup=("contracts.client", "setup_typestate"),
                          replay=("contracts.client_replay", "replay_typestate")))
    pl.units.append(U("S1.read_line", "contracts.reader", "h_read_line", (), setup=("contracts.reader", "setup_read_line")))

    def lf(u, label):
        return label.startswith("S3.") or label in ("R2.response-code", "R2.classified-text-is-the-first-line")

    pl.label_filter = lf
    pl.bounded = [bounded]
    pl.functions = [("sievelib.managesieve", "Client.%s" % m) for m in client.SCRIPT_METHODS] + \
                   [("sievelib.managesieve", "Client.__read_line"), ("sievelib.managesieve", "Client.__parse_error")]
    pl.trusted = [common.TRUSTED_SERVER, common.TRUSTED_RE, "contract of Client.__send_command: returns the status atom of the "
                  "one reply it read as 'OK' or 'NO', raises Error for BYE/silence (its reader is verified under C05)",
                  "a GETSCRIPT/LISTSCRIPTS payload is UTF-8 (conforming server)"]
    pl.unverified = ["errcode/errmsg decoding for all texts: decided only on the bounded reply pool (the solvers leave the "
                     "strip/regex-group goals of __parse_error undecided: z3 5.1 and cvc5 1.0 both `unknown` within 20 s)"]
    pl.explanation = (
        "Deductive: S3 -- every script operation, run authenticated against the contract of __send_command, returns "
        "True/data iff the reply was OK, False/None iff NO, and lets Error through for BYE or silence, sending exactly one "
        "command of its verb (all paths). S1 -- the line classified by __read_line is the first line of the stream and a "
        "Response carries OK or NO only. Bounded (labelled bounded, exhaustive over the pool): 8 operations x 3 statuses x "
        "4 response-code shapes x 5 text shapes x values, each followed by a content-returning sentinel command; checks "
        "return value, errcode, errmsg and that the reader stopped at the end of the reply.")
    return pl
