"""C18 -- parse errors point at the offending place."""
from pyvc.driver import Plan
from pyvc import scan
from props import common, lexfacts
from props.common import U, static_ob

PID = "C18"


def static_frames():
    """C18.3/C18.4 frames: lexer.pos is written only by Lexer.scan and by the one-byte rewind in Parser.__argument; the
    script text is read only by the lexer's matches and by the line/column helpers (no look-ahead elsewhere)."""
    obs = []
    allowed = {("sievelib.parser", "Lexer.scan"), ("sievelib.parser", "Parser.__argument")}
    found = set()
    for mod in ("sievelib.parser", "sievelib.commands", "sievelib.factory"):
        for (enc, line, kind, target) in scan.attr_accesses(mod, "pos"):
            if kind == "load":
                continue
            found.add((mod, enc))
            obs.append(static_ob("C18.F.lexer-pos-writer.%s.line%d" % (enc, line), (mod, enc) in allowed,
                                 "%s:%d writes .pos in %s" % (mod, line, enc), "ast-scan"))
    obs.append(static_ob("C18.F.lexer-pos-writers-present", ("sievelib.parser", "Lexer.scan") in found, repr(found), "ast-scan"))
    readers = set()
    for (enc, line, kind, target) in scan.attr_accesses("sievelib.parser", "text"):
        readers.add(enc)
    obs.append(static_ob("C18.F.text-attribute-readers", readers <= {"Lexer.scan", "Lexer.curlineno", "Lexer.curcolno"},
                         "self.text used in %r" % (sorted(readers),), "ast-scan"))
    import ast
    from pyvc import runner
    fn = runner.get_index().funcs[("sievelib.parser", "Parser.parse")].node
    uses = sorted(set(ast.unparse(n) for n in ast.walk(fn) if isinstance(n, ast.Call) and isinstance(n.func, ast.Attribute)
                      and isinstance(n.func.value, ast.Name) and n.func.value.id == "text"))
    obs.append(static_ob("C18.F.parse-reads-text-only-to-encode-it", set(uses) <= {"text.encode('utf-8')"},
                         "parse() calls on the whole text: %r" % (uses,), "ast-scan"))
    return obs


def bounded_positions(tier, seed):
    from bounded import parser_bounded as pb
    return pb.bounded_positions(PID, tier, seed)


def bounded_linecol(tier, seed):
    from bounded import parser_bounded as pb
    return pb.bounded_linecol(PID, tier, seed)


def plan(tier):
    pl = Plan()
    pl.level = "other"
    pl.units = [U("S1.scan", "contracts.lexer", "h_scan", (), setup=("contracts.lexer", "setup_scan"))]
    pl.units += common.arg_layer_units("I.args", atypes=["tag", "string", "number"], adds=(True,), chks=(True,))
    pl.units.append(U("I.lookup", "contracts.gating", "h_get_command_instance", (True, True), sample_models=True, native_ok=True))
    pl.units += common.driver_units()

    def lf(u, label):
        if u.uid.startswith("PD.driver"):
            return label in ("P8.position-is-the-lexers-at-the-failure", "P8.message-carries-the-same-line", "P8.failure-gives-a-position-triple",
                             "P8.length-is-that-of-the-token-that-failed", "P8.tokens-reach-the-step-function-once-in-order-comments-never")
        if u.uid.startswith("S1"):
            return True
        if u.uid.startswith("I.lookup"):
            return label in ("G1.unknown-names-input", "G1.raise-only-when-missing", "X.lookup-raises-only-CommandError")
        return label in ("rejected-by-the-call-that-receives-it", "exception-payload", "reject.state-unchanged")

    pl.label_filter = lf
    pl.static = [static_frames, lambda: lexfacts.obligations_structure(PID), lambda: lexfacts.obligations_L1(PID)]
    pl.bounded = [bounded_positions, bounded_linecol]
    pl.functions = [("sievelib.parser", "Lexer.scan"), ("sievelib.parser", "Lexer.curlineno"), ("sievelib.parser", "Lexer.curcolno"),
                    ("sievelib.parser", "Parser.parse")] + common.ARG_FUNCTIONS
    pl.trusted = [common.TRUSTED_RE, "bytes.count / bytes.rfind (line and column arithmetic): compared exhaustively with an independent "
                  "definition on small texts (bounded)"]
    pl.unverified = ["that no exception is raised after the one-byte rewind within the same dispatch, and immediacy of push-down-level "
                     "rejections (test in command position, non-test in test position): bounded (insertion triples)"]
    pl.explanation = (
        "Deductive: (S1) Lexer.scan with a loop invariant and the combined pattern's match under contract: at every yield "
        "`pos` is inside the text, the token is non-empty and equals text[pos:pos+len] -- for a consumer that may rewind by "
        "one byte; the pattern contract rests on two discharged facts (every alternative is one whole named group; no rule "
        "matches the empty string). (I) immediacy at argument level: a surplus string/number, a tag the command does not "
        "take, an unknown command or a missing extension is rejected by the call that receives that token (verdict and "
        "payload obligations of the argument layer and of the lookup), and the handler takes line/column from the lexer "
        "position and the length from the current token (C02.R scan). Frames: only scan and the rewind write lexer.pos; "
        "parse() never reads ahead in the text. Bounded: offending-token insertion triples with LF/CRLF/space separators, "
        "multi-byte prefixes and three different continuations; exhaustive line/column arithmetic on small texts.")
    return pl
