"""C15 -- the client's view of the server stays correct over whole sessions."""
from pyvc.driver import Plan
from pyvc import runner
from props import common
from props.common import U

PID = "C15"


def bounded_sessions(tier, seed):
    from bounded import client_bounded as cb
    return cb.bounded_sessions(PID, tier, seed)


def bounded_status(tier, seed):
    from bounded import client_bounded as cb
    r = cb.bounded_status(PID, tier, seed)
    # only the in-step clause belongs to C15
    r["violations"] = [v for v in r["violations"] if v[0].endswith(".in-step")]
    r["name"] = "status-replies-in-step"
    return r


def bounded_rfc(tier, seed):
    from bounded import client_bounded as cb
    return cb.bounded_rfc_transcripts(PID, tier, seed)


def plan(tier):
    runner.get_index()
    from contracts import client
    pl = Plan()
    pl.level = "other"
    for a in (0, 1, 2):
        pl.units.append(U("I.send_command.args%d" % a, "contracts.wire", "h_send_command", (a, 0), setup=("contracts.wire", "setup_send")))
    for m in client.SCRIPT_METHODS:
        pl.units.append(U("I.%s" % m, "contracts.client", "h_status", (m,), setup=("contracts.client", "setup_typestate")))

    pl.units.append(U("I.read_response", "contracts.reader", "h_read_response", (False,), setup=("contracts.reader", "setup_read_response")))

    from contracts import replies
    for st in ("OK", "NO"):
        for code in replies.CODES:
            for text in replies.TEXTS:
                pl.units.append(U("D.reply.%s.%s.%s" % (st, code, text), "contracts.replies", "h_status_reply", (st, code, text),
                                  setup=("contracts.reader", "setup_summaries"), native_ok=True))

    # the client's own belief about the session (authenticated) agrees with the server's view of the CURRENT connection after
    # every public call, from every state: the class invariant of C10, needed here for "a legal order of commands"
    for m in client.public_methods():
        pl.units.append(U("V.%s" % m, "contracts.typestate", "h_public_method", (m,), setup=("contracts.typestate", "setup"),
                          replay=("contracts.client_replay", "replay_typestate")))

    def lf(u, label):
        if u.uid.startswith("V."):
            return label.startswith(("A1.", "A2."))
        return label in ("W3.everything-sent-before-the-single-read", "W3.one-sendall-per-line", "S3.exactly-one-command",
                         "S4.reader-stops-exactly-at-the-end-of-the-reply") \
            or label.startswith("R3.") or ".loop0." in label

    pl.label_filter = lf
    pl.bounded = [bounded_sessions, bounded_status, bounded_rfc]
    pl.functions = [("sievelib.managesieve", "Client.__send_command")] + \
                   [("sievelib.managesieve", "Client.%s" % m) for m in client.SCRIPT_METHODS]
    pl.trusted = [common.TRUSTED_SERVER, common.TRUSTED_ENV_SOCKET]
    pl.unverified = ["`what the client reports equals the server's state` is the conjunction of C09 (status), C17 (names and "
                     "bodies) and C14 (rename) per call; the induction over the call sequence needs the in-step invariant, which is "
                     "decided deductively only for its send side (one command, one read) and bounded for the read side"]
    pl.explanation = (
        "Deductive: every script operation issues exactly one __send_command, __send_command writes one command and "
        "then performs exactly one response read, and that read (__read_response over the verified readers' contracts) "
        "stops exactly at the status line, after reading every announced literal in full (so requests and replies are paired one to one as long as each read "
        "consumes exactly one reply); V -- after every public call, from every state, `authenticated` implies that AUTHENTICATE "
        "was answered OK on the current connection, and script verbs are sent only then (the server only receives commands in a "
        "legal order); D -- on 40 OK/NO reply shapes with symbolic atoms and texts, followed by arbitrary later "
        "bytes, the real reader (loops summarised by their C05 contracts) leaves exactly the later bytes unread whenever it "
        "returns (the OK-with-literal-text shapes fail: listed finding). Bounded (labelled bounded): that each read stops at the end of its reply, over the "
        "status-reply pool with a content-returning sentinel; and seeded random sessions of 6 operations against the "
        "executable reference server with recv limits 1..4096, comparing the client's report with the server's store after "
        "every step and logging any server-side protocol violation.")
    return pl
