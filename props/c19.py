"""C19 -- what you put into a filter is what you read back."""
from pyvc.driver import Plan
from props import common
from props.common import U

PID = "C19"


def bounded_readback(tier, seed):
    from bounded import factory_bounded as fb
    return fb.bounded_readback(PID, tier, seed)


def plan(tier):
    pl = Plan()
    pl.level = "other"
    for a in ("fileinto", "redirect", "reject"):
        for d in (False, True):
            pl.units.append(U("RB.action.%s.%s" % (a, "disabled" if d else "enabled"), "contracts.readback", "h_action_readback", (a, d), native_ok=True, sample_models=True))
    for m in (":is", ":contains", ":matches", ":notis", ":notcontains", ":notmatches"):
        for d in (False, True):
            pl.units.append(U("RB.header%s.%s" % (m, "disabled" if d else "enabled"), "contracts.readback", "h_header_readback", (m, d), native_ok=True, sample_models=True))
    from contracts import readback as rb
    for k in rb.CONDITION_KINDS:
        for d in (False, True):
            pl.units.append(U("RB.condition.%s.%s" % (k, "disabled" if d else "enabled"), "contracts.readback", "h_condition_readback", (k, d),
                              native_ok=True, sample_models=True))
    for k in (1, 2, 3):
        for neg_ in (False, True):
            for d in (False, True):
                pl.units.append(U("RB.%s%d.%s" % ("notexists" if neg_ else "exists", k, "disabled" if d else "enabled"), "contracts.readback",
                                  "h_exists_readback", (k, neg_, d), native_ok=True, sample_models=True))
    for k in rb.ACTION_KINDS:
        for d in (False, True):
            pl.units.append(U("RB.actions.%s.%s" % (k, "disabled" if d else "enabled"), "contracts.readback", "h_action_forms_readback", (k, d),
                              native_ok=True, sample_models=True))
    for d in (False, True):
        pl.units.append(U("RB.updated.%s" % ("disabled" if d else "enabled"), "contracts.readback", "h_updated_readback", (d,),
                          native_ok=True, sample_models=True))
    pl.static = [lambda: common.shape_selftest_obs(PID)]
    pl.bounded = [bounded_readback]
    pl.functions = [("sievelib.factory", "FiltersSet.get_filter_conditions"), ("sievelib.factory", "FiltersSet.get_filter_actions"),
                    ("sievelib.factory", "FiltersSet.get_filter_matchtype"), ("sievelib.factory", "FiltersSet.getfilter"),
                    ("sievelib.commands", "ActionCommand.args_as_tuple"), ("sievelib.commands", "HeaderCommand.args_as_tuple"),
                    ("sievelib.commands", "Command.walk"), ("sievelib.tools", "to_list")]
    pl.trusted = [common.TRUSTED_STRIP]
    pl.unverified = ["read-back from the RELOADED set (it goes through the whole parser) and values containing a comma, quote or "
                     "backslash: BOUNDED only (comma values are the listed finding)"]
    pl.explanation = (
        "Deductive: for every value without comma, quote or backslash (symbolic, all such strings) and every header name that "
        "is not a condition keyword: an action (fileinto/redirect/reject value) and a header condition (name, match type incl. "
        "the three :not forms, value) are read back unchanged by get_filter_actions / get_filter_conditions, with the "
        "negation folded back into the tag and anyof reported, both for the enabled and the disabled filter (cvc5 discharges "
        "the strip lemma). The same for every other supported condition kind -- size, envelope (single, list, negated), "
        "body (with transform, negated, several keys), currentdate (:is, negated, :value), exists / notexists with 1-3 names, "
        "two conditions under allof / anyof -- and for actions with value-less tags, two actions, stop / discard, and for "
        "updatefilter (conditions, actions and match type replaced, enabled status kept): the REAL addfilter / updatefilter / "
        "disablefilter / get_filter_* / args_as_tuple / tools.to_list run end to end on SYMBOLIC values; the comma splitting, "
        "slicing and quote stripping of the read-back path are computed on the structure of the rendered strings "
        "(pyvc/shape.py), exactly. Bounded: 21 condition forms x actions x values (spaces, non-ASCII, commas, brackets) x "
        "{anyof, allof} x {original, disabled, reloaded}; comma values and the kinds that are never read back are REFUTED "
        "there (known findings).")
    return pl
