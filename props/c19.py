"""C19 -- what you put into a filter is what you read back."""
from pyvc.driver import Plan
from props import common
from props.common import U

PID = "C19"


def bounded_readback(tier, seed):
    from bounded import factory_bounded as fb
    return fb.bounded_readback(PID, tier, seed)


def plan(tier):
    pl = Plan()
    pl.level = "other"
    for a in ("fileinto", "redirect", "reject"):
        for d in (False, True):
            pl.units.append(U("RB.action.%s.%s" % (a, "disabled" if d else "enabled"), "contracts.readback", "h_action_readback", (a, d), native_ok=True, sample_models=True))
    for m in (":is", ":contains", ":matches", ":notis", ":notcontains", ":notmatches"):
        for d in (False, True):
            pl.units.append(U("RB.header%s.%s" % (m, "disabled" if d else "enabled"), "contracts.readback", "h_header_readback", (m, d), native_ok=True, sample_models=True))
    pl.bounded = [bounded_readback]
    pl.functions = [("sievelib.factory", "FiltersSet.get_filter_conditions"), ("sievelib.factory", "FiltersSet.get_filter_actions"),
                    ("sievelib.factory", "FiltersSet.get_filter_matchtype"), ("sievelib.factory", "FiltersSet.getfilter"),
                    ("sievelib.commands", "ActionCommand.args_as_tuple"), ("sievelib.commands", "HeaderCommand.args_as_tuple"),
                    ("sievelib.commands", "Command.walk"), ("sievelib.tools", "to_list")]
    pl.trusted = [common.TRUSTED_STRIP]
    pl.unverified = ["read-back of list-valued conditions (envelope, address, body, currentdate, exists) and of the reloaded set: "
                     "BOUNDED only -- tools.to_list splits on commas with str.split, which the solvers do not decide; the deductive "
                     "part covers string-valued actions and header conditions incl. negation folding, enabled and disabled"]
    pl.explanation = (
        "Deductive: for every value without comma, quote or backslash (symbolic, all such strings) and every header name that "
        "is not a condition keyword: an action (fileinto/redirect/reject value) and a header condition (name, match type incl. "
        "the three :not forms, value) are read back unchanged by get_filter_actions / get_filter_conditions, with the "
        "negation folded back into the tag and anyof reported, both for the enabled and the disabled filter (cvc5 discharges "
        "the strip lemma). Bounded: 21 condition forms x actions x values (spaces, non-ASCII, commas, brackets) x "
        "{anyof, allof} x {original, disabled, reloaded}; comma values and the kinds that are never read back are REFUTED "
        "there (known findings).")
    return pl
