"""C03 -- accepted scripts are represented faithfully: nothing dropped or invented."""
from pyvc.driver import Plan
from props import common
from props.common import U

PID = "C03"


def bounded_tokens(tier, seed):
    from bounded import parser_bounded as pb
    return pb.bounded_tokens(PID, tier, seed)


def bounded_generated(tier, seed):
    from bounded import parser_bounded as pb
    return pb.bounded_generated(PID, tier, seed)


def bounded_corner_trees(tier, seed):
    from bounded import parser_bounded as pb
    return pb.bounded_rfc_corner_trees(PID, tier, seed)


def plan(tier):
    pl = Plan()
    pl.level = "other"
    pl.units = common.arg_layer_units("A6", chks=(True,))
    pl.units.append(U("A6.optional-positional.AddflagCommand", "contracts.arglayer", "h_optional_positional", ("AddflagCommand",), native_ok=True, sample_models=True))
    pl.units.append(U("A6.optional-positional.SetflagCommand", "contracts.arglayer", "h_optional_positional", ("SetflagCommand",), native_ok=True, sample_models=True))
    pl.units.append(U("A6.optional-positional.RemoveflagCommand", "contracts.arglayer", "h_optional_positional", ("RemoveflagCommand",), native_ok=True, sample_models=True))
    pl.units.append(U("A6.optional-positional.HasflagCommand", "contracts.arglayer", "h_optional_positional", ("HasflagCommand",), native_ok=True, sample_models=True))
    pl.units.append(U("A6.reassign.HasflagCommand", "contracts.arglayer", "h_reassign", ("HasflagCommand",), native_ok=True, sample_models=True))
    pl.units.append(U("U.addchild", "contracts.arglayer", "h_addchild", (), native_ok=True, sample_models=True))

    pl.units += common.pushdown_units()

    def lf(u, label):
        if u.uid.startswith("PD."):
            return label.startswith(("P1.", "P2.", "P3.", "P4.", "P5.", "P6.", "P7."))
        return label.startswith(("record.", "optpos.", "addchild.")) or label in ("reject.frame", "inv")

    pl.label_filter = lf
    pl.bounded = [bounded_tokens, bounded_generated, bounded_corner_trees]
    pl.functions = common.ARG_FUNCTIONS + [("sievelib.commands", "Command.addchild"),
                                           ("sievelib.commands", "HasflagCommand.reassign_arguments")] + common.PUSHDOWN_FUNCTIONS
    pl.trusted = [common.TRUSTED_LOWER, "independent reference tree builder bounded/sieve_ref.py (oracle of the bounded part)"]
    pl.unverified = ["the COMPOSITION of the push-down steps over a whole token sequence (attachment of finished commands/tests to the "
                     "right parent): each step function is under contract (PD), their composition is BOUNDED only (tree equality with "
                     "the reference builder on the enumerated domain)"]
    pl.explanation = (
        "Deductive: the recording frame of check_next_arg for every class/state/type/value -- an accepted argument updates "
        "exactly one of arguments[slot], extra_arguments[tag slot], or appends to the test list, with the value given, and "
        "nothing else changes; rejected arguments record nothing; with add=False nothing is recorded; addchild appends "
        "exactly the child. The optional positional of setflag/addflag/removeflag/hasflag is checked at sequence level (two "
        "strings must both be recorded) and is REFUTED there (known finding). Bounded: tree equality with the reference "
        "builder on token sequences up to 4/5 and generated scripts." + common.PUSHDOWN_TEXT)
    return pl
