"""C16 -- SASL: the right mechanism, carrying exactly the caller's credentials."""
from pyvc.driver import Plan
from props import common
from props.common import U

PID = "C16"


def plan(tier):
    pl = Plan()
    pl.level = "proof"
    for case in ["none", "other", "DIGEST-MD5", "PLAIN", "LOGIN", "OAUTHBEARER"]:
        pl.units.append(U("M.%s" % case, "contracts.client", "h_authenticate", (case,),
                          setup=("contracts.client", "setup_selection"), replay=("contracts.client_replay", "replay_selection")))
    pl.units.append(U("P.plain", "contracts.client", "h_plain", (), setup=("contracts.client", "setup_typestate"),
                      replay=("contracts.client_replay", "replay_payload")))
    pl.units.append(U("P.login", "contracts.client", "h_login", (), setup=("contracts.client", "setup_typestate"),
                      replay=("contracts.client_replay", "replay_payload")))
    for as_str in (False, True):
        pl.units.append(U("P.oauthbearer.%s" % ("str" if as_str else "bytes"), "contracts.client", "h_oauthbearer", (as_str,),
                          setup=("contracts.client", "setup_typestate"), replay=("contracts.client_replay", "replay_payload")))
    pl.units.append(U("D.digest-md5", "contracts.client", "h_digest", (), setup=("contracts.client", "setup_typestate"),
                      replay=("contracts.client_replay", "replay_digest")))

    def lf(u, label):
        return label.startswith(("M.", "P.", "D."))

    pl.label_filter = lf

    def bounded_auth(tier, seed):
        from bounded import auth_bounded as ab
        return ab.bounded_auth(PID, tier, seed)

    pl.bounded = [bounded_auth]
    pl.functions = [("sievelib.managesieve", "Client.__authenticate"), ("sievelib.managesieve", "Client.get_sasl_mechanisms"),
                    ("sievelib.managesieve", "Client._plain_authentication"),
                    ("sievelib.managesieve", "Client._login_authentication"),
                    ("sievelib.managesieve", "Client._oauthbearer_authentication"),
                    ("sievelib.managesieve", "Client._digest_md5_authentication"),
                    ("sievelib.digest_md5", "DigestMD5.__init__")]
    pl.trusted = [common.TRUSTED_B64, common.TRUSTED_UTF8,
                  "str.split(): the set of announced mechanism names is an uninterpreted function of the SASL capability string",
                  "contract of Client.__send_command (C08.W3)"]
    pl.unverified = ["DIGEST-MD5 response arithmetic (RFC 2831): the module cannot run under Python 3 (known finding)",
                     "quoting of the AUTHENTICATE arguments on the wire (base64 output needs no escaping; C08.W1)"]
    pl.explanation = (
        "Mechanism selection: __authenticate executed with the announced-mechanism set symbolic and the four mechanism "
        "methods replaced by recording contracts, for authmech absent / each implemented name / any other string: at "
        "most one method invoked, exactly the one the property names, with the caller's UTF-8 encoded credentials, "
        "nothing invoked when none qualifies or SASL is not announced, authenticated set only on True. Payloads: PLAIN, "
        "LOGIN and OAUTHBEARER messages as sequence equalities over an abstract base64 (RFC 4616 / RFC 7628 layouts, the "
        "OAUTHBEARER authorisation identity as an RFC 5801 saslname). Bounded (labelled bounded, exhaustive over the pools): the "
        "real connect() against a strict SASL reference server -- 16 announced sets (look-alike names, unknown ones, none, no "
        "SASL line) x 7 preferences x {OK, NO}, and PLAIN / LOGIN / OAUTHBEARER x credential pools (non-ASCII, comma, equals, "
        "quote, backslash, escape look-alikes, base64 outputs with + and /): mechanism asked for, strictly decoded "
        "credentials, verdict, nothing left unread.")
    return pl
