"""C13 -- parsing and filter building are independent of what happened before."""
import ast

from pyvc.driver import Plan, Ob
from pyvc import runner, scan
from props import common
from props.common import U, static_ob

PID = "C13"


def static_H1():
    """Every mutable location of Parser / Lexer / module level is (a) given a fresh value by the parse prologue before any
    read, (b) configuration written only by __init__, or (c) write-only for the parser (error, error_pos)."""
    idx = runner.get_index()
    obs = []
    stores = scan.all_attr_stores("sievelib.parser")
    reset = set(a for (enc, line, a, tgt, k) in stores if enc == "Parser.__reset_parser" and tgt == "self")
    init_p = set(a for (enc, line, a, tgt, k) in stores if enc == "Parser.__init__" and tgt == "self")
    for (enc, line, attr, tgt, kind) in stores:
        if enc.startswith("Parser.") and tgt == "self":
            others = [e for (e, l, a, t, k) in stores if a == attr and t == "self" and e.startswith("Parser.") and e != "Parser.__init__"]
            ok = attr in reset or (attr in init_p and not others) or attr in ("error", "error_pos")
            obs.append(static_ob("C13.H1.parser-field.%s.written-in.%s" % (attr, enc), ok,
                                 "parser.py:%d Parser.%s is written in %s but not reset by __reset_parser" % (line, attr, enc), "ast-scan"))
        elif enc.startswith("Lexer.") and tgt == "self":
            ok = enc == "Lexer.__init__" or (enc == "Lexer.scan" and attr in ("pos", "text"))
            obs.append(static_ob("C13.H1.lexer-field.%s.written-in.%s" % (attr, enc), ok, "parser.py:%d" % line, "ast-scan"))
        else:
            ok = (tgt == "self.lexer" and attr == "pos" and enc == "Parser.__argument") or \
                 (tgt == "self.__curcommand" and attr == "hash_comments" and enc == "Parser.__up") or \
                 (tgt == "RequireCommand" and attr == "loaded_extensions" and enc == "Parser.__reset_parser") or \
                 (tgt == "self" and enc.split(".")[0] in ("ParseError",))
            obs.append(static_ob("C13.H1.other-store.%s.%s.in.%s" % (tgt, attr, enc), ok,
                                 "parser.py:%d store to %s.%s in %s" % (line, tgt, attr, enc), "ast-scan"))
    # prologue: scan starts with pos/text, parse calls __reset_parser before the try
    scan_fn = idx.funcs[("sievelib.parser", "Lexer.scan")].node
    body = [s for s in scan_fn.body if not (isinstance(s, ast.Expr) and isinstance(s.value, ast.Constant))]
    obs.append(static_ob("C13.H1.scan-prologue", [ast.unparse(s) for s in body[:2]] == ["self.pos = 0", "self.text = text"],
                         "scan starts with %r" % [ast.unparse(s) for s in body[:2]], "ast-scan"))
    parse_fn = idx.funcs[("sievelib.parser", "Parser.parse")].node
    body = [s for s in parse_fn.body if not (isinstance(s, ast.Expr) and isinstance(s.value, ast.Constant))]
    srcs = [ast.unparse(s) for s in body]
    k_reset = next((i for i, s in enumerate(srcs) if s == "self.__reset_parser()"), None)
    k_try = next((i for i, s in enumerate(body) if isinstance(s, ast.Try)), None)
    obs.append(static_ob("C13.H1.parse-resets-before-anything-else", k_reset is not None and k_try is not None and k_reset < k_try
                         and all(("isinstance(text, str)" in srcs[i]) for i in range(k_reset)), "parse prologue: %r" % srcs[:3], "ast-scan"))
    # commands.py: shared state
    for (enc, line, attr, tgt, kind) in scan.all_attr_stores("sievelib.commands"):
        if tgt != "self":
            ok = (tgt == "RequireCommand" and attr == "loaded_extensions" and enc == "RequireCommand.complete_cb")
            obs.append(static_ob("C13.H1.commands-shared-store.%s.%s.in.%s" % (tgt, attr, enc), ok,
                                 "commands.py:%d store to %s.%s" % (line, tgt, attr), "ast-scan"))
    tree = idx.trees["sievelib.commands"]
    aug = set(n.target for n in ast.walk(tree) if isinstance(n, ast.AugAssign))
    for n in ast.walk(tree):
        if isinstance(n, ast.Subscript) and (isinstance(n.ctx, (ast.Store, ast.Del)) or n in aug):
            base = ast.unparse(n.value)
            obs.append(static_ob("C13.H1.commands-item-store.line%d" % n.lineno, (base.startswith("self.") or base == "globals()"),
                                 "commands.py:%d item store into %s (a shared table?)" % (n.lineno, base), "ast-scan"))
    return obs


def static_H2():
    """FiltersSet never consults the process-global extension registry: every factory call of check_next_arg("tag", ...)
    / get_command_instance on a command that has an extension-gated tag (or is itself gated) switches the check off."""
    idx = runner.get_index()
    from sievelib import commands
    obs = []
    tree = idx.trees["sievelib.factory"]
    for fn in ast.walk(tree):
        if not isinstance(fn, ast.FunctionDef):
            continue
        assigns = []  # (lineno, var, command name or None)
        for n in ast.walk(fn):
            if isinstance(n, ast.Assign) and isinstance(n.value, ast.Call):
                f = n.value.func
                fname = f.attr if isinstance(f, ast.Attribute) else (f.id if isinstance(f, ast.Name) else None)
                if fname == "get_command_instance" and isinstance(n.targets[0], ast.Name):
                    a0 = n.value.args[0] if n.value.args else None
                    assigns.append((n.lineno, n.targets[0].id, a0.value if isinstance(a0, ast.Constant) else None, n.value))
        for (line, var, cname, call) in assigns:
            off = (len(call.args) >= 3 and isinstance(call.args[2], ast.Constant) and call.args[2].value is False) or \
                any(k.arg == "checkexists" and isinstance(k.value, ast.Constant) and k.value.value is False for k in call.keywords)
            if cname is None:
                gated = True  # name computed at run time (action / matchtype names): must not be checked against the registry
                if var in ("mtypeobj",):
                    gated = False  # anyof / allof: documented values, no extension
                if var == "cmd" and ast.unparse(call.args[0]) == "c[0]":
                    gated = False  # true / false
            else:
                cls = vars(commands).get("%sCommand" % cname.capitalize())
                gated = bool(cls is not None and cls.extension)
            if gated:
                obs.append(static_ob("C13.H2.lookup-independent-of-registry.%s.line%d" % (fn.name, line), off,
                                     "factory.py:%d get_command_instance(%s) consults RequireCommand.loaded_extensions" % (line, cname or "<computed>"), "ast-scan"))
        for n in ast.walk(fn):
            if isinstance(n, ast.Call) and isinstance(n.func, ast.Attribute) and n.func.attr == "check_next_arg" and n.args \
                    and isinstance(n.args[0], ast.Constant) and n.args[0].value == "tag" and isinstance(n.func.value, ast.Name):
                var = n.func.value.id
                prev = [a for a in assigns if a[1] == var and a[0] <= n.lineno]
                cname = prev[-1][2] if prev else None
                off = any(k.arg == "check_extension" and isinstance(k.value, ast.Constant) and k.value.value is False for k in n.keywords) \
                    or (len(n.args) >= 4 and isinstance(n.args[3], ast.Constant) and n.args[3].value is False)
                cls = vars(commands).get("%sCommand" % cname.capitalize()) if cname else None
                gated = cls is None or any(("extension" in s or "extension_values" in s) for s in cls.args_definition if "tag" in s["type"])
                if gated:
                    obs.append(static_ob("C13.H2.tag-check-independent-of-registry.%s.line%d" % (fn.name, n.lineno), off,
                                         "factory.py:%d %s.check_next_arg('tag', ...) on a %s command consults "
                                         "RequireCommand.loaded_extensions" % (n.lineno, var, cname), "ast-scan"))
    return obs


def bounded_histories(tier, seed):
    from bounded import parser_bounded as pb
    return pb.bounded_histories(PID, tier, seed)


def plan(tier):
    pl = Plan()
    pl.level = "other"
    pl.units = [U("H1.reset", "contracts.gating", "h_reset_parser_full", (), native_ok=True, sample_models=True),
                U("H1.complete_cb", "contracts.gating", "h_complete_cb_string", (), native_ok=True, sample_models=True)]
    pl.static = [static_H1, static_H2]
    pl.bounded = [bounded_histories]
    pl.functions = [("sievelib.parser", "Parser.__reset_parser"), ("sievelib.parser", "Parser.parse"), ("sievelib.parser", "Lexer.scan"),
                    ("sievelib.commands", "RequireCommand.complete_cb"), ("sievelib.factory", "FiltersSet.__create_filter"),
                    ("sievelib.factory", "FiltersSet.__build_condition")]
    pl.trusted = ["the AST inventory of stores is complete for attribute and item stores written syntactically (no setattr/exec in the "
                  "modules -- checked: no call to setattr/exec/eval/__dict__ in parser.py and commands.py)"]
    pl.unverified = ["interleaving with other Parser / FiltersSet objects beyond the shared locations inventoried: bounded (script "
                     "histories on one reused Parser and interleaved FiltersSet calls, compared with a pristine interpreter)"]
    pl.explanation = (
        "Deductive / frame: the set of ALL stores in parser.py and commands.py is computed from the AST; each Parser field is "
        "re-assigned by __reset_parser (or is constructor-only configuration, or the write-only error fields), Lexer.pos/text "
        "are assigned by the first two statements of scan, parse() resets before anything else, the only shared location "
        "(RequireCommand.loaded_extensions) is replaced by a fresh empty list on every parse (executed symbolically), and no "
        "store into a command table exists. H2: every factory call site that can consult the global registry must switch "
        "the check off -- REFUTED at five sites (known finding). Bounded: histories of <= 3 scripts from a 12-script corpus "
        "on one reused Parser, interleaved with FiltersSet calls, each outcome compared with a pristine interpreter.")
    return pl
