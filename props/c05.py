"""C05 -- replies are read identically however the bytes are segmented."""
from pyvc.driver import Plan
from pyvc import scan
from props import common
from props.common import U, static_ob

PID = "C05"


def static_frame():
    """C05.F: only __read_block / __read_line touch the read buffer or call recv (so every other function sees the
    stream through them, i.e. through `avail` = buffer ++ not-yet-received)."""
    obs = []
    allowed = {"Client.__init__", "Client.__read_block", "Client.__read_line"}
    seen = set()
    for (enc, line, kind, target) in scan.attr_accesses("sievelib.managesieve", "__read_buffer"):
        seen.add(enc)
        obs.append(static_ob("C05.F.read-buffer-access.%s.line%d" % (enc, line), enc in allowed,
                             "managesieve.py:%d %s of __read_buffer in %s" % (line, kind, enc), "ast-scan"))
    for (enc, line, node) in scan.calls_to("sievelib.managesieve", "recv"):
        seen.add(enc)
        obs.append(static_ob("C05.F.recv-call.%s.line%d" % (enc, line), enc in allowed,
                             "managesieve.py:%d recv() called in %s" % (line, enc), "ast-scan"))
    obs.append(static_ob("C05.F.readers-present", {"Client.__read_block", "Client.__read_line"} <= seen,
                         "reader functions not found: %r" % (seen,), "ast-scan"))
    # literals are read with the announced count: the only callers of __read_block pass the number between the braces
    calls = scan.calls_to("sievelib.managesieve", "__read_block")
    import ast
    for (enc, line, node) in calls:
        src = ast.unparse(node.args[0]) if node.args else ""
        ok = (enc == "Client.__read_response" and src == "inst.value") or \
             (enc == "Client.__parse_error" and src == "int(m.group(1)) + 2")
        obs.append(static_ob("C05.R3.literal-count.%s.line%d" % (enc, line), ok,
                             "managesieve.py:%d __read_block(%s) in %s" % (line, src, enc), "ast-scan"))
    obs.append(static_ob("C05.R3.literal-readers-present", len(calls) == 2, "calls: %d" % len(calls), "ast-scan"))
    return obs


def bounded(tier, seed):
    from bounded import client_bounded as cb
    return cb.bounded_segmentation(PID, tier, seed)


def plan(tier):
    pl = Plan()
    pl.level = "proof"
    pl.units = [U("R1.read_block", "contracts.reader", "h_read_block", (), setup=("contracts.reader", "setup_reader"),
                  replay=("contracts.reader_replay", "replay_read_block")),
                U("R2.read_line", "contracts.reader", "h_read_line", (), setup=("contracts.reader", "setup_read_line"),
                  replay=("contracts.reader_replay", "replay_read_line")),
                U("R3.read_response.all-lines", "contracts.reader", "h_read_response", (False,), setup=("contracts.reader", "setup_read_response")),
                U("R3.read_response.nblines", "contracts.reader", "h_read_response", (True,), setup=("contracts.reader", "setup_read_response"))]
    pl.static = [static_frame]
    pl.bounded = [bounded]
    pl.functions = [("sievelib.managesieve", "Client.__read_block"), ("sievelib.managesieve", "Client.__read_line"),
                    ("sievelib.managesieve", "Client.__read_response"), ("sievelib.managesieve", "Client.__parse_error")]
    pl.trusted = [common.TRUSTED_ENV_SOCKET, common.TRUSTED_RE,
                  "Literal.value is the integer between the braces (int() of the digits group; '%d'/int as an abstract inverse pair)"]
    pl.trusted.append("conforming server: the octets of a literal are followed by SP or CRLF (what is left of that line is data, "
                      "not a status or size line)")
    pl.unverified = ["EOF (recv returning b''): outside the conforming-server assumption; __read_line then returns an empty line",
                     "the decoding performed by __read_response/__parse_error on top of the two readers is examined per reply shape "
                     "under C09/C17 (bounded there)"]
    pl.explanation = (
        "Deductive: __read_block(size) and __read_line() are verified against a demonic recv() (any non-empty prefix of "
        "what the server sent, of any length up to the request): each returns a function of the unread stream avail = "
        "buffer ++ inbound and leaves avail minus exactly the consumed prefix (loop invariants buf ++ buffer ++ inbound = "
        "avail0 with variant, resp. buffer ++ inbound = avail0; cvc5 discharges the first-CRLF goals). __read_response is then verified over "
        "the two readers' contracts (typestate with a ghost consumption log): no read after the status line, an announced "
        "literal is read with exactly the announced count before anything else, only Error escapes. Frame scan: no other "
        "function touches the buffer or calls recv. Lemma (two lines over "
        "the contracts): every client result and the residual stream are functions of the concatenated stream, not of its "
        "segmentation. Bounded complement (labelled bounded): end-to-end replays of 10 replies under every single/double "
        "cut and recv limits 1/2/3/7/64 with a sentinel command.")
    return pl
