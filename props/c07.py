"""C07 -- extension use is gated by require (DESIGN.md section 4, C07)."""
import ast

from pyvc.driver import Plan, Ob
from pyvc.runner import Unit
from pyvc import runner, scan
from props import common
from props.common import static_ob

PID = "C07"


def static_G3_G4_N():
    """Frame of the registry: who writes / reads RequireCommand.loaded_extensions; flags left at default in parser.py."""
    obs = []
    writers = []
    readers = []
    for mod in ("sievelib.commands", "sievelib.parser", "sievelib.factory", "sievelib.managesieve", "sievelib.tools"):
        for (enc, line, kind, target) in scan.attr_accesses(mod, "loaded_extensions"):
            (readers if kind == "load" else writers).append((mod, enc, kind, target))
    allowed_w = {("sievelib.parser", "Parser.__reset_parser", "store"),
                 ("sievelib.commands", "RequireCommand.complete_cb", "augstore")}
    for w in writers:
        obs.append(static_ob("C07.G3.frame.writer.%s:%s" % (w[0], w[1]), (w[0], w[1], w[2]) in allowed_w and
                             w[3] == "RequireCommand",
                             "store to loaded_extensions in %s:%s (%s on %s)" % w, "ast-scan"))
    obs.append(static_ob("C07.G3.frame.writers-present", {(w[0], w[1], w[2]) for w in writers} == allowed_w,
                         "writers found: %r" % (writers,), "ast-scan"))
    allowed_r = {("sievelib.commands", "Command.__is_valid_value_for_arg"), ("sievelib.commands", "Command.check_next_arg"),
                 ("sievelib.commands", "RequireCommand.complete_cb"), ("sievelib.commands", "get_command_instance")}
    for r in readers:
        obs.append(static_ob("C07.N.frame.reader.%s:%s" % (r[0], r[1]), (r[0], r[1]) in allowed_r,
                             "read of loaded_extensions in %s:%s" % (r[0], r[1]), "ast-scan"))
    # G4: the parser never switches the checks off
    for fname, flag, pos in (("get_command_instance", "checkexists", 2), ("check_next_arg", "check_extension", 3)):
        calls = scan.calls_to("sievelib.parser", fname)
        obs.append(static_ob("C07.G4.parser-calls.%s.present" % fname, len(calls) >= 1, "no call found", "ast-scan"))
        for (enc, line, node) in calls:
            kws = [k.arg for k in node.keywords]
            ok = flag not in kws and None not in kws and len(node.args) <= pos and not any(
                isinstance(a, ast.Starred) for a in node.args)
            obs.append(static_ob("C07.G4.parser-calls.%s.%s.line-flag-default" % (fname, enc), ok,
                                 "parser.py:%d passes %s (or *args/**kwargs) to %s" % (line, flag, fname), "ast-scan"))
    return obs


def static_T():
    """Every (command | tag) -> capability pair of the frozen RFC table is present in the code's tables."""
    runner.get_index()
    from sievelib import commands
    from contracts import tables_frozen as frozen
    obs = []
    for (cmd, tag, ext) in frozen.extension_pairs():
        cname = "%sCommand" % cmd.lower().capitalize()
        cls = vars(commands).get(cname)
        oid = "C07.T.%s%s.%s" % (cmd, tag or "", ext)
        if cls is None:
            obs.append(static_ob(oid, False, "class %s missing" % cname))
            continue
        if tag is None:
            obs.append(static_ob(oid, getattr(cls, "extension", None) == ext,
                                 "%s.extension is %r, RFC table says %r" % (cname, getattr(cls, "extension", None), ext)))
            continue
        found = False
        for slot in cls.args_definition:
            if "tag" not in slot.get("type", []):
                continue
            if tag in slot.get("values", []) and slot.get("extension") == ext:
                found = True
            if slot.get("extension_values", {}).get(tag) == ext:
                found = True
            if tag in slot.get("values", []) and slot.get("extension_values", {}).get(tag) == ext:
                found = True
        ob = static_ob(oid, found, "%s: tag %s is not tied to capability %r in args_definition" % (cname, tag, ext))
        if not found:
            ob.native = common.table_replay(cmd, drop_ext=ext)
        obs.append(ob)
    for ob in obs:
        if ob.status == "refuted" and ob.native is None:
            parts = ob.oid.split(".")
            ob.native = common.table_replay(parts[2].split(":")[0], drop_ext=parts[-1])
    return obs


def plan(tier):
    pl = Plan()
    pl.level = "proof"
    pl.units = common.arg_layer_units("G2") + common.arg_support_units("G2")
    from contracts import gating
    for chk in (True, False):
        pl.units.append(Unit("G1.any-name.%s" % ("chk" if chk else "nochk"), "contracts.gating", "h_get_command_instance",
                             (chk, False), meta={"sample_models": True, "native_ok": True}))
    for cn in sorted(gating.command_classes()):
        if cn in ("Command", "ControlCommand", "ActionCommand", "TestCommand", "UnknownCommand"):
            continue
        for chk in (True, False):
            pl.units.append(Unit("G1.%s.%s" % (cn, "chk" if chk else "nochk"), "contracts.gating", "h_gci_class",
                                 (cn, chk), meta={"sample_models": True, "native_ok": True}))
    pl.units.append(Unit("G3.complete_cb.string", "contracts.gating", "h_complete_cb_string", (),
                         meta={"sample_models": True, "native_ok": True}))
    for n in (0, 1, 2, 3):
        pl.units.append(Unit("G3.complete_cb.list%d" % n, "contracts.gating", "h_complete_cb_list", (n,),
                             meta={"sample_models": True, "native_ok": True}))
    pl.units.append(Unit("G3.complete_cb.anylist", "contracts.gating", "h_complete_cb_anylist", (),
                         setup=("contracts.gating", "setup_complete_cb")))
    pl.units.append(Unit("G3.reset", "contracts.gating", "h_reset_parser", (), meta={"native_ok": True, "sample_models": True}))
    pl.units.append(Unit("N.message", "contracts.gating", "h_message", (), meta={"native_ok": True, "sample_models": True}))

    # message clause: an ExtensionNotLoaded raised by a gate travels unchanged through the parser's step functions
    pl.units += [u for u in common.pushdown_units() if u.uid.startswith(("PD.arguments.identifier", "PD.command.identifier"))]
    pl.units += common.driver_units()

    def label_filter(u, label):
        if u.uid.startswith("PD."):
            return label.endswith("lookup-error-reaches-the-funnel-unchanged") or label in (
                "P8.message-is-the-text-of-the-exception-raised-below", "P8.failure-gives-line-N-message", "P8.parse-never-raises")
        if u.uid.startswith("G2."):
            return label.startswith("gate.") or label in ("frame.loaded_extensions", "inv", "iscomplete.inv", "init.state")
        return not label.startswith("X.")

    pl.label_filter = label_filter

    def bounded_removal(tier, seed):
        from bounded import parser_bounded as pb
        return pb.bounded_removal(PID, tier, seed)

    pl.bounded = [bounded_removal]
    pl.static = [static_G3_G4_N, static_T]
    pl.functions = common.ARG_FUNCTIONS + [("sievelib.commands", "get_command_instance"),
                                           ("sievelib.commands", "RequireCommand.complete_cb"),
                                           ("sievelib.parser", "Parser.__reset_parser"),
                                           ("sievelib.commands", "ExtensionNotLoaded.__str__")]
    pl.trusted = [common.TRUSTED_LOWER, common.TRUSTED_STRIP,
                  "frozen RFC table contracts/tables_frozen.py (hand-written from the RFCs) is the oracle for which "
                  "command/tag needs which capability"]
    pl.unverified = [
        "that every token of a script reaches one of the three gates (push-down layer): bounded only, see C01.P",
        "(RequireCommand.complete_cb for lists is proved for ANY list length through a loop invariant with a Skolem probe and "
        "position -- G3.complete_cb.anylist; the unrolled encodings for 0..3 capabilities are kept because they are the ones "
        "that produce counter-models for changed code)",
    ]
    pl.explanation = (
        "Gate soundness and completeness as postconditions of the real get_command_instance / check_next_arg / "
        "complete_cb, discharged for every command class, every interpreter state satisfying the inductive invariant "
        "Inv_arg, every argument type, every tag value and every set of loaded extensions (symbolic set); plus frame "
        "scans showing the registry is written only by __reset_parser and complete_cb and that parser.py never turns a "
        "check off; plus the frozen RFC capability table evaluated against the code tables. Bounded (labelled bounded, "
        "exhaustive over the pool) for the converse clause at whole-script level: every generated valid script with each "
        "capability removed from its require in turn -- rejected with `extension '<name>' not loaded` naming the first "
        "missing extension in script order (reference validator), still accepted when the capability was not needed.")
    return pl
