"""C02 -- parsing always terminates with a verdict: no exception, no hang."""
import ast

from pyvc.driver import Plan
from pyvc import runner, scan
from props import common, lexfacts
from props.common import U, static_ob

PID = "C02"


def static_funnel():
    """C02.X / C02.R (syntactic part): parse() has a single try whose handler covers ParseError, CommandError (and
    UnicodeDecodeError), assigns error_pos and error and returns False; the only other return is True; every raise in
    parser.py constructs ParseError; every raise in commands.py constructs a CommandError subclass (or the two
    documented programming-error exceptions of methods the parser never calls on a concrete command)."""
    idx = runner.get_index()
    obs = []
    info = idx.funcs[("sievelib.parser", "Parser.parse")]
    fn = info.node
    tries = [n for n in fn.body if isinstance(n, ast.Try)]
    ok = len(tries) == 1 and len(tries[0].handlers) == 1
    names = set()
    if ok:
        h = tries[0].handlers[0]
        t = h.type
        names = set(e.id for e in (t.elts if isinstance(t, ast.Tuple) else [t]) if isinstance(e, ast.Name))
    obs.append(static_ob("C02.X.parse.handler-covers-parse-and-command-errors", ok and {"ParseError", "CommandError"} <= names,
                         "handler catches %r" % (sorted(names),), "ast-scan"))
    rets = [n for n in ast.walk(fn) if isinstance(n, ast.Return)]
    ok_r = all(isinstance(r.value, ast.Constant) and r.value.value in (True, False) for r in rets) and len(rets) == 2
    obs.append(static_ob("C02.R.parse.returns-only-True-or-False", ok_r, "returns: %r" % [ast.unparse(r) for r in rets], "ast-scan"))
    if ok:
        body = tries[0].handlers[0].body
        src = [ast.unparse(s) for s in body]
        ok_h = len(body) == 3 and src[0].startswith("self.error_pos = (self.lexer.curlineno(), self.lexer.curcolno(), len(tvalue))") \
            and src[1] == "self.error = 'line %d: %s' % (self.error_pos[0], str(e))" and src[2] == "return False"
        obs.append(static_ob("C02.R.parse.handler-sets-error-pos-and-line-prefixed-error", ok_h, "handler body: %r" % (src,), "ast-scan"))
    # everything after the try is `return True`; everything before it cannot raise ParseError/CommandError
    after = fn.body[fn.body.index(tries[0]) + 1:] if ok else []
    obs.append(static_ob("C02.R.parse.after-try-returns-True", [ast.unparse(s) for s in after] == ["return True"], "", "ast-scan"))
    for mod, allowed in (("sievelib.parser", {"ParseError"}),
                         ("sievelib.commands", {"UnknownCommand", "BadArgument", "BadValue", "ExtensionNotLoaded", "NotImplementedError", "KeyError"})):
        tree = idx.trees[mod]
        for n in ast.walk(tree):
            if isinstance(n, ast.Raise) and n.exc is not None:
                f = n.exc.func if isinstance(n.exc, ast.Call) else n.exc
                nm = f.id if isinstance(f, ast.Name) else ast.unparse(f)
                obs.append(static_ob("C02.X.raise-site.%s.line%d" % (mod.split(".")[1], n.lineno), nm in allowed,
                                     "%s:%d raises %s" % (mod, n.lineno, nm), "ast-scan"))
    return obs


def bounded_tokens(tier, seed):
    from bounded import parser_bounded as pb
    return pb.bounded_tokens(PID, tier, seed)


def bounded_generated(tier, seed):
    from bounded import parser_bounded as pb
    return pb.bounded_generated(PID, tier, seed)


def bounded_bytes(tier, seed):
    from bounded import parser_bounded as pb
    return pb.bounded_bytes(PID, tier, seed)


def plan(tier):
    pl = Plan()
    pl.level = "other"
    pl.units = common.arg_layer_units("X.args", chks=(True,), adds=(True,))
    for chk in (True, False):
        pl.units.append(U("X.lookup.%s" % ("chk" if chk else "nochk"), "contracts.gating", "h_get_command_instance", (chk, True),
                          sample_models=True, native_ok=True))
    pl.units.append(U("X.complete_cb.missing", "contracts.gating", "h_complete_cb_missing", (), native_ok=True, sample_models=True))
    pl.units.append(U("X.complete_cb.string", "contracts.gating", "h_complete_cb_string", (), native_ok=True, sample_models=True))

    pl.units.append(U("F.parse_file", "contracts.pushdown", "h_parse_file", (), setup=("contracts.pushdown", "setup_parse_file")))
    pl.units += common.driver_units()

    def lf(u, label):
        return label.startswith(("X.", "F.", "P8.")) or label in ("funnel", "G3.cb.monotone")

    pl.label_filter = lf
    pl.static = [static_funnel, lambda: lexfacts.obligations_L1(PID), lambda: lexfacts.obligations_ascii(PID),
                 lambda: lexfacts.obligations_structure(PID), lambda: lexfacts.obligations_no_nested_repeat(PID), lambda: lexfacts.obligations_no_adjacent_overlapping_repeats(PID)]
    pl.bounded = [bounded_tokens, bounded_generated, bounded_bytes]
    pl.functions = common.ARG_FUNCTIONS + [("sievelib.commands", "get_command_instance"), ("sievelib.commands", "RequireCommand.complete_cb"),
                                           ("sievelib.parser", "Parser.parse"), ("sievelib.parser", "Lexer.scan"), ("sievelib.parser", "Parser.parse_file")]
    pl.trusted = [common.TRUSTED_RE, common.TRUSTED_LOWER, "time spent inside one `re` match (the engine itself)"]
    pl.unverified = ["termination and exception-freedom of the push-down step functions (__command/__arguments/__up/"
                     "__check_command_completion) for all inputs: BOUNDED (enumeration + byte mutations, with a lexer-step counter)",
                     "parse_file: I/O errors of open()/read() propagate (not part of the claim examined)"]
    pl.explanation = (
        "Deductive: (L3/L4) no lexer rule nests an unbounded repetition in another or puts two unbounded repetitions over overlapping "
        "classes next to each other (exponential / quadratic backtracking on non-matching input); (L1) no lexer rule matches the empty string, so every iteration of Lexer.scan consumes at least one "
        "byte (z3 regex emptiness per rule); identifier/tag/number tokens are ASCII, so their decode cannot raise; (X) the "
        "exception funnel bottom-up -- command lookup maps EVERY name to a concrete command class, UnknownCommand or "
        "ExtensionNotLoaded and nothing else; check_next_arg raises only CommandError subclasses for every class, state, "
        "type and value; the require callback tolerates a missing argument; every raise site in parser.py/commands.py "
        "constructs a funnelled exception and parse() has one handler that turns them into `False` + `line N: ...`. "
        "Bounded: no exception, verdict in {True, False}, error text/line bounds and lexer steps <= 2*len+1 on token "
        "sequences, generated scripts, single-token edits and byte-level mutations (invalid UTF-8, NUL, truncation). (F) "
        "parse_file opens the file once, hands its BYTES to parse() unchanged (so decoding happens inside parse()'s funnel), "
        "returns parse()'s verdict and closes the file (open() cut by a contract: binary mode gives the bytes, text mode "
        "would decode -- and may raise -- outside the funnel); the byte-mutation inputs are also fed through parse_file." + common.DRIVER_TEXT)
    return pl
