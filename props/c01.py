"""C01 -- the parser accepts exactly the valid scripts of its supported language."""
from pyvc.driver import Plan
from pyvc import runner
from props import common, lexfacts
from props.common import U, static_ob

PID = "C01"


def static_T():
    """C01.T: the code's command tables agree with the frozen RFC table, command by command and slot by slot."""
    runner.get_index()
    from sievelib import commands
    from contracts import tables_frozen as frozen
    obs = []
    for name, spec in frozen.COMMANDS.items():
        cname = "%sCommand" % name.lower().capitalize()
        cls = vars(commands).get(cname)
        pre = "C01.T.%s" % name
        if cls is None:
            obs.append(static_ob(pre + ".class-exists", False, "no class %s" % cname))
            continue
        obs.append(static_ob(pre + ".kind", getattr(cls, "_type", None) == spec["kind"],
                             "%s._type is %r, table says %r" % (cname, getattr(cls, "_type", None), spec["kind"])))
        obs.append(static_ob(pre + ".extension", getattr(cls, "extension", None) == spec["ext"],
                             "%s.extension is %r, table says %r" % (cname, getattr(cls, "extension", None), spec["ext"])))
        if spec["kind"] != "test":
            obs.append(static_ob(pre + ".takes-block", bool(cls.accept_children) == bool(spec["block"]),
                                 "%s.accept_children is %r" % (cname, cls.accept_children)))
        obs.append(static_ob(pre + ".must-follow", (cls.must_follow or None) == (spec["follows"] or None),
                             "%s.must_follow is %r" % (cname, cls.must_follow)))
        D = cls.args_definition
        tagged = [a for a in D if "tag" in a["type"] and not a.get("required", False)]
        posl = [a for a in D if a not in tagged]
        obs.append(static_ob(pre + ".tagged-slots", [a["name"] for a in tagged] == [t["name"] for t in spec["tagged"]],
                             "tagged slots %r, table %r" % ([a["name"] for a in tagged], [t["name"] for t in spec["tagged"]])))
        for a, t in zip(tagged, spec["tagged"]):
            tags = set(a.get("values", [])) | set(a.get("extension_values", {}).keys())
            obs.append(static_ob(pre + ".slot.%s.tags" % t["name"], tags == set(t["tags"].keys()), "tags %r, table %r" % (sorted(tags), sorted(t["tags"]))))
            prm = t["param"]
            ea = a.get("extra_arg")
            if prm is None:
                obs.append(static_ob(pre + ".slot.%s.no-parameter" % t["name"], ea is None, "unexpected extra_arg %r" % (ea,)))
            else:
                ty = ea["type"] if ea else None
                tys = [ty] if isinstance(ty, str) else (ty or [])
                want = {"string": ["string"], "number": ["number"], "stringlist": ["string", "stringlist"]}[prm["type"]]
                ok_type = ea is not None and (sorted(tys) == sorted(want) or (prm["type"] == "stringlist" and tys == ["stringlist"]))
                obs.append(static_ob(pre + ".slot.%s.parameter-type" % t["name"], ok_type, "extra_arg type %r, table %r" % (ty, prm["type"])))
                obs.append(static_ob(pre + ".slot.%s.parameter-values" % t["name"], ea is not None and (ea.get("values") or None) == (prm["values"] or None),
                                     "values %r, table %r" % (ea.get("values") if ea else None, prm["values"])))
                obs.append(static_ob(pre + ".slot.%s.parameter-only-for" % t["name"], ea is not None and (ea.get("valid_for") or None) == (prm["only_for"] or None),
                                     "valid_for %r, table %r" % (ea.get("valid_for") if ea else None, prm["only_for"])))
        obs.append(static_ob(pre + ".positional-slots", [a["name"] for a in posl] == [p["name"] for p in spec["positional"]],
                             "positionals %r, table %r" % ([a["name"] for a in posl], [p["name"] for p in spec["positional"]])))
        for a, p in zip(posl, spec["positional"]):
            want = {"string": ["string"], "stringlist": ["string", "stringlist"], "number": ["number"], "test": ["test"],
                    "testlist": ["testlist"], "tag": ["tag"]}[p["type"]]
            obs.append(static_ob(pre + ".positional.%s.type" % p["name"], sorted(a["type"]) == sorted(want), "type %r, table %r" % (a["type"], p["type"])))
            obs.append(static_ob(pre + ".positional.%s.values" % p["name"], (a.get("values") or None) == (p["values"] or None),
                                 "values %r, table %r" % (a.get("values"), p["values"])))
            obs.append(static_ob(pre + ".positional.%s.required" % p["name"], bool(a.get("required", False)) == (not p["optional"]),
                                 "required %r, table optional=%r" % (a.get("required", False), p["optional"])))
    for ob in obs:
        if ob.status == "refuted":
            ob.native = common.table_replay(ob.oid.split(".")[2])
    return obs


def bounded_tokens(tier, seed):
    from bounded import parser_bounded as pb
    return pb.bounded_tokens(PID, tier, seed)


def bounded_generated(tier, seed):
    from bounded import parser_bounded as pb
    return pb.bounded_generated(PID, tier, seed)


def bounded_corners(tier, seed):
    from bounded import parser_bounded as pb
    return pb.bounded_rfc_corners(PID, tier, seed)


def plan(tier):
    pl = Plan()
    pl.level = "other"
    pl.units = common.arg_layer_units("A", chks=(True,)) + common.arg_support_units("A")
    pl.units.append(U("X.lookup.chk", "contracts.gating", "h_get_command_instance", (True, True), sample_models=True, native_ok=True))

    pl.units += common.pushdown_units() + common.driver_units()

    def lf(u, label):
        if u.uid.startswith("PD."):
            return label.startswith(("P1.", "P2.", "P3.", "P4.", "P5.", "P6.", "P7.", "P8."))
        if u.uid.startswith("X."):
            return label.startswith("X.") or label in ("G1.unknown-names-input",)
        return label in ("verdict", "exception-payload", "state.positional-count", "state.pending", "state.order-advances",
                         "reject.frame", "reject.state-unchanged", "inv", "iscomplete.value", "iscomplete.inv", "iscomplete.frame",
                         "init.state", "init.name")

    pl.label_filter = lf
    pl.static = [static_T, lambda: lexfacts.obligations_L(PID), lambda: lexfacts.obligations_L_exact(PID), lambda: lexfacts.obligations_structure(PID)]
    pl.bounded = [bounded_tokens, bounded_generated, bounded_corners]
    pl.functions = common.ARG_FUNCTIONS + [("sievelib.commands", "get_command_instance")] + common.PUSHDOWN_FUNCTIONS + [("sievelib.parser", "Parser.parse")]
    pl.trusted = [common.TRUSTED_LOWER, common.TRUSTED_RE, "frozen RFC command table (contracts/tables_frozen.py) and the RFC 5228 8.1 "
                  "token regexes in props/lexfacts.py, both hand-written from the RFCs",
                  "independent reference recognizer bounded/sieve_ref.py (oracle of the bounded part)"]
    pl.unverified = ["language equivalence of the push-down layer with the RFC 5228 grammar: its step functions are under contract "
                     "one by one (PD), but their composition over a token sequence is BOUNDED only (token sequences and generated "
                     "scripts), never counted as proved"]
    pl.explanation = (
        "Deductive (all inputs, no bound): (A) the real check_next_arg/iscomplete of every built-in command class equal the "
        "transition function of the argument automaton over the FROZEN RFC table -- verdict, exception payload, successor "
        "state -- for every interpreter state satisfying the inductive invariant Inv_arg, every argument type, every value "
        "and every set of loaded extensions; (T) code tables = frozen table slot by slot; (L) every RFC 5228 token is a token "
        "of the corresponding lexer rule (regex inclusion); command lookup maps every name to a concrete command class or "
        "UnknownCommand. Bounded (labelled bounded): the push-down layer against an independent reference recognizer on all "
        "token sequences up to 4 (quick) / 5 (thorough) tokens over a 39-token vocabulary and on generated scripts with "
        "single-token edits." + common.PUSHDOWN_TEXT + common.DRIVER_TEXT)
    return pl
