"""C11 -- a filter set survives being saved as a script and loaded back."""
from pyvc.driver import Plan
from props import common
from props.common import U

PID = "C11"


def bounded_saveload(tier, seed):
    from bounded import factory_bounded as fb
    return fb.bounded_saveload(PID, tier, seed)


def bounded_histories(tier, seed):
    from bounded import parser_bounded as pb
    r = pb.bounded_histories(PID, tier, seed)
    r["violations"] = [v for v in r["violations"] if "parser-history" in v[0]]
    r["name"] = "hash-comments-per-command"
    return r


def plan(tier):
    pl = Plan()
    pl.level = "other"
    for n in (0, 1, 2):
        for d in (False, True):
            pl.units.append(U("W.rendering.n%d.%s" % (n, "desc" if d else "nodesc"), "contracts.factorygen", "h_set_rendering", (n, d), native_ok=True, sample_models=True))
    pl.units.append(U("C.reset", "contracts.gating", "h_reset_parser_full", (), native_ok=True, sample_models=True))
    for sh in ((), ("named",), ("named+desc",), ("anonymous",), ("disabled",), ("other-comments",), ("named+desc", "anonymous", "disabled"),
               ("anonymous", "named", "anonymous"), ("other-comments", "named+desc"), ("disabled", "disabled", "named+desc")):
        pl.units.append(U("L.loader.%s" % ("-".join(sh) or "empty"), "contracts.factorygen", "h_loader", (sh,), native_ok=True, sample_models=True))
    for as_list in (False, True):
        pl.units.append(U("L.loader.requires.%s" % ("list" if as_list else "single"), "contracts.factorygen", "h_loader_requires", (as_list,),
                          native_ok=True, sample_models=True))
    pl.units += [u for u in common.pushdown_units() if u.uid.startswith("PD.up.")]

    def lf(u, label):
        if u.uid.startswith("PD."):
            return label in ("P5.top-level-command-recorded-once-at-the-end", "P5.pending-comments-move-to-the-command",
                             "P5.comments-stay-pending-inside-a-block", "P5.nested-command-is-not-recorded-at-top-level")
        return label.startswith(("W.", "L.")) or label == "H1.reset.hash-comments-fresh"

    pl.label_filter = lf
    pl.bounded = [bounded_saveload, bounded_histories]
    pl.functions = [("sievelib.factory", "FiltersSet.tosieve"), ("sievelib.factory", "FiltersSet.from_parser_result"),
                    ("sievelib.parser", "Parser.__up"), ("sievelib.parser", "Parser.__reset_parser")]
    pl.trusted = ["str.format on symbolic pieces = concatenation"]
    pl.unverified = ["the path between the two contracts -- the parser turning the written text back into commands with their comments "
                     "(lexer + push-down composition): BOUNDED (save/load sequences, parse histories)"]
    pl.explanation = (
        "Deductive: FiltersSet.tosieve with SYMBOLIC marker prefixes, names and descriptions writes, after the require line, "
        "for each filter in order `name-marker + name`, the description line iff the description is non-empty, then the "
        "content -- an exact text equality for sets of 0..2 filters (bounded in length, symbolic in all texts); the pending "
        "hash comments are reset to a fresh list at the start of every parse. L -- the loader: from_parser_result on top-level "
        "commands carrying exactly the comment lines tosieve writes, with SYMBOLIC names and descriptions (any text without the marker prefixes): names, descriptions, order, content and enabled status are recovered exactly, `Unnamed rule N` "
        "otherwise (10 shapes of up to 3 commands). PD.up -- Parser.__up moves the pending comments to the top-level command "
        "it records and leaves them pending inside a block. Bounded: seeded operation sequences (names "
        "with non-ASCII and marker look-alikes, descriptions, three marker pairs) saved, parsed, loaded with "
        "from_parser_result and compared (names, order, enabled, descriptions, requires) + re-render fixed point; parse "
        "histories showing each top-level command gets exactly its own comments.")
    return pl
