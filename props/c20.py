"""C20 -- registered custom commands are parsed and printed according to their definition."""
from pyvc.driver import Plan
from pyvc import runner
from props import common
from props.common import U

PID = "C20"


def bounded_custom(tier, seed):
    from bounded import parser_bounded as pb
    return pb.bounded_custom(PID, tier, seed)


def static_frame():
    """C20.F: the behaviour of a registered command is a function of its class definition and the instance: commands.py
    keeps no other table -- the only stores outside `self` are the registration into the module namespace and the
    extension registry (C07.G3); every item store goes into the instance's own argument maps"""
    import ast
    from pyvc import scan
    from props.common import static_ob
    idx = runner.get_index()
    obs = []
    for (enc, line, attr, tgt, kind) in scan.all_attr_stores("sievelib.commands"):
        if tgt != "self":
            ok = (tgt == "RequireCommand" and attr == "loaded_extensions" and enc == "RequireCommand.complete_cb")
            obs.append(static_ob("C20.F.shared-store.%s.%s.in.%s" % (tgt, attr, enc), ok,
                                 "commands.py:%d store to %s.%s" % (line, tgt, attr), "ast-scan"))
    tree = idx.trees["sievelib.commands"]
    aug = set(n.target for n in ast.walk(tree) if isinstance(n, ast.AugAssign))
    n_items = 0
    for n in ast.walk(tree):
        if isinstance(n, ast.Subscript) and (isinstance(n.ctx, (ast.Store, ast.Del)) or n in aug):
            base = ast.unparse(n.value)
            n_items += 1
            obs.append(static_ob("C20.F.item-store.line%d" % n.lineno, (base.startswith("self.") or base == "globals()"),
                                 "commands.py:%d item store into %s (a table shared between commands?)" % (n.lineno, base), "ast-scan"))
    obs.append(static_ob("C20.F.item-stores-found", n_items >= 3, "item stores found: %d" % n_items, "ast-scan"))
    # mutating method calls on class-level containers (append / update / setdefault / add on a non-self, non-local base)
    for n in ast.walk(tree):
        if isinstance(n, ast.Call) and isinstance(n.func, ast.Attribute) and n.func.attr in ("update", "setdefault", "add", "pop", "clear"):
            base = ast.unparse(n.func.value)
            if base.split(".")[0][:1].isupper():
                obs.append(static_ob("C20.F.class-level-container-mutated.line%d" % n.lineno, False,
                                     "commands.py:%d %s.%s(...)" % (n.lineno, base, n.func.attr), "ast-scan"))
    return obs


def plan(tier):
    runner.get_index()
    from contracts import custom, arglayer
    pl = Plan()
    pl.level = "other"
    pl.static = [static_frame]
    seed = 1
    for as_list in (False, True):
        pl.units.append(U("R.add_commands.%s" % ("list" if as_list else "single"), "contracts.custom", "h_add_commands", (as_list,),
                          native_ok=True, sample_models=True))
    descs = custom.descriptions(tier, seed)
    for d in descs:
        cls, S = custom.make_custom(d)
        tag = custom.class_name(d)
        pl.units.append(U("A.%s.init" % tag, "contracts.arglayer", "h_init", (d,), native_ok=True, sample_models=True))
        for st in arglayer.enum_states(cls):
            sname = "_".join("x" if x is None else str(x) for x in st)
            pl.units.append(U("A.%s.s%s.iscomplete" % (tag, sname), "contracts.arglayer", "h_iscomplete", (d, st), native_ok=True, sample_models=True))
            for at in arglayer.ATYPES:
                for chk in (True, False):
                    pl.units.append(U("A.%s.s%s.%s.%s" % (tag, sname, at, "chk" if chk else "nochk"), "contracts.arglayer", "h_check_next_arg",
                                      (d, st, at, True, chk), native_ok=True, sample_models=True, definition=repr(d)))

    # serialisation: the generic Command.tosieve on every generated definition (tags with their parameter, positionals, lists,
    # multi-line values), the same contract as for the built-in classes under C04
    for d in descs:
        tag = custom.class_name(d)
        for v in ("all", "none", "lists", "multiline"):
            pl.units.append(U("S.%s.%s" % (tag, v), "contracts.serializer", "h_tosieve_custom", (d, v), native_ok=True, sample_models=True))

    def lf(u, label):
        return not label.startswith("gate.only")

    pl.label_filter = lf
    pl.bounded = [bounded_custom]
    pl.functions = common.ARG_FUNCTIONS + [("sievelib.commands", "add_commands"), ("sievelib.commands", "get_command_instance"),
                                           ("sievelib.commands", "Command.tosieve")]
    pl.trusted = [common.TRUSTED_LOWER, "the definition generator (contracts/custom.py) builds the args_definition given to sievelib and the "
                  "independent automaton definition from the same description tuple"]
    pl.unverified = ["the generic argument interpreter on SYMBOLIC definitions (symbolic records are not supported by the executor): instead "
                     "every definition of an enumerated family of the documented shape is verified with symbolic VALUES -- bounded by "
                     "shape (%d definitions), complete in values, states and loaded-extension sets" % len(descs),
                     "re-parsing of the serialised text of custom commands: bounded (print / re-parse / fixed point on the enumerated uses); the "
                     "text itself (token sequence, values unchanged, separation, newline after multi-line values) is discharged per definition"]
    pl.explanation = (
        "Deductive: add_commands binds exactly the classes whose name ends in `Command` (single class and list), lookup finds "
        "a name iff bound, case-insensitively, other names stay unknown (symbolic execution of the real functions, module "
        "namespace restored after each path). For each of %d generated definitions of the documented shape (0-4 optional "
        "tags with/without typed parameter, value sets, valid_for, 1-3 required arguments, action/test, extension or not): "
        "the real check_next_arg/iscomplete equal the automaton of that definition for every state satisfying Inv_arg, "
        "every argument type, every value, every loaded set -- verdict, payload, successor state, recording under the "
        "defined names, gating. Bounded: uses enumerated from each definition + single edits against the reference "
        "recognizer extended with the definition, and print/re-parse round trips." % len(descs))
    return pl
