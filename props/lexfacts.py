"""Regular-language facts about the lexer rules (z3 regex reasoning over L(rule) obtained from re._parser)."""
import time

import z3

from pyvc import rx, runner, core
from pyvc.core import strval
from pyvc.driver import Ob


def rules():
    runner.get_index()
    from sievelib.parser import Parser
    out = []
    for name, pat in Parser.lrules:
        root, info = rx.convert(pat, 8)  # re.MULTILINE, as Lexer compiles it
        out.append((name.decode(), pat, root, info))
    return out


def _check(cond_sat, label, detail=""):
    """cond_sat: list of z3 constraints that must be UNSAT for the fact to hold"""
    t0 = time.time()
    s = z3.Solver()
    s.set("timeout", 20000)
    for c in cond_sat:
        s.add(c)
    r = s.check()
    dt = time.time() - t0
    if r == z3.unsat:
        return Ob(label, "discharged", ["z3-%s(regex)" % z3.get_version_string()], dt, 1, kind="static")
    if r == z3.sat:
        x = z3.String("x")
        try:
            w = core.unesc(s.model().eval(x, model_completion=True).as_string())
        except Exception:
            w = None
        return Ob(label, "refuted", ["z3-%s(regex)" % z3.get_version_string()], dt, 1,
                  {"model": {"text": w}, "detail": detail}, kind="static")
    return Ob(label, "undecided", ["z3"], dt, 1, note="regex query unknown", kind="static")


def byte(lo, hi):
    return z3.Range(strval(chr(lo)), strval(chr(hi)))


def anyof(chars):
    return z3.Union(*[z3.Re(strval(c)) for c in chars]) if len(chars) > 1 else z3.Re(strval(chars))


def rfc_tokens():
    """RFC 5228 section 8.1 token languages as SMT regexes (hand-written from the ABNF)"""
    alpha = z3.Union(byte(0x41, 0x5A), byte(0x61, 0x7A))
    digit = byte(0x30, 0x39)
    ident = z3.Concat(z3.Union(alpha, z3.Re(strval("_"))), z3.Star(z3.Union(alpha, digit, z3.Re(strval("_")))))
    tag = z3.Concat(z3.Re(strval(":")), ident)
    number = z3.Concat(z3.Plus(digit), z3.Option(anyof("KMG")))
    not_qspecial = z3.Union(byte(0x01, 0x09), byte(0x0B, 0x0C), byte(0x0E, 0x21), byte(0x23, 0x5B), byte(0x5D, 0xFF))
    crlf = z3.Re(strval("\r\n"))
    quoted_text = z3.Star(z3.Union(crlf, not_qspecial, z3.Concat(z3.Re(strval("\\")), z3.Union(z3.Re(strval('"')), z3.Re(strval("\\")))),
                                   z3.Concat(z3.Re(strval("\\")), not_qspecial)))
    quoted = z3.Concat(z3.Re(strval('"')), quoted_text, z3.Re(strval('"')))
    not_crlf = z3.Union(byte(0x01, 0x09), byte(0x0B, 0x0C), byte(0x0E, 0xFF))
    hash_comment = z3.Concat(z3.Re(strval("#")), z3.Star(not_crlf))          # the CRLF that ends it is white space
    not_star = z3.Union(crlf, byte(0x01, 0x09), byte(0x0B, 0x0C), byte(0x0E, 0x29), byte(0x2B, 0xFF))
    not_star_slash = z3.Union(crlf, byte(0x01, 0x09), byte(0x0B, 0x0C), byte(0x0E, 0x29), byte(0x2B, 0x2E), byte(0x30, 0xFF))
    bracket = z3.Concat(z3.Re(strval("/*")), z3.Star(z3.Union(not_star, z3.Concat(z3.Plus(z3.Re(strval("*"))), not_star_slash))),
                        z3.Plus(z3.Re(strval("*"))), z3.Re(strval("/")))
    # multi-line = "text:" *(SP / HTAB) (hash-comment / CRLF) *(multiline-literal / multiline-dotstart) "." CRLF
    not_period = z3.Union(byte(0x01, 0x09), byte(0x0B, 0x0C), byte(0x0E, 0x2D), byte(0x2F, 0xFF))
    ml_literal = z3.Concat(z3.Option(z3.Concat(not_period, z3.Star(not_crlf))), crlf)
    ml_dotstart = z3.Concat(z3.Re(strval(".")), z3.Plus(not_crlf), crlf)
    multiline = z3.Concat(z3.Re(strval("text:")), z3.Star(anyof(" \t")), crlf, z3.Star(z3.Union(ml_literal, ml_dotstart)),
                          z3.Re(strval(".")))                                  # the final CRLF is what `$` looks at
    return {"identifier": ident, "tag": tag, "number": number, "string": quoted, "hash_comment": hash_comment,
            "bracket_comment": bracket, "multiline": multiline}


def obligations_L1(pid):
    """C02.L1: no lexer rule (nor the white-space rule) matches the empty string => every scan step consumes >= 1 byte"""
    obs = []
    x = z3.String("x")
    for name, pat, root, info in rules():
        obs.append(_check([x == strval(""), z3.InRe(x, rx.lang(root))], "%s.L1.rule-never-matches-empty.%s" % (pid, name),
                          "rule %r matches the empty string" % pat))
    root, info = rx.convert(rb"\s+", 8)
    obs.append(_check([x == strval(""), z3.InRe(x, rx.lang(root))], "%s.L1.rule-never-matches-empty.whitespace" % pid))
    return obs


def obligations_ascii(pid):
    """identifier / tag / number tokens are ASCII, so .decode('ascii') at parser.py cannot raise"""
    obs = []
    x = z3.String("x")
    ascii_ = z3.Star(byte(0, 0x7F))
    for name, pat, root, info in rules():
        if name in ("identifier", "tag", "number"):
            obs.append(_check([z3.InRe(x, rx.lang(root)), z3.Not(z3.InRe(x, ascii_))], "%s.X.token-is-ascii.%s" % (pid, name)))
    return obs


def obligations_L(pid):
    """C01.L: every RFC token is a token of the corresponding lexer rule (L_RFC subset of L(rule))"""
    obs = []
    x = z3.String("x")
    rfc = rfc_tokens()
    for name, pat, root, info in rules():
        if name in rfc:
            obs.append(_check([z3.InRe(x, rfc[name]), z3.Not(z3.InRe(x, rx.lang(root)))],
                              "%s.L.rfc-token-is-lexed.%s" % (pid, name), "an RFC 5228 %s the rule %r does not match" % (name, pat)))
    return obs


def obligations_L_exact(pid):
    """C01.L (converse, for the tokens whose RFC language is exact): a token of the identifier / tag / number rule is an RFC
    5228 identifier / tag / number (ABNF literals are case-insensitive, so k m g are quantifiers too) -- the lexer does not
    invent tokens of these kinds"""
    obs = []
    x = z3.String("x")
    rfc = rfc_tokens()
    digit = byte(0x30, 0x39)
    rfc = dict(rfc)
    rfc["number"] = z3.Concat(z3.Plus(digit), z3.Option(anyof("KMGkmg")))
    for name, pat, root, info in rules():
        if name in ("identifier", "tag", "number"):
            obs.append(_check([z3.InRe(x, rx.lang(root)), z3.Not(z3.InRe(x, rfc[name]))],
                              "%s.L.lexed-token-is-an-rfc-token.%s" % (pid, name), "the rule %r matches a text that is no RFC 5228 %s" % (pat, name)))
    return obs


def obligations_structure(pid):
    """every alternative of the lexer's combined pattern is exactly one named group (so group(lastgroup) == group(0),
    i.e. the token value yielded is the text consumed) -- checked on the compiled pattern of a real Lexer"""
    runner.get_index()
    from sievelib.parser import Parser, Lexer
    lx = Lexer(Parser.lrules)
    root, info = rx.convert(lx.regexp.pattern, lx.regexp.flags & 8)
    ok = root.kind == "alt" and all(a.kind == "grp" and a.name for a in root.alts) and \
        [a.name for a in root.alts] == [n.decode() for n, _ in Parser.lrules]
    return [Ob("%s.S.lexer-alternatives-are-whole-named-groups" % pid, "discharged" if ok else "refuted", ["evaluation"], 0.0, 1,
               None if ok else {"model": None, "detail": "combined pattern is not an alternation of whole named groups"},
               kind="static")]


def obligations_no_nested_repeat(pid):
    """C02 (time): no lexer rule nests an unbounded repetition inside another one -- the shape (X+|Y)* that makes a
    backtracking engine exponential on non-matching input.  (Time inside `re` is otherwise trusted.)"""
    obs = []

    def has_unbounded(n):
        if n.kind == "rep" and n.hi is None:
            return True
        return any(has_unbounded(c) for c in (getattr(n, "items", None) or []) + (getattr(n, "alts", None) or []) +
                   ([n.node] if hasattr(n, "node") else []))

    def nested(n):
        if n.kind == "rep" and n.hi is None and has_unbounded(n.node):
            return True
        return any(nested(c) for c in (getattr(n, "items", None) or []) + (getattr(n, "alts", None) or []) +
                   ([n.node] if hasattr(n, "node") else []))

    for name, pat, root, info in rules():
        ok = not nested(root)
        obs.append(Ob("%s.L3.no-nested-unbounded-repetition.%s" % (pid, name), "discharged" if ok else "refuted", ["regex-structure"], 0.0, 1,
                      None if ok else {"model": {"rule": name, "pattern": pat.decode("latin-1")},
                                       "detail": "rule %r nests an unbounded repetition inside another: exponential backtracking on "
                                                 "a long non-matching input such as an unterminated string" % pat}, kind="static"))
    return obs


def obligations_no_adjacent_overlapping_repeats(pid):
    """C02 (time): no lexer rule has two ADJACENT unbounded repetitions over overlapping character classes -- the shape
    X*? Y+ z with Y inside X, which makes a backtracking engine quadratic on a long run of Y characters that is not
    followed by z (e.g. `text:` followed by thousands of line breaks and no terminator)"""
    obs = []
    x = z3.String("x")

    def first_item_lang(n):
        return rx.lang(n.node) if n.kind == "rep" else rx.lang(n)

    def seqs(n):
        out = []
        if n.kind == "seq":
            out.append(n.items)
        for c in (getattr(n, "items", None) or []) + (getattr(n, "alts", None) or []) + ([n.node] if hasattr(n, "node") else []):
            out.extend(seqs(c))
        return out

    for name, pat, root, info in rules():
        bad = None
        for items in seqs(root if root.kind == "seq" else rx.N("seq", items=[root])) + ([root.items] if root.kind == "seq" else []):
            for a, b in zip(items, items[1:]):
                if a.kind == "rep" and a.hi is None and b.kind == "rep" and b.hi is None:
                    s = z3.Solver()
                    s.set("timeout", 10000)
                    s.add(z3.InRe(x, rx.lang(a.node)), z3.InRe(x, rx.lang(b.node)), z3.Length(x) > 0)
                    if s.check() != z3.unsat:
                        bad = (a, b)
        ok = bad is None
        obs.append(Ob("%s.L4.no-adjacent-overlapping-unbounded-repetitions.%s" % (pid, name), "discharged" if ok else "refuted",
                      ["regex-structure+z3"], 0.0, 1,
                      None if ok else {"model": {"rule": name, "pattern": pat.decode("latin-1")},
                                       "detail": "rule %r has two adjacent unbounded repetitions that can match the same text: quadratic "
                                                 "backtracking on a long run of such text that the rest of the rule does not match" % pat},
                      kind="static"))
    return obs
