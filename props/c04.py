"""C04 -- serialising a parsed script yields an equivalent script (print/parse round trip)."""
from pyvc.driver import Plan
from pyvc import runner
from props import common
from props.common import U

PID = "C04"


def bounded_roundtrip(tier, seed):
    from bounded import parser_bounded as pb
    return pb.bounded_roundtrip(PID, tier, seed)


def plan(tier):
    runner.get_index()
    from contracts import arglayer
    pl = Plan()
    pl.level = "other"
    for c in arglayer.builtin_classes():
        for v in ("all", "none", "lists", "multiline"):
            pl.units.append(U("S.%s.%s" % (c, v), "contracts.serializer", "h_tosieve", (c, v), native_ok=True, sample_models=True))
    pl.bounded = [bounded_roundtrip]
    pl.functions = [("sievelib.commands", "Command.tosieve"), ("sievelib.commands", "Command.__print"),
                    ("sievelib.commands", "Command.__get_arg_type"), ("sievelib.commands", "Command.has_arguments")]
    pl.trusted = [common.TRUSTED_STRIP, common.TRUSTED_RE, "frozen RFC table: order of tagged and positional slots",
                  "the parser side of the round trip (that the printed token sequence parses back to the same tree) is C01/C03"]
    pl.unverified = ["multi-line `text:` values (known finding C01-multiline-lexing makes CRLF forms unparsable in the first place): "
                     "LF forms are covered by the bounded round trip only",
                     "nesting deeper than one test / one child per obligation: the recursive calls are executed on concrete children; "
                     "deeper trees are covered by the bounded part"]
    pl.explanation = (
        "Deductive: for every built-in command class the real tosieve is executed with SYMBOLIC argument values ranging over "
        "the whole string-token / number-token languages (all tagged slots with parameters; positionals only; string lists as "
        "2-item lists): the sequence of writes, white space aside, is exactly name, tags with parameters in definition order, "
        "positionals in order, terminator / block -- every value written unchanged, including list items (C04.V). Bounded: "
        "parse -> print -> parse -> print on accepted scripts from the generator, a quoting edge-case value pool and the "
        "token enumeration: second parse accepted, trees equal, text a fixed point.")
    return pl
