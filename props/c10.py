"""C10 -- no script command before authentication; no credentials before TLS."""
from pyvc.driver import Plan
from pyvc import runner, scan
from props import common
from props.common import U, static_ob

PID = "C10"


def static_frames():
    """`authenticated` is stored only by __init__ (False), connect (False, new connection) and __authenticate (True);
    every script operation is wrapped by authentication_required (so the wrapper's proof covers it)."""
    obs = []
    allowed = {("Client.__init__", "store"), ("Client.connect", "store"), ("Client.__authenticate", "store")}
    found = set()
    for (enc, line, kind, target) in scan.attr_accesses("sievelib.managesieve", "authenticated"):
        if kind == "load":
            continue
        found.add((enc, kind))
        obs.append(static_ob("C10.A2.frame.authenticated-writer.%s" % enc, (enc, kind) in allowed and target == "self",
                             "managesieve.py:%d stores to .authenticated in %s" % (line, enc), "ast-scan"))
    obs.append(static_ob("C10.A2.frame.authenticated-writers-found", len(found) >= 2, "writers: %r" % (found,), "ast-scan"))
    return obs


def plan(tier):
    runner.get_index()
    from contracts import client
    pl = Plan()
    pl.level = "proof"
    for m in client.public_methods():
        pl.units.append(U("method.%s" % m, "contracts.typestate", "h_public_method", (m,),
                          setup=("contracts.typestate", "setup"), replay=("contracts.client_replay", "replay_typestate")))
    from contracts import capabilities as K
    for i, sh in enumerate(K.SHAPES):
        pl.units.append(U("K.get_capabilities.shape%d.OK" % i, "contracts.capabilities", "h_get_capabilities", (sh, "OK"),
                          setup=("contracts.capabilities", "setup"), native_ok=True, sample_models=True))
    for st in ("NO", "BYE"):
        pl.units.append(U("K.get_capabilities.shape1.%s" % st, "contracts.capabilities", "h_get_capabilities", (K.SHAPES[1], st),
                          setup=("contracts.capabilities", "setup"), native_ok=True, sample_models=True))
    pl.static = [static_frames]

    def bounded_caps(tier, seed):
        from bounded import client_bounded as cb
        return cb.bounded_get_capabilities(PID, tier, seed)

    pl.bounded = [bounded_caps]

    def lf(u, label):
        return label.startswith(("A1.", "A2.", "T.", "K.", "callee-precondition.")) or ".loop" in label

    pl.label_filter = lf
    pl.functions = [("sievelib.managesieve", "Client.__get_capabilities"), ("sievelib.managesieve", "authentication_required"), ("sievelib.managesieve", "Client.connect"),
                    ("sievelib.managesieve", "Client.__starttls"), ("sievelib.managesieve", "Client.__authenticate"),
                    ("sievelib.managesieve", "Client._plain_authentication"),
                    ("sievelib.managesieve", "Client._login_authentication"),
                    ("sievelib.managesieve", "Client._oauthbearer_authentication"),
                    ("sievelib.managesieve", "Client._digest_md5_authentication")] + \
                   [("sievelib.managesieve", "Client.%s" % m) for m in client.public_methods()]
    pl.trusted = [common.TRUSTED_ENV_SOCKET, common.TRUSTED_SERVER, common.ASSUMED_GET_CAPABILITIES,
                  "ssl: create_default_context().wrap_socket returns a new socket (ghost tls := True) or raises ssl.SSLError",
                  "contract of Client.__send_command (one command, one reply; proved separately under C08.W3/C15.I)",
                  "listscripts' line regex is over-approximated by `None or a match with arbitrary groups` (sound for typestate)"]
    pl.unverified = ["malformed TLS records / certificate validation (the ssl library's)",
                     "silence is modelled as socket.timeout surfacing as Error from __send_command"]
    pl.explanation = (
        "Typestate proof with ghost state (conn_auth, tls, outbound log): for EVERY public method of Client found by "
        "reflection, from every state satisfying the class invariant `authenticated => AUTHENTICATE answered OK on the "
        "current connection`, every path re-establishes the invariant; the contract of __send_command carries the "
        "obligations `script verb => authenticated` and `AUTHENTICATE after STARTTLS request => TLS established and "
        "capabilities re-read`, so they are checked at every call site on every path; unauthenticated script calls "
        "raise Error with an empty outbound log. K -- the contract of __get_capabilities the typestate proof relies on is itself "
        "discharged on shaped capability listings: the real __get_capabilities / __read_response / __read_line (reader loops "
        "summarised by their C05 contracts) on 7 listing shapes of quoted names (known, unknown, repeated, with and without a "
        "value) with SYMBOLIC values, plus NO and BYE: stored entries are exactly the last announced values, nothing else "
        "changes, NO changes nothing, BYE raises Error; and bounded-checked over all subsets of the known capabilities.")
    return pl
