"""C12 -- filter-set editing operations behave like an ordered, uniquely named list."""
from pyvc.driver import Plan
from pyvc import runner
from props import common
from props.common import U

PID = "C12"


def bounded_sequences(tier, seed):
    from bounded import factory_bounded as fb
    return fb.bounded_sequences(PID, tier, seed)


def plan(tier):
    runner.get_index()
    from contracts import filterset
    pl = Plan()
    pl.level = "other"
    N = 3 if tier == "quick" else 4
    for op in filterset.OPS:
        for n in range(N + 1):
            pl.units.append(U("%s.n%d" % (op, n), "contracts.filterset", "h_op", (op, n), native_ok=True, sample_models=True))
    pl.bounded = [bounded_sequences]
    pl.functions = [("sievelib.factory", "FiltersSet.%s" % m) for m in
                    ("filter_exists", "addfilter", "updatefilter", "replacefilter", "getfilter", "removefilter", "enablefilter",
                     "disablefilter", "is_filter_disabled", "movefilter", "__isdisabled", "_unicode_filter_name")]
    pl.trusted = ["list.remove / list.insert / += on lists of concrete length (executed by CPython itself on the concrete shape)"]
    pl.unverified = ["list LENGTH: the deductive part fixes the number of filters (0..%d) and is symbolic in all names, flags and the "
                     "argument (every aliasing pattern); lengths beyond that are covered only by the bounded operation sequences. "
                     "A proof for all lengths needs quantified loop invariants over a heap of records, which the executor does not "
                     "support" % N]
    pl.explanation = (
        "Deductive, bounded in list length only: every operation is executed symbolically on a well-formed set of n = 0..%d "
        "filters with SYMBOLIC pairwise-distinct names, symbolic enabled flags and a symbolic argument (so hit / miss / clash "
        "at every position are all paths), and its result, exception and the whole resulting view are proved equal to the "
        "list specification taken from the property text (update/replace keep position and status, move swaps with exactly "
        "one neighbour or refuses at the ends, unknown names change nothing, duplicates raise and change nothing, getfilter "
        "returns the own content of disabled filters); the representation invariant (unique names, flag = content shape = "
        "is_filter_disabled) is re-established. Bounded: all sequences of 4 mutating operations over 2 names and "
        "random sequences of 8 over 3 names against a list model, with rendering checks." % N)
    return pl
