"""C12 -- filter-set editing operations behave like an ordered, uniquely named list."""
from pyvc.driver import Plan
from pyvc import runner
from props import common
from props.common import U

PID = "C12"


def bounded_sequences(tier, seed):
    from bounded import factory_bounded as fb
    return fb.bounded_sequences(PID, tier, seed)


def plan(tier):
    runner.get_index()
    from contracts import filterset
    pl = Plan()
    pl.level = "other"
    N = 3 if tier == "quick" else 4
    for op in filterset.OPS:
        for n in range(N + 1):
            pl.units.append(U("%s.n%d" % (op, n), "contracts.filterset", "h_op", (op, n), native_ok=True, sample_models=True))
    from contracts import filterset_inv as fi
    key = {"filter_exists": "filter_exists.value", "getfilter": None, "is_filter_disabled": None, "addfilter": None,
           "removefilter": None, "enablefilter": None, "disablefilter": None, "movefilter_up": None, "movefilter_down": None,
           "updatefilter": None, "replacefilter": None}
    expect = {("addfilter", "absent"): ["addfilter.appends-one", "wf.names-stay-unique"], ("addfilter", "present"): ["addfilter.duplicate-raises"],
              ("removefilter", "present"): ["removefilter.returns-True", "removefilter.later-move-up-by-one", "list.remove-hits-the-element-itself"],
              ("movefilter_up", "present"): ["movefilter.returns-True", "movefilter.swaps-with-exactly-one-neighbour", "movefilter.unknown-or-at-the-end-returns-False"],
              ("movefilter_down", "present"): ["movefilter.returns-True", "movefilter.swaps-with-exactly-one-neighbour", "movefilter.unknown-or-at-the-end-returns-False"],
              ("enablefilter", "present"): ["enablefilter.returns-True", "enablefilter.already-enabled-returns-False"],
              ("disablefilter", "present"): ["disablefilter.returns-True", "disablefilter.own-content-is-the-wrapped-one"],
              ("getfilter", "present"): ["getfilter.returns-the-filters-own-content"],
              ("updatefilter", "present-free"): ["updatefilter.returns-True", "updatefilter.renamed-in-place", "updatefilter.content-wrapped-iff-disabled"],
              ("updatefilter", "present-clash"): ["updatefilter.name-clash-raises"],
              ("replacefilter", "present-free"): ["replacefilter.returns-True", "replacefilter.content-is-the-given-filter"],
              ("replacefilter", "present-clash"): ["replacefilter.name-clash-raises"]}
    for op in fi.CASES:
        for case in fi.CASES[op]:
            pl.units.append(U("L.%s.%s" % (op, case), "contracts.filterset_inv", "h_inv", (op, case), setup=("contracts.filterset_inv", "setup"),
                              expect=expect.get((op, case), [])))
    pl.level = "proof"
    pl.bounded = [bounded_sequences]
    pl.functions = [("sievelib.factory", "FiltersSet.%s" % m) for m in
                    ("filter_exists", "addfilter", "updatefilter", "replacefilter", "getfilter", "removefilter", "enablefilter",
                     "disablefilter", "is_filter_disabled", "movefilter", "__isdisabled", "_unicode_filter_name")]
    pl.trusted = ["model of list.remove (first equal element; the obligation `list.remove-hits-the-element-itself` shows it is the "
                  "element's own position) / list.insert (position clamped into [0, n]) / += as array shifts (pyvc/reclist.py)",
                  "filter contents as ids with two uninterpreted functions dis (has the `if false {}` shape) and inner (first child); "
                  "for a real Command the facts are computed from the object by the real predicate",
                  "replacefilter is given a filter object that is not itself of the disabled shape (input validity: the "
                  "representation cannot tell such an object from a disabled filter)"]
    pl.unverified = ["`rendering is wrapped in if false {} exactly when disabled` is carried by the content-shape predicate; that a "
                     "content of that shape PRINTS as `if false {` is the serializer's contract (C04.S)"]
    pl.explanation = (
        "Deductive for sets of ANY length (units L.*): FiltersSet.filters is a record list of symbolic length (arrays per field), "
        "each search loop is cut by the quantified invariant `no earlier filter has that name` (+ cpt = index for movefilter), "
        "and for each operation and each case of a complete case split (name absent / present at position j; for update and "
        "replace: new name same / free / taken by another filter) result, exception and the WHOLE resulting list are proved "
        "pointwise over Skolem positions -- others untouched, renamed in place, status kept, swap with exactly one neighbour, "
        "later filters move up by one, duplicates raise and change nothing -- and the representation invariant (unique names, "
        "flag = content shape, no double wrapping) is re-established, so it holds across any sequence of calls. "
        "In addition (units <op>.n<k>), with a different encoding and a CPython cross-check of every path: every operation is executed symbolically on a well-formed set of n = 0..%d "
        "filters with SYMBOLIC pairwise-distinct names, symbolic enabled flags and a symbolic argument (so hit / miss / clash "
        "at every position are all paths), and its result, exception and the whole resulting view are proved equal to the "
        "list specification taken from the property text (update/replace keep position and status, move swaps with exactly "
        "one neighbour or refuses at the ends, unknown names change nothing, duplicates raise and change nothing, getfilter "
        "returns the own content of disabled filters); the representation invariant (unique names, flag = content shape = "
        "is_filter_disabled) is re-established. Bounded: all sequences of 4 mutating operations over 2 names and "
        "random sequences of 8 over 3 names against a list model, with rendering checks." % N)
    return pl
