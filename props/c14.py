"""C14 -- emulated rename never loses or overwrites a script."""
from pyvc.driver import Plan
from props import common
from props.common import U

PID = "C14"


def plan(tier):
    pl = Plan()
    pl.level = "proof"
    pl.units = [U("rename", "contracts.rename", "h_rename", (), setup=("contracts.rename", "setup_rename"),
                  replay=("contracts.rename_replay", "replay"))]
    # the callees' contracts the rename proof is built on: their status clauses are discharged here too, so that a change
    # inside a callee that breaks what rename relies on (e.g. getscript no longer answering None on NO) fails under C14
    for m in ("listscripts", "getscript", "putscript", "setactive", "deletescript"):
        pl.units.append(U("callee.%s" % m, "contracts.client", "h_status", (m,), setup=("contracts.client", "setup_typestate"),
                          replay=("contracts.client_replay", "replay_typestate")))
    pl.units.append(U("callee.getscript.content", "contracts.bodies", "h_getscript", (), setup=("contracts.client", "setup_typestate")))
    for sh in ((), ("plain",), ("active",), ("plain", "active"), ("active", "plain")):
        pl.units.append(U("callee.listscripts.%s" % ("-".join(sh) or "empty"), "contracts.listing", "h_listscripts", (sh,),
                          setup=("contracts.listing", "setup"), native_ok=True))

    def lf(u, label):
        if label == "all-steps-OK-old-present-target-free-gives-True":
            return False        # a clause of C09 (results mirror the replies), not of C14's safety statement
        return not label.startswith(("R1.", "callee-precondition."))

    pl.label_filter = lf
    pl.functions = [("sievelib.managesieve", "Client.renamescript")] + \
                   [("sievelib.managesieve", "Client.%s" % m) for m in ("listscripts", "getscript", "putscript", "setactive", "deletescript")]
    pl.trusted = [common.TRUSTED_SERVER,
                  "callee contracts over the ghost store (listscripts reports the active script separately; getscript "
                  "returns the stored text up to line endings; putscript/setactive/deletescript act as RFC 5804 says; each "
                  "may be answered NO, or the connection may break before or after the server applied the command); their "
                  "status clauses (True/data iff OK, False/None iff NO, Error otherwise, one command of the verb), getscript's "
                  "content clause and listscripts' active-reported-separately clause (on shaped listings) are discharged in this "
                  "check as well (units callee.*); the wire side is C08"]
    pl.unverified = ["native RENAMESCRIPT path (server announces VERSION): a single command, covered by C08.W4/C09.S3"]
    pl.explanation = (
        "renamescript's emulation is executed symbolically against a ghost server store (arrays over all names) with "
        "each of its five callees replaced by a contract with outcomes OK / NO / connection-broken(applied or not): all "
        "paths = all fault placements x all initial stores. Postconditions from the property text: no other script "
        "touched (in particular the target, active or not), old content survives under one of the names, True implies "
        "a complete rename with the active flag carried over, only True/False/Error come out. The callee contracts used are "
        "themselves discharged against the real listscripts / getscript / putscript / setactive / deletescript (status "
        "mapping on all paths; content = all lines; names and active script on shaped listings with symbolic names).")
    return pl
