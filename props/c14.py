"""C14 -- emulated rename never loses or overwrites a script."""
from pyvc.driver import Plan
from props import common
from props.common import U

PID = "C14"


def plan(tier):
    pl = Plan()
    pl.level = "proof"
    pl.units = [U("rename", "contracts.rename", "h_rename", (), setup=("contracts.rename", "setup_rename"),
                  replay=("contracts.rename_replay", "replay"))]
    pl.functions = [("sievelib.managesieve", "Client.renamescript")]
    pl.trusted = [common.TRUSTED_SERVER,
                  "callee contracts over the ghost store (listscripts reports the active script separately; getscript "
                  "returns the stored text up to line endings; putscript/setactive/deletescript act as RFC 5804 says; each "
                  "may be answered NO, or the connection may break before or after the server applied the command); these "
                  "are the postconditions examined under C09/C17/C08"]
    pl.unverified = ["native RENAMESCRIPT path (server announces VERSION): a single command, covered by C08.W4/C09.S3"]
    pl.explanation = (
        "renamescript's emulation is executed symbolically against a ghost server store (arrays over all names) with "
        "each of its five callees replaced by a contract with outcomes OK / NO / connection-broken(applied or not): all "
        "paths = all fault placements x all initial stores. Postconditions from the property text: no other script "
        "touched (in particular the target, active or not), old content survives under one of the names, True implies "
        "a complete rename with the active flag carried over, only True/False/Error come out.")
    return pl
