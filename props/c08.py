"""C08 -- each client call puts exactly one well-formed command on the wire."""
from pyvc.driver import Plan
from pyvc import runner
from props import common
from props.common import U

PID = "C08"


def bounded(tier, seed):
    from bounded import client_bounded as cb
    return cb.bounded_wire(PID, tier, seed)


def plan(tier):
    runner.get_index()
    from contracts import client
    pl = Plan()
    pl.level = "other"
    from contracts import wire
    for i, sh in enumerate(wire.ESCAPE_SHAPES):
        pl.units.append(U("W1.prepare_args.escaped.shape%d" % i, "contracts.wire", "h_prepare_args_escaped", (sh,), native_ok=True, sample_models=True))
    for part in ("plain", "unsendable", "sizelike"):
        pl.units.append(U("W1.prepare_args.%s" % part, "contracts.wire", "h_prepare_args_bytes", (part,),
                          replay=("contracts.wire_replay", "replay_prepare_args")))
    pl.units.append(U("W1.prepare_args.number", "contracts.wire", "h_prepare_args_int", ()))
    pl.units.append(U("W2.prepare_content", "contracts.wire", "h_prepare_content", ()))
    for a in (0, 1, 2):
        for x in (0, 2):
            pl.units.append(U("W3.send_command.args%d.extra%d" % (a, x), "contracts.wire", "h_send_command", (a, x),
                              setup=("contracts.wire", "setup_send")))
    pl.units.append(U("W3.send_command.unsendable", "contracts.wire", "h_send_command_unsendable", (), setup=("contracts.wire", "setup_send")))
    for m in client.SCRIPT_METHODS:
        pl.units.append(U("W4.%s" % m, "contracts.wire", "h_call_site", (m,), setup=("contracts.client", "setup_typestate")))

    def lf(u, label):
        return label.startswith(("W1.", "W2.", "W3.", "W4."))

    pl.label_filter = lf
    pl.bounded = [bounded]
    pl.functions = [("sievelib.managesieve", "Client.__prepare_args"), ("sievelib.managesieve", "Client.__prepare_content"),
                    ("sievelib.managesieve", "Client.__send_command")] + \
                   [("sievelib.managesieve", "Client.%s" % m) for m in client.SCRIPT_METHODS]
    pl.trusted = [common.TRUSTED_ENV_SOCKET, common.TRUSTED_UTF8, common.TRUSTED_RE,
                  "'%d' % n is the decimal numeral of n (abstract inverse pair with int())",
                  "reply text handed to __send_command is UTF-8 (conforming server)"]
    pl.unverified = ["__prepare_args loops over the argument list: unrolled for 0..2 arguments (every call site passes at most 2)",
                     "the `refuses with Error before writing` alternative: the client has no such path; values that cannot be "
                     "quoted are the listed finding"]
    pl.explanation = (
        "Deductive: W1 -- for one caller-supplied byte string, partitioned into {no special byte, contains quote/backslash/"
        "CR/LF/NUL, looks like {n}/{n+}}, the prepared form is an RFC 5804 quoted string that unescapes to the value or a "
        "literal of it (regex membership + sequence equality; the first partition is proved, the other two are refuted = "
        "known finding); numbers are unquoted decimals. W2 -- the content literal carries the UTF-8 byte length. W3 -- "
        "__send_command performs one sendall of `name SP args CRLF` (+ one per extra line) before its single read. W4 -- "
        "every script operation passes the RFC's argument list for its verb. Bounded (labelled bounded): a strict "
        "server-side RFC 5804 parser applied to the bytes of 7 operations x 14 hostile values.")
    return pl
