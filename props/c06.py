"""C06 -- every script the filter factory generates is valid and self-sufficient."""
from pyvc.driver import Plan
from pyvc import runner, scan
from props import common
from props.common import U, static_ob

PID = "C06"


def static_requires():
    """C06.H: `requires` only grows (stores: __init__ and require's +=); C06.R by evaluation: every action kind x every tag
    that needs a capability (frozen table) ends up in `requires` after addfilter."""
    runner.get_index()
    from sievelib.factory import FiltersSet
    from contracts import tables_frozen as frozen
    obs = []
    writers = set((enc, kind) for (enc, line, kind, tgt) in scan.attr_accesses("sievelib.factory", "requires") if kind != "load")
    obs.append(static_ob("C06.H.requires-only-grows", writers == {("FiltersSet.__init__", "store"), ("FiltersSet.require", "augstore")},
                         "stores to .requires: %r" % (sorted(writers),), "ast-scan"))
    for name, spec in frozen.COMMANDS.items():
        if spec["kind"] != "action":
            continue
        pos = [("x" if p["type"] != "number" else 1) for p in spec["positional"] if not p["optional"]]
        cases = [(None, None, spec["ext"])] if spec["ext"] else []
        for t in spec["tagged"]:
            for tag, e in t["tags"].items():
                need = e or t["ext"]
                if need:
                    cases.append((t, tag, need))
        for (t, tag, need) in cases:
            args = []
            if t is not None:
                args.append(tag)
                prm = t["param"]
                if prm is not None:
                    args.append(7 if prm["type"] == "number" else "p")
            oid = "C06.R.%s%s.requires-%s" % (name, tag or "", need)
            try:
                fs = FiltersSet("t")
                fs.addfilter("r", [("Subject", ":is", "x")], [tuple([name] + args + pos)])
                obs.append(static_ob(oid, need in fs.requires, "after addfilter with action %r requires is %r (needs %r)"
                                     % (tuple([name] + args + pos), fs.requires, need)))
            except Exception as e:
                obs.append(static_ob(oid, False, "addfilter with action %r raised %s: %s" % (tuple([name] + args + pos), type(e).__name__, e)))
    return obs


def bounded_sets(tier, seed):
    from bounded import factory_bounded as fb
    return fb.bounded_generated_sets(PID, tier, seed)


def plan(tier):
    pl = Plan()
    pl.level = "other"
    pl.units = [U("Q.quote.plain", "contracts.factorygen", "h_quote", ("plain",), native_ok=True, sample_models=True),
                U("Q.quote.special", "contracts.factorygen", "h_quote", ("special",), native_ok=True, sample_models=True),
                U("H.require", "contracts.factorygen", "h_require_bookkeeping", (), native_ok=True, sample_models=True)]
    for n in (0, 1, 2):
        pl.units.append(U("T.rendering.n%d" % n, "contracts.factorygen", "h_set_rendering", (n, False), native_ok=True, sample_models=True))
    from contracts import factorygen as fg
    for side, kinds in (("condition", fg.GEN_CONDITIONS), ("action", fg.GEN_ACTIONS)):
        for k in kinds:
            pl.units.append(U("G.%s.%s" % (side, k), "contracts.factorygen", "h_generated_script", (side, k), native_ok=True, sample_models=True))
    pl.static = [static_requires]
    pl.bounded = [bounded_sets]
    pl.functions = [("sievelib.factory", "FiltersSet.__quote_if_necessary"), ("sievelib.factory", "FiltersSet.require"),
                    ("sievelib.factory", "FiltersSet.check_if_arg_is_extension"), ("sievelib.factory", "FiltersSet.__create_filter"),
                    ("sievelib.factory", "FiltersSet.__gen_require_command"), ("sievelib.factory", "FiltersSet.tosieve")]
    pl.trusted = [common.TRUSTED_STRIP, common.TRUSTED_RE, "frozen RFC table: which action/tag needs which capability",
                  "strict reference validator bounded/sieve_ref.py (bounded part)"]
    pl.unverified = ["values containing a quote, backslash or comma, and combinations of forms beyond the 40 listed ones: bounded (kind x "
                     "value pool, multi-condition / multi-filter scenarios); quote / backslash values fail there (listed finding)"]
    pl.explanation = (
        "Deductive: __quote_if_necessary(v) yields exactly one string token containing v for every v without quote/backslash "
        "(regex membership + equality) and is REFUTED for values containing them (known finding: no escaping); require() "
        "adds the name once and never drops one, `requires` has no other writer; tosieve writes the require line first, then "
        "each filter in order. By evaluation: for every action kind and every tag of the frozen table that needs a "
        "capability, addfilter leaves it in `requires`. G -- for 17 condition forms and 23 action forms the REAL addfilter / "
        "__create_filter / tosieve run on SYMBOLIC values (any text without quote, backslash, comma) and the text written equals "
        "the RFC form of that filter: a require line naming exactly the capabilities the form needs, the marker comment, "
        "`if <matchtype> (<tests>) { <actions> }` with every value as one quoted string -- so the script is valid and "
        "self-sufficient for every such value, not only for the pool. Bounded: every "
        "condition kind and action kind x a hostile value pool -- own output accepted by the parser, strictly valid for the "
        "reference validator (required arguments, quoting, require covers every extension), token structure identical to "
        "the benign rendering.")
    return pl
