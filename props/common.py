"""Shared plan pieces."""
from pyvc.runner import Unit
from pyvc.driver import Ob
from pyvc import runner

TRUSTED_RE = ("re: compile(p).match(s, pos) is not None <=> some prefix of s[pos:] is in L(p), L(p) taken "
              "mechanically from re._parser.parse (translation cross-checked against CPython by bounded enumeration)")
TRUSTED_LOWER = ("str.lower / str.capitalize: uninterpreted functions with the lemmas lower(lower(x)) = lower(x) and "
                 "lower(x) = x for ASCII text without upper-case letters; counter-models are refined against CPython")
TRUSTED_STRIP = ("str.strip(chars): function symbol with the decomposition lemma x = pre ++ strip(x) ++ suf, pre/suf over "
                 "chars, strip(x) empty or delimited by non-strippable characters")
TRUSTED_UTF8 = ("str.encode('utf-8') / bytes.decode('utf-8'): abstract injective pair (decode(encode(s)) = s, identity on "
                "ASCII, len(encode(s)) >= len(s)); decode raises UnicodeDecodeError outside the image")


def arg_layer_units(prefix="A", classes=None, atypes=None, adds=(True, False), chks=(True, False), sample=True):
    """One unit per (command class, abstract state satisfying Inv_arg, argument type, add, check_extension)."""
    runner.get_index()
    from contracts import arglayer
    from sievelib import commands
    units = []
    for cn in arglayer.builtin_classes():
        if classes is not None and cn not in classes:
            continue
        cls = getattr(commands, cn)
        for st in arglayer.enum_states(cls):
            for at in (atypes or arglayer.ATYPES):
                for add in adds:
                    for chk in chks:
                        uid = "%s.%s.s%s.%s.%s%s" % (prefix, cn, "_".join("x" if x is None else str(x) for x in st), at,
                                                     "add" if add else "noadd", "+chk" if chk else "-chk")
                        units.append(Unit(uid, "contracts.arglayer", "h_check_next_arg", (cn, st, at, add, chk),
                                          meta={"sample_models": sample, "native_ok": True,
                                                "cls": cn, "state": st, "atype": at}))
    return units


def arg_support_units(prefix="A"):
    """Inv_arg is established by __init__ and preserved by iscomplete (supporting lemmas of the argument layer)."""
    runner.get_index()
    from contracts import arglayer
    from sievelib import commands
    units = []
    for cn in arglayer.builtin_classes():
        cls = getattr(commands, cn)
        units.append(Unit("%s.%s.init" % (prefix, cn), "contracts.arglayer", "h_init", (cn,),
                          meta={"sample_models": True, "native_ok": True}))
        for st in arglayer.enum_states(cls):
            uid = "%s.%s.s%s.iscomplete" % (prefix, cn, "_".join("x" if x is None else str(x) for x in st))
            units.append(Unit(uid, "contracts.arglayer", "h_iscomplete", (cn, st),
                              meta={"sample_models": True, "native_ok": True}))
    return units


ARG_FUNCTIONS = [("sievelib.commands", "Command.check_next_arg"), ("sievelib.commands", "Command.iscomplete"),
                 ("sievelib.commands", "Command.__init__"), ("sievelib.commands", "Command.__is_valid_value_for_arg"),
                 ("sievelib.commands", "Command.__is_valid_type"), ("sievelib.commands", "Command.has_arguments")]


def static_ob(oid, ok, note="", backend="evaluation"):
    return Ob(oid, "discharged" if ok else "refuted", [backend], 0.0, 1,
              None if ok else {"model": None, "detail": note}, note=note, kind="static")


def U(uid, module, func, params=(), setup=None, **meta):
    return Unit(uid, module, func, params, setup=setup, meta=meta)


TRUSTED_ENV_SOCKET = ("socket: sendall(b) appends b to the outbound log of the current connection; recv(n) returns a "
                      "non-empty prefix (<= n bytes) of what the server has sent, or times out when nothing is left")
TRUSTED_SERVER = ("RFC 5804 server: answers each complete command with exactly one response (OK / NO / BYE) or falls "
                  "silent; the script store changes only as the RFC says")
TRUSTED_B64 = "base64.b64encode: uninterpreted injective function with output over [A-Za-z0-9+/=]"
ASSUMED_GET_CAPABILITIES = ("contract of Client.__get_capabilities (stores each announced known capability with its value, "
                            "keeps the others, returns False on NO without changes): DISCHARGED on listings of quoted names "
                            "and quoted values (7 shapes, symbolic values; units K.*) and bounded-checked on all subsets of the "
                            "known capabilities; ASSUMED for listings outside those shapes (values sent as literals, unquoted "
                            "atoms)")


def table_replay(cmd_name, drop_ext=None):
    """find a script using `cmd_name` on which the real parser and the reference (frozen table) disagree; used as the native
    replay of table obligations (C01.T / C07.T).  -> dict(confirmed, outcome)"""
    runner.get_index()
    from contracts import tables_frozen as frozen
    from bounded import sieve_gen as g, sieve_ref as ref, parser_bounded as pb
    spec = frozen.COMMANDS.get(cmd_name)
    if spec is None:
        return {"confirmed": False, "outcome": "command not in the frozen table"}
    caps = [c for c in g.ALL_CAPS if c != drop_ext]
    head = [b"require"] + g._list_tokens([b'"%s"' % c.encode() for c in caps]) + [b";"]
    for v in g.command_variants(cmd_name, spec) + g.command_variants(cmd_name, spec, upper=True):
        if spec["kind"] == "test":
            tp = [p for p in spec["positional"] if p["type"] in ("test", "testlist")]
            inner = [] if not tp else ([b"true"] if tp[0]["type"] == "test" else [b"(", b"true", b")"])
            toks = head + [b"if", cmd_name.encode()] + v + inner + [b"{", b"stop", b";", b"}"]
        elif spec["block"]:
            pre = [b"if", b"true", b"{", b"stop", b";", b"}"] if spec["follows"] else []
            tst = [b"true"] if any(p["type"] == "test" for p in spec["positional"]) else []
            toks = head + pre + [cmd_name.encode()] + v + tst + [b"{", b"stop", b";", b"}"]
        else:
            toks = head + [cmd_name.encode()] + v + [b";"]
        data = b" ".join(toks)
        r = pb.real_parse(data)
        rv = ref.verdict(data)
        if rv.status == "valid" and r["verdict"] is not True:
            if cmd_name == "keep" or any(p["optional"] for p in spec["positional"]):
                continue
            return {"confirmed": True, "outcome": "valid by the RFC table but rejected: %s" % r.get("error"), "script": data.decode("latin-1")}
        if rv.status == "invalid" and r["verdict"] is True:
            return {"confirmed": True, "outcome": "invalid by the RFC table (%s) but accepted" % rv.reason, "script": data.decode("latin-1")}
    return {"confirmed": False, "outcome": "no generated use of %s shows the difference" % cmd_name}


def pushdown_units():
    """leaf functions of the parser's push-down layer under contract (contracts/pushdown.py): every token kind x the states
    that matter, symbolic token values, abstract current command"""
    from contracts import pushdown as pd
    S = ("contracts.pushdown", "setup")
    S0 = ("contracts.pushdown", "setup_up")
    out = []
    for t in pd.TOKEN_TYPES:
        out.append(U("PD.argument.%s" % t, "contracts.pushdown", "h_argument", (t,), setup=S))
        out.append(U("PD.arguments.%s" % t, "contracts.pushdown", "h_arguments", (t,), setup=S))
        for k in (0, 2):
            out.append(U("PD.stringlist.%s.pending%d" % (t, k), "contracts.pushdown", "h_stringlist", (t, k), setup=S))
        for (in_args, nested) in ((False, False), (False, True), (True, True)):
            out.append(U("PD.command.%s.%s.%s" % (t, "arguments" if in_args else "start", "nested" if nested else "top"),
                         "contracts.pushdown", "h_command", (t, in_args, nested), setup=S))
    kinds = ("right_bracket", "right_parenthesis", "right_cbracket")
    for depth in (0, 1, 2):
        for top in kinds:
            for closing in kinds:
                if depth == 0 and top != kinds[0]:
                    continue
                out.append(U("PD.pop_bracket.depth%d.%s.%s" % (depth, top, closing), "contracts.pushdown", "h_pop_bracket",
                             (depth, top, closing), setup=S0))
    for top_level in (True, False):
        for has_rule in (True, False):
            for prev_ok in (True, False):
                out.append(U("PD.up.%s.%s.%s" % ("top" if top_level else "nested", "must-follow" if has_rule else "free",
                                                 "after-if" if prev_ok else "after-keep"),
                             "contracts.pushdown", "h_up", (top_level, has_rule, prev_ok), setup=S0))
    out.append(U("PD.up.nested-first-child", "contracts.pushdown", "h_up_nested_first_child", (), setup=S0))
    for depth in (1, 2, 3):
        out.append(U("PD.up.chain%d" % depth, "contracts.pushdown", "h_up_chain", (depth,), setup=S0))
    for depth in (0, 1, 2, 3):
        for ts in (True, False):
            out.append(U("PD.completion.depth%d.%s" % (depth, "semicolon" if ts else "nosemicolon"), "contracts.pushdown",
                         "h_completion", (depth, ts), setup=S0))
    return out


PUSHDOWN_FUNCTIONS = [("sievelib.parser", "Parser.__argument"), ("sievelib.parser", "Parser.__arguments"),
                      ("sievelib.parser", "Parser.__stringlist"), ("sievelib.parser", "Parser.__command"),
                      ("sievelib.parser", "Parser.__pop_expected_bracket"), ("sievelib.parser", "Parser.__push_expected_bracket"),
                      ("sievelib.parser", "Parser.__set_expected"), ("sievelib.parser", "Parser.__up"),
                      ("sievelib.parser", "Parser.__check_command_completion")]
PUSHDOWN_TEXT = (" PD -- the leaf functions of the push-down layer (__command, __arguments, __argument, __stringlist, "
                 "__pop_expected_bracket, __up, __check_command_completion) each under a small-step contract, run on an abstract "
                 "current command (symbolic answers, every call logged in ghost state) with a symbolic token value, for every "
                 "token kind x start-of-command / inside-arguments x top-level / nested: a value token reaches the command exactly once "
                 "as (kind, decoded value) and the command's answer is the parser's; strings inside [ ] are appended in order and the "
                 "whole list is handed over once; a closing bracket pops exactly its own kind or is refused; a top-level command is "
                 "recorded once with the pending comments; the completion check never records anything; what a branch does not "
                 "mention keeps its value (frame). The composition of these steps over a whole token sequence is NOT proved (no "
                 "global refinement invariant): that is what the bounded enumeration stands in for.")


def driver_units():
    """Parser.parse as a driver over the step function's contract, for token lists of up to 3 tokens (comments included)"""
    S = ("contracts.pushdown", "setup_driver")
    out = []
    for kinds in ((), ("token",), ("hash",), ("bracket",), ("token", "token"), ("hash", "token", "bracket"), ("token", "hash", "token"),
                  ("token", "token", "token")):
        out.append(U("PD.driver.%s" % ("-".join(kinds) or "empty"), "contracts.pushdown", "h_parse_driver", (kinds,), setup=S))
    return out


DRIVER_TEXT = (" P8 -- Parser.parse as a driver over the step function (cut by a contract that may accept, refuse, raise any of the "
               "funnelled exception kinds and change the parser state arbitrarily), for token lists of up to 3 tokens with comments: "
               "it never raises, returns True exactly when every token was accepted and nothing is left open, gives `line N: <text "
               "of what was raised>` and a position triple on failure, hands every non-comment token to the step function once and "
               "in order, and collects hash comments stripped.")


def shape_selftest_obs(pid, trials=600):
    """engine guard: the structural string layer agrees with CPython on every definite answer over random shaped strings
    (pyvc/shape_selftest.py) -- a CHECKER obligation, not a claim about sievelib: a refutation means the layer is unsound"""
    from pyvc import shape_selftest
    problems = shape_selftest.run(trials)
    return [static_ob("%s.ENGINE.structural-string-layer-agrees-with-CPython" % pid, not problems,
                      "; ".join(problems[:3]), "cpython-differential(%d shaped strings)" % trials)]
