"""Shared plan pieces."""
from pyvc.runner import Unit
from pyvc.driver import Ob
from pyvc import runner

TRUSTED_RE = ("re: compile(p).match(s, pos) is not None <=> some prefix of s[pos:] is in L(p), L(p) taken "
              "mechanically from re._parser.parse (translation cross-checked against CPython by bounded enumeration)")
TRUSTED_LOWER = ("str.lower / str.capitalize: uninterpreted functions with the lemmas lower(lower(x)) = lower(x) and "
                 "lower(x) = x for ASCII text without upper-case letters; counter-models are refined against CPython")
TRUSTED_STRIP = ("str.strip(chars): function symbol with the decomposition lemma x = pre ++ strip(x) ++ suf, pre/suf over "
                 "chars, strip(x) empty or delimited by non-strippable characters")
TRUSTED_UTF8 = ("str.encode('utf-8') / bytes.decode('utf-8'): abstract injective pair (decode(encode(s)) = s, identity on "
                "ASCII, len(encode(s)) >= len(s)); decode raises UnicodeDecodeError outside the image")


def arg_layer_units(prefix="A", classes=None, atypes=None, adds=(True, False), chks=(True, False), sample=True):
    """One unit per (command class, abstract state satisfying Inv_arg, argument type, add, check_extension)."""
    runner.get_index()
    from contracts import arglayer
    from sievelib import commands
    units = []
    for cn in arglayer.builtin_classes():
        if classes is not None and cn not in classes:
            continue
        cls = getattr(commands, cn)
        for st in arglayer.enum_states(cls):
            for at in (atypes or arglayer.ATYPES):
                for add in adds:
                    for chk in chks:
                        uid = "%s.%s.s%s.%s.%s%s" % (prefix, cn, "_".join("x" if x is None else str(x) for x in st), at,
                                                     "add" if add else "noadd", "+chk" if chk else "-chk")
                        units.append(Unit(uid, "contracts.arglayer", "h_check_next_arg", (cn, st, at, add, chk),
                                          meta={"sample_models": sample, "native_ok": True,
                                                "cls": cn, "state": st, "atype": at}))
    return units


def arg_support_units(prefix="A"):
    """Inv_arg is established by __init__ and preserved by iscomplete (supporting lemmas of the argument layer)."""
    runner.get_index()
    from contracts import arglayer
    from sievelib import commands
    units = []
    for cn in arglayer.builtin_classes():
        cls = getattr(commands, cn)
        units.append(Unit("%s.%s.init" % (prefix, cn), "contracts.arglayer", "h_init", (cn,),
                          meta={"sample_models": True, "native_ok": True}))
        for st in arglayer.enum_states(cls):
            uid = "%s.%s.s%s.iscomplete" % (prefix, cn, "_".join("x" if x is None else str(x) for x in st))
            units.append(Unit(uid, "contracts.arglayer", "h_iscomplete", (cn, st),
                              meta={"sample_models": True, "native_ok": True}))
    return units


ARG_FUNCTIONS = [("sievelib.commands", "Command.check_next_arg"), ("sievelib.commands", "Command.iscomplete"),
                 ("sievelib.commands", "Command.__init__"), ("sievelib.commands", "Command.__is_valid_value_for_arg"),
                 ("sievelib.commands", "Command.__is_valid_type"), ("sievelib.commands", "Command.has_arguments")]


def static_ob(oid, ok, note="", backend="evaluation"):
    return Ob(oid, "discharged" if ok else "refuted", [backend], 0.0, 1,
              None if ok else {"model": None, "detail": note}, note=note, kind="static")


def U(uid, module, func, params=(), setup=None, **meta):
    return Unit(uid, module, func, params, setup=setup, meta=meta)


TRUSTED_ENV_SOCKET = ("socket: sendall(b) appends b to the outbound log of the current connection; recv(n) returns a "
                      "non-empty prefix (<= n bytes) of what the server has sent, or times out when nothing is left")
TRUSTED_SERVER = ("RFC 5804 server: answers each complete command with exactly one response (OK / NO / BYE) or falls "
                  "silent; the script store changes only as the RFC says")
TRUSTED_B64 = "base64.b64encode: uninterpreted injective function with output over [A-Za-z0-9+/=]"
ASSUMED_GET_CAPABILITIES = ("contract of Client.__get_capabilities (stores each announced known capability with its value, "
                            "keeps the others, returns False on NO without changes): DISCHARGED on listings of quoted names "
                            "and quoted values (7 shapes, symbolic values; units K.*) and bounded-checked on all subsets of the "
                            "known capabilities; ASSUMED for listings outside those shapes (values sent as literals, unquoted "
                            "atoms)")


def table_replay(cmd_name, drop_ext=None):
    """find a script using `cmd_name` on which the real parser and the reference (frozen table) disagree; used as the native
    replay of table obligations (C01.T / C07.T).  -> dict(confirmed, outcome)"""
    runner.get_index()
    from contracts import tables_frozen as frozen
    from bounded import sieve_gen as g, sieve_ref as ref, parser_bounded as pb
    spec = frozen.COMMANDS.get(cmd_name)
    if spec is None:
        return {"confirmed": False, "outcome": "command not in the frozen table"}
    caps = [c for c in g.ALL_CAPS if c != drop_ext]
    head = [b"require"] + g._list_tokens([b'"%s"' % c.encode() for c in caps]) + [b";"]
    for v in g.command_variants(cmd_name, spec) + g.command_variants(cmd_name, spec, upper=True):
        if spec["kind"] == "test":
            tp = [p for p in spec["positional"] if p["type"] in ("test", "testlist")]
            inner = [] if not tp else ([b"true"] if tp[0]["type"] == "test" else [b"(", b"true", b")"])
            toks = head + [b"if", cmd_name.encode()] + v + inner + [b"{", b"stop", b";", b"}"]
        elif spec["block"]:
            pre = [b"if", b"true", b"{", b"stop", b";", b"}"] if spec["follows"] else []
            tst = [b"true"] if any(p["type"] == "test" for p in spec["positional"]) else []
            toks = head + pre + [cmd_name.encode()] + v + tst + [b"{", b"stop", b";", b"}"]
        else:
            toks = head + [cmd_name.encode()] + v + [b";"]
        data = b" ".join(toks)
        r = pb.real_parse(data)
        rv = ref.verdict(data)
        if rv.status == "valid" and r["verdict"] is not True:
            if cmd_name == "keep" or any(p["optional"] for p in spec["positional"]):
                continue
            return {"confirmed": True, "outcome": "valid by the RFC table but rejected: %s" % r.get("error"), "script": data.decode("latin-1")}
        if rv.status == "invalid" and r["verdict"] is True:
            return {"confirmed": True, "outcome": "invalid by the RFC table (%s) but accepted" % rv.reason, "script": data.decode("latin-1")}
    return {"confirmed": False, "outcome": "no generated use of %s shows the difference" % cmd_name}
