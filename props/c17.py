"""C17 -- script names and bodies come back exactly as the server holds them."""
from pyvc.driver import Plan
from pyvc import runner, scan
from props import common
from props.common import U, static_ob

PID = "C17"


def bounded_get(tier, seed):
    from bounded import client_bounded as cb
    return cb.bounded_getscript(PID, tier, seed)


def bounded_list(tier, seed):
    from bounded import client_bounded as cb
    return cb.bounded_listscripts(PID, tier, seed)


def plan(tier):
    pl = Plan()
    pl.level = "other"
    pl.units = [U("G.getscript", "contracts.bodies", "h_getscript", (), setup=("contracts.client", "setup_typestate"))]
    import itertools
    maxlen = 3 if tier == "quick" else 4
    shapes = [sh for n in range(0, maxlen + 1) for sh in itertools.product(("plain", "active"), repeat=n)]
    for sh in shapes:
        pl.units.append(U("L.listing.%s" % ("-".join(sh) or "empty"), "contracts.listing", "h_listscripts", (sh,),
                          setup=("contracts.listing", "setup"), native_ok=True, sample_models=True))
    for k in (range(0, 5) if tier == "quick" else range(0, 8)):
        pl.units.append(U("G.literal-body.%d-lines" % k, "contracts.listing", "h_getscript", (k,),
                          setup=("contracts.listing", "setup"), native_ok=True, sample_models=True))
    pl.static = [lambda: common.shape_selftest_obs(PID)]
    pl.bounded = [bounded_get, bounded_list]
    pl.functions = [("sievelib.managesieve", "Client.getscript"), ("sievelib.managesieve", "Client.listscripts")]
    pl.trusted = [common.TRUSTED_UTF8, "bytes.splitlines and str.join as uninterpreted functions (congruence only)",
                  "contract of __send_command/__read_response: for a literal reply the content is the literal's octets (+CRLF), "
                  "read through __read_block, never through __read_line (C05.R3 frame scan)"]
    pl.unverified = ["listscripts on names sent as literals or containing escapes, getscript on quoted-string bodies: bounded only "
                     "(and failing: listed findings)"]
    pl.explanation = (
        "Deductive: getscript returns '\\n'.join(decode(l) for l in content.splitlines()) for the WHOLE content (no line "
        "dropped or added), None iff the reply was NO -- an equality of uninterpreted-function terms that a change dropping, "
        "filtering or re-ordering lines breaks. L -- the REAL listscripts / __send_command / __read_response / __read_line (reader "
        "loops replaced by their C05 summaries) on every listing of up to 3 (thorough: 4) quoted names, each plain or marked ACTIVE (several ACTIVE marks included), the names "
        "SYMBOLIC (any non-empty text without quote, backslash, CR, LF): the names returned are exactly the names sent, the "
        "active one is the marked one, and the reader stops at the end of the reply (the line pattern's backtracking "
        "`\\s*(.+)` is decided on the structure of the shaped line, pyvc/shape.py). G -- the REAL getscript on a literal body "
        "of k <= 4 (thorough: 7) arbitrary lines (symbolic; a line may be `OK`, `NO (X) \"y\"`, `{5}`, anything without CR/LF): every line comes "
        "back intact and in order and the reader stops at the end of the reply -- the block is read by count, never "
        "classified. Bounded (labelled bounded, exhaustive over the pools): 16 protocol-look-alike "
        "bodies x encodings and 11 names x {quoted, literal} x {active, not} x {alone, with another script} served by the "
        "reference server, compared line by line / name by name.")
    return pl
