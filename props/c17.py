"""C17 -- script names and bodies come back exactly as the server holds them."""
from pyvc.driver import Plan
from pyvc import runner, scan
from props import common
from props.common import U, static_ob

PID = "C17"


def bounded_get(tier, seed):
    from bounded import client_bounded as cb
    return cb.bounded_getscript(PID, tier, seed)


def bounded_list(tier, seed):
    from bounded import client_bounded as cb
    return cb.bounded_listscripts(PID, tier, seed)


def plan(tier):
    pl = Plan()
    pl.level = "other"
    pl.units = [U("G.getscript", "contracts.bodies", "h_getscript", (), setup=("contracts.client", "setup_typestate"))]
    pl.bounded = [bounded_get, bounded_list]
    pl.functions = [("sievelib.managesieve", "Client.getscript"), ("sievelib.managesieve", "Client.listscripts")]
    pl.trusted = [common.TRUSTED_UTF8, "bytes.splitlines and str.join as uninterpreted functions (congruence only)",
                  "contract of __send_command/__read_response: for a literal reply the content is the literal's octets (+CRLF), "
                  "read through __read_block, never through __read_line (C05.R3 frame scan)"]
    pl.unverified = ["listscripts' per-line decoding: its line pattern needs backtracking the regex model does not cover; bounded only"]
    pl.explanation = (
        "Deductive: getscript returns '\\n'.join(decode(l) for l in content.splitlines()) for the WHOLE content (no line "
        "dropped or added), None iff the reply was NO -- an equality of uninterpreted-function terms that a change dropping, "
        "filtering or re-ordering lines breaks. Bounded (labelled bounded, exhaustive over the pools): 16 protocol-look-alike "
        "bodies x encodings and 11 names x {quoted, literal} x {active, not} x {alone, with another script} served by the "
        "reference server, compared line by line / name by name.")
    return pl
