"""C08: what the client writes (Client.__prepare_args / __prepare_content / __send_command and the call sites)."""
import z3

from pyvc import core, sym
from pyvc.api import (native, sym_str, sym_bytes, sym_int, sym_bool, prove, assume, note, implies, both, either, neg, ghost,
                      in_re)
from pyvc.core import strval
from sievelib import managesieve
from contracts.client import new_client, FakeSock, SCRIPT_METHODS, make_args, setup_typestate

CRLF = b"\r\n"


@native
def re_quoted():
    """RFC 5804 quoted string: DQUOTE *( SAFE-CHAR / "\\" ( DQUOTE / "\\" ) ) DQUOTE, SAFE-CHAR excludes NUL CR LF " \\"""
    safe = sym.re_char_not('\x00\r\n"\\')
    # bytes: restrict to 0..255
    safe = z3.Intersect(safe, z3.Range(strval("\x00"), strval("\xff")))
    esc = z3.Concat(z3.Re(strval("\\")), z3.Union(z3.Re(strval('"')), z3.Re(strval("\\"))))
    return z3.Concat(z3.Re(strval('"')), z3.Star(z3.Union(safe, esc)), z3.Re(strval('"')))


@native
def re_safe_only():
    safe = z3.Intersect(sym.re_char_not('\x00\r\n"\\'), z3.Range(strval("\x00"), strval("\xff")))
    return z3.Star(safe)


@native
def re_number():
    return z3.Plus(z3.Range(strval("0"), strval("9")))


@native
def re_sizelike_prefix():
    """texts the client's size pattern \\{(\\d+)\\+?\\} matches at their start"""
    d = z3.Plus(z3.Range(strval("0"), strval("9")))
    any_ = z3.Star(z3.Range(strval("\x00"), strval("\xff")))
    return z3.Concat(z3.Re(strval("{")), d, z3.Option(z3.Re(strval("+"))), z3.Re(strval("}")), any_)


def h_prepare_args_bytes(partition):
    """one caller-supplied string argument.
    partition 'plain'    : no special byte, not size-like   -> must be the quoted form of the value
              'unsendable': contains CR, LF or NUL          -> cannot be a quoted string: refused with Error (or sent as a literal)
              'sizelike' : looks like {n} / {n+}            -> must still be sent as a string of that value
    (values with quote / backslash: h_prepare_args_escaped, per shape)
    """
    c = new_client()
    a = sym_bytes("arg")
    if partition == "plain":
        assume(in_re(a, re_safe_only()))
        assume(neg(in_re(a, re_sizelike_prefix())))
    elif partition == "unsendable":
        assume(in_re(a, re_contains_crlfnul()))
        assume(neg(in_re(a, re_sizelike_prefix())))
    else:
        assume(in_re(a, re_sizelike_prefix()))
    kind = "return"
    out = None
    try:
        out = c._Client__prepare_args([a])
    except managesieve.Error:
        kind = "Error"
    if partition == "unsendable" and kind == "Error":
        prove(True, "W1.unsendable-value-is-refused-before-anything-is-written")
        return
    prove(kind == "return", "W1.encodable-value-is-not-refused")
    if kind != "return":
        return
    prove(len(out) == 1, "W1.one-output-per-argument")
    o = out[0]
    is_quoted_of_a = both(in_re(o, re_quoted()), o == b'"' + a + b'"', in_re(a, re_safe_only()))
    is_literal_of_a = o == b"{" + int_to_bytes(len(a)) + b"+}" + CRLF + a
    prove(either(is_quoted_of_a, is_literal_of_a), "W1.string-argument-is-wellformed-and-decodes-to-the-value")


ESCAPE_SHAPES = [("s", '"', "s"), ("s", "\\", "s"), ('"',), ("\\",), ("s", "\\", '"', "s"), ('"', "s", '"'), ("s", '"', "s", "\\"),
                 ("\\", "\\"), ('"', '"', "s")]


def h_prepare_args_escaped(shape):
    """a value with double quotes / backslashes at the places given by `shape` ('s' = any run of safe bytes, symbolic): the
    output is the RFC 5804 quoted string of the value -- DQUOTE, every quote and backslash preceded by a backslash, DQUOTE"""
    c = new_client()
    a = b""
    rfc = b""
    for i in range(len(shape)):
        if shape[i] == "s":
            piece = sym_bytes("run%d" % i)
            assume(in_re(piece, re_safe_only()))
            a = a + piece
            rfc = rfc + piece
        else:
            ch = shape[i].encode("ascii")
            a = a + ch
            rfc = rfc + b"\\" + ch
    assume(neg(in_re(a, re_sizelike_prefix())))
    kind = "return"
    out = None
    try:
        out = c._Client__prepare_args([a])
    except managesieve.Error:
        kind = "Error"
    prove(kind == "return", "W1.encodable-value-is-not-refused")
    if kind != "return":
        return
    prove(len(out) == 1, "W1.one-output-per-argument")
    o = out[0]
    is_quoted = both(in_re(o, re_quoted()), o == b'"' + rfc + b'"')
    is_literal = o == b"{" + int_to_bytes(len(a)) + b"+}" + CRLF + a
    prove(either(is_quoted, is_literal), "W1.quotes-and-backslashes-are-escaped")


@native
def re_contains_crlfnul():
    anyb = z3.Star(z3.Range(strval("\x00"), strval("\xff")))
    bad = z3.Union(z3.Re(strval("\r")), z3.Re(strval("\n")), z3.Re(strval("\x00")))
    return z3.Concat(anyb, bad, anyb)


@native
def int_to_bytes(n):
    return sym.s_int2str(n, isbytes=True)


def h_prepare_args_int():
    c = new_client()
    n = sym_int("n")
    assume(n >= 0)
    out = c._Client__prepare_args([n])
    prove(len(out) == 1 and out[0] == int_to_bytes(n), "W1.number-is-unquoted-decimal")
    prove(in_re(out[0], re_number()), "W1.number-matches-rfc-number")


def h_prepare_content():
    c = new_client()
    content = sym_str("content")
    out = c._Client__prepare_content(content)
    enc = content.encode("utf-8")
    prove(out == b"{" + int_to_bytes(len(enc)) + b"+}" + CRLF + enc, "W2.literal-length-is-utf8-byte-length")


def k_read_response(ip, args, kwargs):
    G = core.cur().ghost
    G["reads"] = G.get("reads", 0) + 1
    G["out_at_read"] = len(G["out"])
    if core.branch(sym.fresh_bool("reply_breaks").t):
        raise managesieve.Error("Connection closed by server")
    ok = core.branch(sym.fresh_bool("reply_ok").t)
    G["last_status_ok"] = ok
    code = b"OK" if ok else b"NO"
    text = sym.fresh_str("reply_text", True, register=False)
    core.assume(sym.F_utf8ok(text.t))      # conforming server: human-readable text is UTF-8 (RFC 5804 1.4)
    return (code, text, sym.fresh_str("reply_content", True, register=False))


def setup_send(ip, unit):
    import base64
    from contracts import client as cl
    ip.fn_contracts[base64.b64encode] = cl.k_b64encode
    ip.name_contracts[("sievelib.managesieve", "Client.__read_response")] = k_read_response


def h_send_command(nargs, nextra):
    """__send_command(name, args, extralines): exactly one sendall of  enc(name) [SP args joined by SP] CRLF,
    then one sendall per extra line, all before the single read of the response."""
    c = new_client()
    c.sock = FakeSock(1, False)
    G = ghost()
    name = sym_str("name")
    args = [sym_bytes("a%d" % i) for i in range(nargs)]
    for a in args:
        # arguments as prepared by the callers: plain strings (the quoting itself is W1)
        assume(in_re(a, re_safe_only()))
        assume(neg(in_re(a, re_sizelike_prefix())))
    extra = [sym_bytes("x%d" % i) for i in range(nextra)]
    kind = None
    try:
        r = c._Client__send_command(name, args if nargs else None, extralines=extra if nextra else None)
        kind = "return"
    except managesieve.Error:
        kind = "Error"
    out = G["out"]
    prove(len(out) == 1 + nextra, "W3.one-sendall-per-line")
    line = name.encode("utf-8")
    for i in range(nargs):
        line = line + b" " + b'"' + args[i] + b'"'
    prove(out[0][2] == line + CRLF, "W3.command-line")
    for i in range(nextra):
        prove(out[1 + i][2] == extra[i] + CRLF, "W3.extra-line")
    prove(G.get("reads", 0) == 1 and G["out_at_read"] == 1 + nextra, "W3.everything-sent-before-the-single-read")
    if kind == "return":
        # return contract used by every caller (C09/C10/C14/C16): the status of the one reply read, as str
        prove(len(r) == 2 and (r[0] == "OK" or r[0] == "NO"), "W3.returns-the-status-of-the-reply-as-str")
        prove(r[0] == ("OK" if G["last_status_ok"] else "NO"), "W3.returned-status-is-the-one-read")


def h_call_site(mname):
    """W4: each public script operation passes the RFC's argument list for its verb to __send_command."""
    c = new_client()
    G = ghost()
    c.authenticated = True
    G["conn_auth"] = True
    c.sock = FakeSock(1, False)
    c._Client__capabilities = {"VERSION": "1.0", "SASL": "PLAIN"}
    args = make_args(mname)
    try:
        getattr(c, mname)(*args)
    except managesieve.Error:
        pass
    except UnicodeDecodeError:
        pass
    if G.get("refused", False):
        prove(len(G.get("log", [])) == 0, "W4.refused-argument-nothing-written")
        return
    log = G["log"]
    prove(len(log) == 1 and log[0][1] == SCRIPT_METHODS[mname], "W4.one-command-of-the-intended-verb")
    sent = log[0][2]
    if mname == "havespace":
        prove(len(sent) == 2 and sent[0] == args[0].encode("utf-8") and sent[1] is args[1], "W4.arguments")
    elif mname == "listscripts":
        prove(sent is None or len(sent) == 0, "W4.arguments")
    elif mname in ("getscript", "deletescript", "setactive"):
        prove(len(sent) == 1 and sent[0] == args[0].encode("utf-8"), "W4.arguments")
    elif mname == "putscript":
        enc = args[1].encode("utf-8")
        prove(len(sent) == 2 and sent[0] == args[0].encode("utf-8")
              and sent[1] == b"{" + int_to_bytes(len(enc)) + b"+}" + CRLF + enc, "W4.arguments")
    elif mname == "checkscript":
        enc = args[0].encode("utf-8")
        prove(len(sent) == 1 and sent[0] == b"{" + int_to_bytes(len(enc)) + b"+}" + CRLF + enc, "W4.arguments")
    elif mname == "renamescript":
        prove(len(sent) == 2 and sent[0] == args[0].encode("utf-8") and sent[1] == args[1].encode("utf-8"), "W4.arguments")
    else:
        prove(False, "W4.unknown-operation-has-no-wire-spec")


def h_send_command_unsendable():
    """__send_command with a string argument that cannot be written as a quoted string: Error, and nothing at all is written
    or read (the refusal clause of the contract its callers use)"""
    c = new_client()
    c.sock = FakeSock(1, False)
    G = ghost()
    name = sym_str("name")
    good = sym_bytes("a0")
    bad = sym_bytes("a1")
    assume(in_re(good, re_safe_only()))
    assume(neg(in_re(good, re_sizelike_prefix())))
    assume(in_re(bad, re_contains_crlfnul()))
    assume(neg(in_re(bad, re_sizelike_prefix())))
    kind = None
    try:
        c._Client__send_command(name, [good, bad])
        kind = "return"
    except managesieve.Error:
        kind = "Error"
    prove(kind == "Error", "W3.unsendable-argument-raises-Error")
    prove(len(G["out"]) == 0 and G.get("reads", 0) == 0, "W3.refusal-happens-before-anything-is-written-or-read")
