"""Native replays of client counter-models: the real Client against a scripted reference server."""
import base64
import inspect
import socket
import ssl

from bounded.fakeserver import FakeServer, quote

SCRIPT_VERBS = ("HAVESPACE", "LISTSCRIPTS", "GETSCRIPT", "PUTSCRIPT", "CHECKSCRIPT", "DELETESCRIPT", "RENAMESCRIPT",
                "SETACTIVE")
KNOWN_CAPS = ["IMPLEMENTATION", "SASL", "SIEVE", "STARTTLS", "NOTIFY", "LANGUAGE", "VERSION"]


def _k(name, k):
    return "%s!%d" % (name, k) if k else name


class ScriptedServer(FakeServer):
    """outcome of the k-th command taken from the counter-model (reply_is_ok!k, reply_is_bye_or_silence!k)"""

    def __init__(self, model, **kw):
        FakeServer.__init__(self, **kw)
        self.model = model
        self.k = 0
        self.tls = False
        self.events = []
        self.greetings = 0

    def greeting(self):
        """capability listing + OK, from announced_X!k / capvalue_X!k (defaults: SASL PLAIN)"""
        g = self.greetings
        self.greetings += 1
        m = self.model
        if m.get(_k("capability_reply_is_bye_or_silence", g)):
            return
        if m.get(_k("capability_reply_is_no", g)):
            self.outq += b'NO "no capabilities for you"\r\n'
            return
        any_key = any(_k("announced_" + c, g) in m for c in KNOWN_CAPS)
        for c in KNOWN_CAPS:
            if any_key:
                if not m.get(_k("announced_" + c, g)):
                    continue
                val = m.get(_k("capvalue_" + c, g), "")
            else:
                if c not in ("IMPLEMENTATION", "SASL", "STARTTLS"):
                    continue
                val = {"IMPLEMENTATION": "ref", "SASL": "PLAIN", "STARTTLS": ""}[c]
            self.outq += quote(c.encode()) + (b" " + quote(val.encode("utf-8")) if val != "" or c != "STARTTLS" else b"") + b"\r\n"
        self.outq += b'OK "ready"\r\n'

    def execute(self, verb, args):
        k = self.k
        self.k += 1
        self.events.append((verb, self.tls, self.authenticated))
        m = self.model
        if verb in SCRIPT_VERBS and not self.authenticated:
            self.violations.append("%s before authentication" % verb)
        if m.get(_k("reply_is_bye_or_silence", k)):
            self.silent = True
            return
        if self.silent:
            return
        ok = m.get(_k("reply_is_ok", k), True)
        if not ok:
            self.outq += b'NO "refused"\r\n'
            return
        if verb == "AUTHENTICATE" or verb == "<continuation>":
            if verb == "AUTHENTICATE" and args and args[0] == b"LOGIN":
                return  # wait for the two continuation lines
            self.authenticated = True
            self.outq += b'OK "Logged in."\r\n'
            return
        if verb == "STARTTLS":
            self.outq += b'OK "Begin TLS negotiation now."\r\n'
            return
        FakeServer._do(self, verb, args)


class _Ctx:
    def __init__(self, model):
        self.model = model

    def load_cert_chain(self, *a, **k):
        pass

    def wrap_socket(self, sock, server_hostname=None):
        if self.model.get("tls_handshake_fails"):
            raise ssl.SSLError("handshake failure")
        sock.tls = True
        sock.greeting()
        return sock


def _args_for(mname, model):
    from sievelib import managesieve
    fn = vars(managesieve.Client)[mname]
    target = fn
    if fn.__closure__:
        for cell in fn.__closure__:
            try:
                if callable(cell.cell_contents):
                    target = cell.cell_contents
            except ValueError:
                pass
    args = []
    for pname, p in list(inspect.signature(target).parameters.items())[1:]:
        s = str(p.annotation)
        if p.annotation is int or s == "int":
            args.append(model.get("arg_" + pname, 0))
        elif p.annotation is bool or s == "bool":
            args.append(bool(model.get("arg_" + pname, False)))
        elif pname == "authmech":
            choice = None
            for cand in ["<none>"] + list(managesieve.SUPPORTED_AUTH_MECHS):
                if choice is None and model.get("arg_authmech_is_" + cand):
                    choice = cand
            args.append(model.get("arg_authmech", "X-OTHER") if choice is None else (None if choice == "<none>" else choice))
        elif "Optional" in s:
            args.append(model.get("arg_" + pname) if model.get("arg_" + pname + "_given") else None)
        else:
            args.append(model.get("arg_" + pname, ""))
    return args


def replay_typestate(unit, label, model):
    from sievelib import managesieve
    mname = unit.params[0]
    srv = ScriptedServer(model, authenticated=bool(model.get("conn_auth")), scripts={"a": b"keep;\r\n"}, active=None)
    c = managesieve.Client("reference.example")
    c.authenticated = bool(model.get("authenticated"))
    c.sock = srv
    caps = {}
    for k in KNOWN_CAPS:
        if model.get("cap_has_" + k):
            caps[k] = model.get("cap_" + k, "")
    setattr(c, "_Client__capabilities", caps)
    args = _args_for(mname, model)
    new_srv = ScriptedServer(model, authenticated=False)
    real_cc, real_ctx = socket.create_connection, ssl.create_default_context

    def fake_cc(addr, *a, **k):
        if model.get("connect_refused"):
            raise socket.error("refused")
        new_srv.greeting()
        return new_srv

    socket.create_connection = fake_cc
    ssl.create_default_context = lambda *a, **k: _Ctx(model)
    try:
        try:
            r = getattr(c, mname)(*args)
            outcome = "returned %r" % (r,)
        except managesieve.Error as e:
            outcome = "Error(%s)" % e
        except Exception as e:
            outcome = "%s: %s" % (type(e).__name__, e)
    finally:
        socket.create_connection, ssl.create_default_context = real_cc, real_ctx
    cur = c.sock if isinstance(c.sock, ScriptedServer) else srv
    problems = []
    for s_ in (srv, new_srv):
        problems += [v for v in s_.violations if "before authentication" in v]
    if mname in ("havespace", "listscripts", "getscript", "putscript", "checkscript", "deletescript", "renamescript",
                 "setactive") and not model.get("authenticated"):
        if not outcome.startswith("Error("):
            problems.append("unauthenticated script call did not raise Error: " + outcome)
        if srv.sent_raw:
            problems.append("unauthenticated script call wrote to the socket: %r" % (srv.sent_raw[:2],))
    if c.authenticated and not cur.authenticated:
        problems.append("Client.authenticated is True but no AUTHENTICATE was answered OK on the current connection")
    if mname == "connect" and len(args) > 3 and args[3]:
        for (verb, tls, _a) in new_srv.events:
            if verb == "AUTHENTICATE" and not tls:
                problems.append("AUTHENTICATE written before the TLS handshake although STARTTLS was requested")
    return {"confirmed": bool(problems), "outcome": outcome,
            "detail": {"problems": problems, "args": [repr(a) for a in args], "bytes_written_old_connection": [repr(x) for x in srv.sent_raw[:6]],
                       "bytes_written_new_connection": [repr(x) for x in new_srv.sent_raw[:6]]}}


def _expected_mech(authmech, announced):
    order = ["DIGEST-MD5", "PLAIN", "LOGIN", "OAUTHBEARER"]
    if authmech in order:
        return authmech if authmech in announced else None
    for m in order:
        if m in announced:
            return m
    return None


def replay_selection(unit, label, model):
    """real __authenticate against a server announcing model['cap_SASL']; the mechanism actually used is read off the
    AUTHENTICATE command"""
    from sievelib import managesieve
    case = unit.params[0]
    authmech = None if case == "none" else (model.get("authmech", "X-OTHER") if case == "other" else case)
    sasl = model.get("cap_SASL", "")
    has = model.get("cap_has_SASL", False)
    results = []
    # the counter-model leaves split() abstract: try the announced sets that matter
    candidates = [sasl] if sasl.strip() else []
    candidates += ["PLAIN", "LOGIN", "OAUTHBEARER", "PLAIN LOGIN", "LOGIN PLAIN", "OAUTHBEARER LOGIN PLAIN", "X-UNKNOWN", "",
                   "DIGEST-MD5 PLAIN", "PLAIN DIGEST-MD5"]
    for ann, first_no in [(a, f) for a in candidates for f in (False, True)]:
        srv = ScriptedServer({"reply_is_ok": False} if first_no else {}, authenticated=False)
        c = managesieve.Client("reference.example")
        c.sock = srv
        setattr(c, "_Client__capabilities", {"SASL": ann} if has or True else {})
        try:
            r = c._Client__authenticate(model.get("login", "user"), model.get("password", "pw"), model.get("authz", ""), authmech)
            outcome = "returned %r" % (r,)
        except managesieve.Error as e:
            outcome = "Error(%s)" % e
        except Exception as e:
            outcome = "%s: %s" % (type(e).__name__, e)
        used = [args[0].decode() for verb, args in srv.log if verb == b"AUTHENTICATE" and args]
        exp = _expected_mech(authmech, ann.split())
        if exp == "DIGEST-MD5":
            continue  # known finding: the module cannot run
        ok = (used == ([exp] if exp else []))
        if first_no and exp and outcome != "returned False":
            ok = False
        results.append((ann, used, exp, outcome))
        if not ok:
            return {"confirmed": True, "outcome": outcome,
                    "detail": {"announced": ann, "authmech": authmech, "mechanism_used": used, "expected": exp}}
    return {"confirmed": False, "outcome": "no announced set in the pool shows the difference", "detail": {"tried": results[:6]}}


def replay_payload(unit, label, model):
    from sievelib import managesieve
    srv = ScriptedServer({}, authenticated=False)
    c = managesieve.Client("reference.example")
    c.sock = srv
    login = model.get("login", b"user")
    pw = model.get("password", model.get("token", b"secret"))
    authz = model.get("authz", b"")
    enc = lambda x: x.encode("utf-8") if isinstance(x, str) else x
    fn = unit.func
    problems = []
    try:
        if fn == "h_plain":
            r = c._plain_authentication(enc(login), enc(pw), enc(authz))
            exp = [b"PLAIN", base64.b64encode(enc(authz) + b"\0" + enc(login) + b"\0" + enc(pw))]
        elif fn == "h_login":
            r = c._login_authentication(enc(login), enc(pw), b"")
            exp = [b"LOGIN"]
        else:
            r = c._oauthbearer_authentication(login, pw, b"")
            exp = [b"OAUTHBEARER", base64.b64encode(b"n,a=" + enc(login) + b",\x01auth=Bearer " + enc(pw) + b"\x01\x01")]
        outcome = "returned %r" % (r,)
    except Exception as e:
        outcome = "%s: %s" % (type(e).__name__, e)
        exp = None
    auth = [args for verb, args in srv.log if verb == b"AUTHENTICATE"]
    if exp is not None and (len(auth) != 1 or auth[0] != exp):
        problems.append("AUTHENTICATE arguments %r, expected %r" % (auth, exp))
    if fn == "h_login":
        cont = [args[0] for verb, args in srv.log if verb == b"<continuation>"]
        if cont != [base64.b64encode(enc(login)), base64.b64encode(enc(pw))]:
            problems.append("LOGIN continuation lines %r" % (cont,))
    if srv.violations:
        problems.append("server-side parser: %r" % srv.violations[:2])
    return {"confirmed": bool(problems), "outcome": outcome, "detail": {"problems": problems}}


def replay_digest(unit, label, model):
    from sievelib import managesieve

    class S:
        def __init__(self):
            self.q = b'"' + base64.b64encode(b'realm="example",nonce="abc",qop="auth",charset=utf-8,algorithm=md5-sess') + b'"\r\n'

        def sendall(self, b):
            pass

        def recv(self, n):
            if not self.q:
                raise socket.timeout()
            out, self.q = self.q[:n], self.q[n:]
            return out

        def close(self):
            pass

    c = managesieve.Client("reference.example")
    c.sock = S()
    try:
        r = c._digest_md5_authentication(b"user", b"pw", b"")
        return {"confirmed": False, "outcome": "returned %r" % (r,)}
    except managesieve.Error as e:
        return {"confirmed": False, "outcome": "Error(%s)" % e}
    except Exception as e:
        return {"confirmed": True, "outcome": "%s: %s" % (type(e).__name__, e)}
