"""C19 (deductive part): read-back of positional string arguments of actions and of header conditions, for values without
comma and quote (the comma case is the known finding; values starting with ':' or a quote are taken as tag / already quoted)."""
import z3
from pyvc import sym
from pyvc.api import (native, sym_str, prove, assume, note, in_re, neg)
from pyvc.core import strval
from sievelib import commands, factory


@native
def re_plain():
    first = sym.re_char_not('",\\:\'')
    rest = sym.re_char_not('",\\')
    return z3.Union(z3.Re(strval("")), z3.Concat(first, z3.Star(rest)))


def h_action_readback(action, disabled):
    v = sym_str("value")
    assume(in_re(v, re_plain()))
    fs = factory.FiltersSet("t")
    fs.addfilter("rule", [("Subject", ":is", "x")], [(action, v)])
    if disabled:
        fs.disablefilter("rule")
    got = fs.get_filter_actions("rule")
    prove(len(got) == 1 and len(got[0]) == 2 and got[0][0] == action, "RB.action-shape")
    prove(got[0][1] == v, "RB.action-value-read-back-unchanged")


def h_header_readback(matchtype, disabled):
    """(name, :is/:contains/:matches and their :not forms, value) comes back with the negation folded into the tag"""
    v = sym_str("value")
    n = sym_str("header_name")
    assume(in_re(v, re_plain()))
    assume(in_re(n, re_plain()))
    assume(neg(n.startswith("not")))
    # the first element of a condition tuple selects the kind: these names are not header names
    assume(neg(n in ["true", "false", "size", "exists", "envelope", "address", "body", "currentdate"]))
    fs = factory.FiltersSet("t")
    fs.addfilter("rule", [(n, matchtype, v)], [("keep",)])
    if disabled:
        fs.disablefilter("rule")
    got = fs.get_filter_conditions("rule")
    prove(len(got) == 1 and len(got[0]) == 3, "RB.condition-shape")
    prove(got[0][1] == matchtype, "RB.match-type-with-negation-read-back")
    prove(got[0][0] == n and got[0][2] == v, "RB.condition-name-and-value-read-back-unchanged")
    prove(fs.get_filter_matchtype("rule") == "anyof", "RB.filter-match-type")
