"""C19 (deductive part): read-back of positional string arguments of actions and of header conditions, for values without
comma and quote (the comma case is the known finding; values starting with ':' or a quote are taken as tag / already quoted)."""
import z3
from pyvc import sym
from pyvc.api import (native, sym_str, prove, assume, note, in_re, neg)
from pyvc.core import strval
from sievelib import commands, factory


@native
def re_plain():
    first = sym.re_char_not('",\\:\'')
    rest = sym.re_char_not('",\\')
    return z3.Union(z3.Re(strval("")), z3.Concat(first, z3.Star(rest)))


def h_action_readback(action, disabled):
    v = sym_str("value")
    assume(in_re(v, re_plain()))
    fs = factory.FiltersSet("t")
    fs.addfilter("rule", [("Subject", ":is", "x")], [(action, v)])
    if disabled:
        fs.disablefilter("rule")
    got = fs.get_filter_actions("rule")
    prove(len(got) == 1 and len(got[0]) == 2 and got[0][0] == action, "RB.action-shape")
    prove(got[0][1] == v, "RB.action-value-read-back-unchanged")


def h_header_readback(matchtype, disabled):
    """(name, :is/:contains/:matches and their :not forms, value) comes back with the negation folded into the tag"""
    v = sym_str("value")
    n = sym_str("header_name")
    assume(in_re(v, re_plain()))
    assume(in_re(n, re_plain()))
    assume(neg(n.startswith("not")))
    # the first element of a condition tuple selects the kind: these names are not header names
    assume(neg(n in ["true", "false", "size", "exists", "envelope", "address", "body", "currentdate"]))
    fs = factory.FiltersSet("t")
    fs.addfilter("rule", [(n, matchtype, v)], [("keep",)])
    if disabled:
        fs.disablefilter("rule")
    got = fs.get_filter_conditions("rule")
    prove(len(got) == 1 and len(got[0]) == 3, "RB.condition-shape")
    prove(got[0][1] == matchtype, "RB.match-type-with-negation-read-back")
    prove(got[0][0] == n and got[0][2] == v, "RB.condition-name-and-value-read-back-unchanged")
    prove(fs.get_filter_matchtype("rule") == "anyof", "RB.filter-match-type")


def h_exists_readback(k, negated, disabled):
    """("exists" | "notexists", name1 .. namek) comes back with the same names"""
    names = []
    for i in range(k):
        n = sym_str("name%d" % i)
        assume(in_re(n, re_plain()))
        names.append(n)
    fs = factory.FiltersSet("t")
    kind = "notexists" if negated else "exists"
    fs.addfilter("rule", [tuple([kind] + names)], [("keep",)])
    if disabled:
        fs.disablefilter("rule")
    got = fs.get_filter_conditions("rule")
    prove(len(got) == 1 and len(got[0]) == 1 + k and got[0][0] == kind, "RB.condition-shape")
    if len(got) == 1 and len(got[0]) == 1 + k:
        for i in range(k):
            prove(got[0][1 + i] == names[i], "RB.names-read-back-unchanged-in-order")


CONDITION_KINDS = ["size", "envelope", "envelope-list", "envelope-not", "body", "body-not", "currentdate", "currentdate-not",
                   "currentdate-value", "two-conditions-allof", "header+exists-anyof"]


def _norm(t):
    return tuple(tuple(x) if isinstance(x, list) else x for x in t)


def h_condition_readback(kind, disabled):
    """one filter built from a condition of the given kind with SYMBOLIC values (no comma, quote, backslash): the
    conditions read back are the ones supplied, negation included; the match type is the one supplied"""
    v = sym_str("value")
    w = sym_str("other_value")
    assume(in_re(v, re_plain()))
    assume(in_re(w, re_plain()))
    mt = "anyof"
    if kind == "size":
        conds = [("size", ":over", "100K")]
    elif kind == "envelope":
        conds = [("envelope", ":is", ["from"], [v])]
    elif kind == "envelope-list":
        conds = [("envelope", ":contains", ["from", "to"], [v, w])]
    elif kind == "envelope-not":
        conds = [("envelope", ":notis", ["to"], [v])]
    elif kind == "body":
        conds = [("body", ":raw", ":contains", v)]
    elif kind == "body-not":
        conds = [("body", ":text", ":notcontains", v, w)]
    elif kind == "currentdate":
        conds = [("currentdate", ":zone", "+0100", ":is", "date", v)]
    elif kind == "currentdate-not":
        conds = [("currentdate", ":zone", "+0100", ":notis", "date", v)]
    elif kind == "currentdate-value":
        conds = [("currentdate", ":zone", "+0100", ":value", "gt", "date", v)]
    elif kind == "two-conditions-allof":
        conds = [("Subject", ":notcontains", v), ("exists", w)]
        mt = "allof"
    else:
        conds = [("notexists", v, w), ("From", ":is", w)]
    fs = factory.FiltersSet("t")
    fs.addfilter("rule", conds, [("keep",)], mt)
    if disabled:
        fs.disablefilter("rule")
    got = fs.get_filter_conditions("rule")
    prove(len(got) == len(conds), "RB.number-of-conditions")
    if len(got) == len(conds):
        for i in range(len(conds)):
            prove(_norm(got[i]) == _norm(conds[i]), "RB.condition-read-back-as-supplied")
    prove(fs.get_filter_matchtype("rule") == mt, "RB.filter-match-type")


def h_updated_readback(disabled):
    """updatefilter replaces conditions, actions AND match type: what is read back afterwards is what was given last"""
    v = sym_str("value")
    w = sym_str("other_value")
    assume(in_re(v, re_plain()))
    assume(in_re(w, re_plain()))
    fs = factory.FiltersSet("t")
    fs.addfilter("rule", [("Subject", ":is", "old")], [("discard",)], "anyof")
    if disabled:
        fs.disablefilter("rule")
    conds = [("Subject", ":notmatches", v), ("exists", w, "X-Other")]
    fs.updatefilter("rule", "rule", conds, [("fileinto", w)], "allof")
    got = fs.get_filter_conditions("rule")
    prove(len(got) == 2, "RB.number-of-conditions")
    if len(got) == 2:
        prove(_norm(got[0]) == _norm(conds[0]) and _norm(got[1]) == _norm(conds[1]), "RB.condition-read-back-as-supplied")
    prove(fs.get_filter_matchtype("rule") == "allof", "RB.filter-match-type")
    acts = fs.get_filter_actions("rule")
    prove(len(acts) == 1 and _norm(acts[0]) == ("fileinto", w), "RB.action-read-back-as-supplied")
    prove(fs.is_filter_disabled("rule") == disabled, "RB.update-keeps-the-enabled-status")


# the claim covers actions with positional strings and value-less tags (tags with a parameter are outside it)
ACTION_KINDS = ["fileinto-copy", "fileinto-create", "fileinto-copy-create", "redirect-copy", "two-actions", "stop", "discard"]


def h_action_forms_readback(kind, disabled):
    v = sym_str("value")
    w = sym_str("other_value")
    assume(in_re(v, re_plain()))
    assume(in_re(w, re_plain()))
    if kind == "fileinto-copy":
        acts = [("fileinto", ":copy", v)]
    elif kind == "fileinto-create":
        acts = [("fileinto", ":create", v)]
    elif kind == "fileinto-copy-create":
        acts = [("fileinto", ":copy", ":create", v)]
    elif kind == "redirect-copy":
        acts = [("redirect", ":copy", v)]
    elif kind == "two-actions":
        acts = [("fileinto", v), ("redirect", w)]
    elif kind == "stop":
        acts = [("stop",)]
    else:
        acts = [("discard",)]
    fs = factory.FiltersSet("t")
    fs.addfilter("rule", [("Subject", ":is", "x")], acts)
    if disabled:
        fs.disablefilter("rule")
    got = fs.get_filter_actions("rule")
    prove(len(got) == len(acts), "RB.number-of-actions")
    if len(got) == len(acts):
        for i in range(len(acts)):
            prove(_norm(got[i]) == _norm(acts[i]), "RB.action-read-back-as-supplied")
