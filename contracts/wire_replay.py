"""Native replay for C08.W1: the real __prepare_args on the model's value, checked with the strict RFC 5804 parser."""
from bounded.fakeserver import parse_commands, ProtocolViolation


def replay_prepare_args(unit, label, model):
    from sievelib import managesieve
    a = model.get("arg", b"")
    c = managesieve.Client("x")
    out = c._Client__prepare_args([a])
    wire = b"DELETESCRIPT " + b" ".join(out) + b"\r\n"
    try:
        cmds, rest = parse_commands(wire)
        ok = rest == b"" and cmds == [(b"DELETESCRIPT", [a])]
        detail = "server-side parse of %r: %r rest=%r" % (wire, cmds, rest)
    except ProtocolViolation as e:
        ok = False
        detail = "server-side parse of %r: %s" % (wire, e)
    return {"confirmed": not ok, "outcome": detail}
