"""Client.__get_capabilities under contract on SHAPED capability listings (the contract the C16 / typestate proofs use for
it, contracts/client.py k_get_capabilities, is otherwise assumed).

The real __get_capabilities / __read_response / __read_line run (reader loops replaced by their C05 summaries) on

    line*  OK-or-NO-or-BYE line,     line = "NAME" | "NAME" "value"

with NAME a concrete capability name (known or unknown to the client) and `value` SYMBOLIC (any text without quote,
backslash, CR, LF -- spaces allowed, may be empty).  Clauses = the clauses of the assumed contract:
  * OK: returns True; every announced KNOWN capability is stored with the value of its LAST line (None when the line
    has no value); known capabilities that were not announced keep their previous entry; unknown names are not stored
  * NO: returns False and the table is unchanged;  BYE: Error
  * the reader stops exactly at the end of the reply
"""
import z3

from pyvc import core, sym
from pyvc.api import (native, sym_str, sym_bytes, sym_int, sym_bool, prove, assume, note, implies, both, either, neg, ghost, in_re)
from pyvc.core import strval
from sievelib import managesieve
from contracts.client import new_client, FakeSock

CRLF = b"\r\n"

SHAPES = [
    (),
    (("IMPLEMENTATION", True), ("SASL", True), ("SIEVE", True), ("STARTTLS", False)),
    (("SASL", True), ("SASL", True)),
    (("XUNKNOWN", True), ("VERSION", True)),
    (("STARTTLS", False), ("NOTIFY", True), ("LANGUAGE", True)),
    (("SASL", True), ("UNAUTHENTICATE", False), ("SASL", False)),
    (("MAXREDIRECTS", True), ("OWNER", True)),
]


@native
def re_value():
    safe = z3.Intersect(sym.re_char_not('\x00\r\n"\\'), z3.Range(strval("\x00"), strval("\xff")))
    return z3.Star(safe)


def setup(ip, unit):
    from contracts import reader
    reader.setup_summaries(ip, unit)


def h_get_capabilities(shape, status):
    c = new_client()
    G = ghost()
    c.sock = FakeSock(1, False)
    old_sieve = sym_str("previous_SIEVE_value")
    c._Client__capabilities = {"SIEVE": old_sieve}
    listing = b""
    last = {}
    for i in range(len(shape)):
        name = shape[i][0]
        if shape[i][1]:
            v = sym_bytes("value%d" % i)
            assume(in_re(v, re_value()))
            try:
                text = v.decode("utf-8")
            except UnicodeDecodeError:
                return      # not UTF-8: outside the conforming-server assumption
            listing = listing + b'"' + name.encode("ascii") + b'" "' + v + b'"' + CRLF
            last[name] = text
        else:
            listing = listing + b'"' + name.encode("ascii") + b'"' + CRLF
            last[name] = None
    if status == "OK":
        reply = listing + b'OK "Capability completed."' + CRLF
    elif status == "NO":
        reply = b'NO "not now"' + CRLF
    else:
        reply = b'BYE "shutting down"' + CRLF
    later = sym_bytes("bytes_of_the_next_reply")
    c._Client__read_buffer = reply + later
    G["inb"] = b""
    kind = "return"
    r = None
    try:
        r = c._Client__get_capabilities()
    except managesieve.Error:
        kind = "Error"
    except Exception as e:
        kind = "crash"
        note("exception", type(e).__name__)
    caps = c._Client__capabilities
    if status == "BYE":
        prove(kind == "Error", "K.BYE-raises-Error")
        return
    prove(kind == "return", "K.listing-is-decoded")
    if kind != "return":
        return
    prove(c._Client__read_buffer == later, "K.reader-stops-at-the-end-of-the-reply")
    if status == "NO":
        prove(r is False, "K.NO-returns-False")
        prove(len(caps) == 1 and caps["SIEVE"] == old_sieve, "K.NO-changes-nothing")
        return
    prove(r is True, "K.OK-returns-True")
    for name in managesieve.KNOWN_CAPABILITIES:
        if name in last:
            prove(name in caps, "K.announced-known-capability-is-stored")
            if name in caps:
                if last[name] is None:
                    prove(caps[name] is None, "K.capability-without-value-is-stored-as-None")
                else:
                    prove(caps[name] == last[name], "K.value-is-the-last-announced-value")
        elif name == "SIEVE":
            prove(caps["SIEVE"] == old_sieve, "K.unannounced-capability-keeps-its-entry")
        else:
            prove(name not in caps, "K.unannounced-capability-is-not-invented")
    for name in last:
        if name not in managesieve.KNOWN_CAPABILITIES:
            prove(name not in caps, "K.unknown-capability-is-not-stored")
