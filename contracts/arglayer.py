"""Argument layer: Command.check_next_arg / iscomplete / __init__ / reassign_arguments under contract.

Carries C01.A, C01.A-case, C03.A6, C07.G2, C18.3 (immediacy at argument level) and the per-class part of C20.
The harness functions below are *interpreted* by pyvc (this module is tracked), the real
functions they call are interpreted from /repo's source; `spec_step` is the transition of
the obvious automaton over the FROZEN table (tables_frozen.py), not over the code's table.
"""
from pyvc.api import (native, sym_str, sym_set, sym_bool, opaque, sdict, prove, assume, note, implies, both, either,
                      neg, is_symbolic, same)
from sievelib import commands
from contracts import tables_frozen as frozen

ATYPES = ["tag", "string", "number", "stringlist", "test"]


# ----------------------------------------------------------------------------- state enumeration (native helpers)

@native
def builtin_classes():
    out = []
    for name, obj in sorted(vars(commands).items()):
        if isinstance(obj, type) and issubclass(obj, commands.Command) and name.endswith("Command") \
                and hasattr(obj, "args_definition") and getattr(obj, "_type", None) is not None \
                and name not in ("ControlCommand", "ActionCommand", "TestCommand"):
            out.append(name)
    return out


@native
def required_indices(D):
    return [i for i, a in enumerate(D) if a.get("required", False)]


@native
def enum_states(cls):
    """All abstract states satisfying Inv_arg for the class's definition.

    (nextargpos, curarg index | None, required_args known?, special)
    Inv_arg: nextargpos is 0 or one past a required slot; rargs_cnt = number of required slots below
    nextargpos; curarg is None, the last required slot filled, or an optional slot >= nextargpos that has
    an extra_arg (parameter pending); a required slot >= nextargpos is absent from `arguments`.
    """
    D = cls.args_definition
    R = required_indices(D)
    states = []
    for npos in [0] + [r + 1 for r in R]:
        if D and any(D[r]["type"] == ["testlist"] for r in R if r < npos):
            continue  # a testlist slot never advances nextargpos
        curs = [None]
        below = [r for r in R if r < npos]
        if below:
            curs.append(below[-1])
        for i in range(npos, len(D)):
            if not D[i].get("required", False) and "extra_arg" in D[i]:
                curs.append(i)
        for c in curs:
            for known in (False, True):
                states.append((npos, c, known, None))
    if getattr(cls, "non_deterministic_args", False):
        # after reassign_arguments: the optional positional was moved into the required slot, rargs_cnt = 1
        for known in (False, True):
            states.append((0, None, known, "reassigned"))
    return states


@native
def build_state(cls, st, tagp):
    """A real instance of the real class put into abstract state `st`; dict contents symbolic."""
    npos, c, known, special = st
    D = cls.args_definition
    R = required_indices(D)
    cmd = cls(None)
    cmd.nextargpos = npos
    cmd.rargs_cnt = len([r for r in R if r < npos])
    cmd.curarg = D[c] if c is not None else None
    cmd.required_args = len(R) if known else -1
    args = {}
    extra = {}
    for i, a in enumerate(D):
        name = a["name"]
        if a.get("required", False):
            if i < npos:
                args[name] = (True, opaque("old_" + name))
            else:
                args[name] = (False, None)
            if a["type"] == ["testlist"]:
                args[name] = (sym_bool(tagp + "has_" + name), [opaque("old_test")])
        else:
            args[name] = (sym_bool(tagp + "has_" + name), opaque("old_" + name))
            if "extra_arg" in a:
                extra[name] = (sym_bool(tagp + "hasx_" + name), opaque("oldx_" + name))
    if special == "reassigned":
        cmd.rargs_cnt = 1
        for i, a in enumerate(D):
            if a.get("required", False):
                args[a["name"]] = (True, opaque("moved"))
            elif "tag" not in a["type"]:
                args[a["name"]] = (False, None)
    cmd.arguments = sdict(args)
    cmd.extra_arguments = sdict(extra)
    return cmd


@native
def inv_holds(cmd):
    """Inv_arg on a concrete-shaped post state (native evaluation: all fields involved are concrete)."""
    cls = type(cmd)
    D = cls.args_definition
    R = required_indices(D)
    if not isinstance(cmd.nextargpos, int) or not isinstance(cmd.rargs_cnt, int) or not isinstance(cmd.required_args, int):
        return False
    c = None
    if cmd.curarg is not None:
        idx = [i for i, a in enumerate(D) if a is cmd.curarg]
        if not idx:
            return False
        c = idx[0]
    special = None
    if getattr(cls, "non_deterministic_args", False) and cmd.nextargpos == 0 and cmd.rargs_cnt == 1:
        special = "reassigned"
    for st in enum_states(cls):
        if st[0] == cmd.nextargpos and st[1] == c and st[3] == special:
            exp_r = len([r for r in R if r < st[0]]) if special is None else 1
            if cmd.rargs_cnt != exp_r:
                continue
            if cmd.required_args not in (-1, len(R)):
                continue
            # required slots at or beyond nextargpos must be absent (unless testlist / reassigned)
            ok = True
            if special is None:
                for i in R:
                    if i >= st[0] and D[i]["type"] != ["testlist"]:
                        pres = (D[i]["name"] in cmd.arguments) if isinstance(cmd.arguments, dict) \
                            else cmd.arguments.present(D[i]["name"])
                        if pres is not False:
                            ok = False
            if ok:
                return True
    return False


@native
def ext_tags(S):
    """(tag, capability) pairs of a frozen definition"""
    out = []
    for t in S["tagged"]:
        for tag, e in t["tags"].items():
            need = e or t["ext"]
            if need:
                out.append((tag, need))
    return out


@native
def _cp(v):
    return list(v) if isinstance(v, list) else v


def _same_value(a, b):
    if isinstance(a, list) and isinstance(b, list):
        return len(a) == len(b) and all(x is y for x, y in zip(a, b))
    return a is b


@native
def snapshot(d):
    if isinstance(d, dict):
        return {k: (True, _cp(v)) for k, v in d.items()}
    return {k: (v[0], _cp(v[1])) for k, v in d.entries.items()}


@native
def changed_keys(pre, d):
    out = []
    if isinstance(d, dict):
        for k in list(pre.keys()) + [k for k in d if k not in pre]:
            a = pre.get(k, (False, None))
            b = (True, d[k]) if k in d else (False, None)
            if a[0] != b[0] or (a[0] and not _same_value(a[1], b[1])):
                out.append(k)
        return out
    for k, v in d.entries.items():
        p = pre.get(k, (False, None))
        same_p = (p[0] is v[0]) or (not isinstance(p[0], bool) and not isinstance(v[0], bool) and p[0].eq(v[0])) \
            or (isinstance(p[0], bool) and isinstance(v[0], bool) and p[0] == v[0])
        same_v = _same_value(p[1], v[1])
        if not (same_p and same_v):
            out.append(k)
    return out


@native
def entry_of(d, key):
    if isinstance(d, dict):
        return (True, d[key]) if key in d else (False, None)
    e = d.entries.get(key)
    if e is None:
        return (False, None)
    return (e[0], e[1])


@native
def make_value(atype):
    if atype in ("tag", "string", "number"):
        return sym_str("avalue")
    if atype == "stringlist":
        return opaque("avalue_list", list)
    from sievelib.commands import TrueCommand
    o = opaque("avalue_test", TrueCommand)
    return o


# ----------------------------------------------------------------------------- the specification automaton

def spec_type_ok(atype, want):
    """RFC 5228 2.4.2.1: a string is acceptable wherever a string-list is."""
    if atype == want:
        return True
    return atype == "string" and want == "stringlist"


def spec_step(S, cmdname, npos, pending, atype, avalue, loaded, chk):
    """Transition of the argument automaton for frozen definition S.

    Returns (kind, payload, rec, npos', pending') with
      kind    'accept' | 'reject' | 'BadValue' | 'BadArgument' | 'ExtensionNotLoaded' | 'unspecified'
      rec     None | ('arg', name) | ('extra', name) | ('append', name)
    """
    tagged = S["tagged"]
    pos = S["positional"]
    if len(tagged) == 0 and len(pos) == 0:
        return ("reject", None, None, npos, pending)
    if pending is not None:
        slot = None
        for t in tagged:
            if t["name"] == pending:
                slot = t
        prm = slot["param"]
        ok = spec_type_ok(atype, prm["type"]) and (prm["values"] is None or avalue in prm["values"])
        if ok:
            return ("accept", None, ("extra", pending), npos, None)
        return ("BadValue", (pending, avalue), None, npos, pending)
    req = [p for p in pos if not p["optional"]]
    if npos == len(req):
        # every positional argument has been given: anything more is surplus
        if not (len(req) == 0 and atype == "tag"):
            return ("reject", None, None, npos, pending)
    if len(req) != len(pos) and atype != "tag":
        return ("unspecified", None, None, npos, pending)
    if atype == "tag" and npos == 0:
        low = avalue.lower()
        for t in tagged:
            for tag in t["tags"]:
                if low == tag:
                    need = t["tags"][tag]
                    if chk and need is not None and need not in loaded:
                        return ("ExtensionNotLoaded", need, None, npos, pending)
                    if chk and t["ext"] is not None and t["ext"] not in loaded:
                        return ("ExtensionNotLoaded", t["ext"], None, npos, pending)
                    prm = t["param"]
                    newp = None
                    if prm is not None and (prm["only_for"] is None or low in prm["only_for"]):
                        newp = t["name"]
                    return ("accept", None, ("arg", t["name"]), npos, newp)
    if npos == len(req):
        return ("reject", None, None, npos, pending)
    p = req[npos]
    if p["type"] == "testlist":
        if atype == "test":
            return ("accept", None, ("append", p["name"]), npos, None)
        return ("BadArgument", (cmdname, avalue), None, npos, pending)
    ok = spec_type_ok(atype, p["type"])
    if ok and p["values"] is not None:
        ok = avalue.lower() in p["values"]
    if ok:
        return ("accept", None, ("arg", p["name"]), npos + 1, None)
    return ("BadArgument", (cmdname, avalue), None, npos, pending)


# ----------------------------------------------------------------------------- harness: one call of check_next_arg

def pending_of(cmd):
    if cmd.curarg is not None and "extra_arg" in cmd.curarg:
        return cmd.curarg["name"]
    return None


@native
def resolve(clsref):
    """(class, frozen definition) for a built-in class name, or for a generated custom definition (contracts/custom.py)"""
    if isinstance(clsref, str):
        cls = getattr(commands, clsref)
        return (cls, frozen.COMMANDS[cls.__name__[:-len("Command")].lower()])
    from contracts import custom
    return custom.make_custom(clsref)


def h_check_next_arg(clsname, st, atype, add, chk):
    (cls, S) = resolve(clsname)
    cmd = build_state(cls, st, "")
    cmdname = cmd.name
    loaded = sym_set("loaded")
    commands.RequireCommand.loaded_extensions = loaded
    avalue = make_value(atype)
    pre_args = snapshot(cmd.arguments)
    pre_extra = snapshot(cmd.extra_arguments)
    npos0 = cmd.rargs_cnt
    pend0 = pending_of(cmd)
    nap0 = cmd.nextargpos

    kind = None
    payload = None
    try:
        r = cmd.check_next_arg(atype, avalue, add=add, check_extension=chk)
        if r is True:
            kind = "accept"
        elif r is False:
            kind = "reject"
        else:
            kind = "other-return"
    except commands.BadValue as e:
        kind = "BadValue"
        payload = (e.argument, e.value)
    except commands.BadArgument as e:
        kind = "BadArgument"
        payload = (e.command, e.seen)
    except commands.ExtensionNotLoaded as e:
        kind = "ExtensionNotLoaded"
        payload = e.name
    except commands.CommandError as e:
        kind = "CommandError"
    except Exception as e:
        kind = "crash:" + type(e).__name__

    # C02.X: nothing but CommandError escapes the argument interpreter
    prove(not kind.startswith("crash") and kind != "other-return", "funnel")
    # frame: the loaded-extension registry is not written here (C07.G3)
    prove(commands.RequireCommand.loaded_extensions is loaded, "frame.loaded_extensions")
    # Inv_arg is preserved
    prove(inv_holds(cmd), "inv")

    # --- C07.G2 gating, stated over the frozen table independently of the automaton
    if atype == "tag":
        low = avalue.lower()
        pairs = ext_tags(S)
        if kind == "accept" and chk and pend0 is None:
            for (tag, ext) in pairs:
                prove(implies(low == tag, ext in loaded), "gate.accepted-implies-loaded")
        if kind == "ExtensionNotLoaded":
            prove(both(chk, neg(payload in loaded)), "gate.raise-only-when-missing")
            prove(either(*[both(low == tag, payload == ext) for (tag, ext) in pairs]), "gate.raise-names-needed")
    else:
        prove(kind != "ExtensionNotLoaded", "gate.only-tags-are-gated")

    exp = spec_step(S, cmdname, npos0, pend0, atype, avalue, loaded, chk)
    note(clsname, st, atype, kind, exp[0])
    if exp[0] == "unspecified":
        # optional positional: sequence-level spec (see h_optional_positional); here only gating matters
        if kind == "ExtensionNotLoaded":
            prove(both(chk, neg(payload in loaded)), "gate.sound")
        return
    # --- verdict
    if exp[0] != "accept":
        # C18.3 immediacy: an argument the definition does not allow is rejected by THIS call, with this token current
        prove(kind != "accept", "rejected-by-the-call-that-receives-it")
    prove(kind == exp[0], "verdict")
    if kind != exp[0]:
        return
    if kind in ("BadValue", "BadArgument", "ExtensionNotLoaded"):
        prove(payload == exp[1], "exception-payload")
    # --- gating (C07.G2): an accepted tag of an extension implies the extension is loaded
    # (follows from verdict == spec verdict; stated separately so that a failure names the clause)
    # --- successor state
    if kind == "accept":
        prove(cmd.rargs_cnt == exp[3], "state.positional-count")
        prove(pending_of(cmd) == exp[4], "state.pending")
        prove(cmd.nextargpos >= nap0, "state.order-advances")
        ch_a = changed_keys(pre_args, cmd.arguments)
        ch_x = changed_keys(pre_extra, cmd.extra_arguments)
        rec = exp[2]
        if not add:
            prove(len(ch_a) == 0 and len(ch_x) == 0, "record.none-when-add-false")
        elif rec[0] == "arg":
            prove(ch_a == [rec[1]] and len(ch_x) == 0, "record.frame")
            e = entry_of(cmd.arguments, rec[1])
            prove(e[0] is True and same(e[1], avalue), "record.value")
        elif rec[0] == "extra":
            prove(ch_x == [rec[1]] and len(ch_a) == 0, "record.frame")
            e = entry_of(cmd.extra_arguments, rec[1])
            prove(e[0] is True and same(e[1], avalue), "record.value")
        elif rec[0] == "append":
            prove(ch_a == [rec[1]] and len(ch_x) == 0, "record.frame")
            e = entry_of(cmd.arguments, rec[1])
            prove(e[0] is True and len(e[1]) >= 1 and same(e[1][-1], avalue), "record.value")
    else:
        # rejected / raised: nothing recorded, state unchanged
        prove(len(changed_keys(pre_args, cmd.arguments)) == 0 and len(changed_keys(pre_extra, cmd.extra_arguments)) == 0,
              "reject.frame")
        prove(cmd.rargs_cnt == npos0 and pending_of(cmd) == pend0 and cmd.nextargpos == nap0, "reject.state-unchanged")


def h_iscomplete(clsname, st):
    """iscomplete() == (all positionals seen and no parameter pending); frame: only required_args."""
    (cls, S) = resolve(clsname)
    cmd = build_state(cls, st, "")
    npos0 = cmd.rargs_cnt
    pend0 = pending_of(cmd)
    nap0 = cmd.nextargpos
    pre_args = snapshot(cmd.arguments)
    r = cmd.iscomplete()
    pos = S["positional"]
    nreq = len([p for p in pos if not p["optional"]])
    if len(pos) == 1 and pos[0]["type"] == "testlist":
        expect = False
    else:
        expect = (npos0 == nreq) and pend0 is None
    # truthiness is what every caller uses (the pending-parameter case yields None, which is falsy)
    prove((True if r else False) is expect, "iscomplete.value")
    prove(cmd.rargs_cnt == npos0 and pending_of(cmd) == pend0 and cmd.nextargpos == nap0
          and len(changed_keys(pre_args, cmd.arguments)) == 0, "iscomplete.frame")
    prove(inv_holds(cmd), "iscomplete.inv")


def h_init(clsname):
    """Command.__init__ establishes Inv_arg (initial state) and the documented name."""
    (cls, S) = resolve(clsname)
    cmd = cls(None)
    prove(cmd.nextargpos == 0 and cmd.rargs_cnt == 0 and cmd.curarg is None and cmd.required_args == -1
          and cmd.arguments == {} and cmd.extra_arguments == {} and cmd.children == [] and cmd.parent is None,
          "init.state")
    prove(cmd.name == cls.__name__[:-len("Command")].lower(), "init.name")


# ----------------------------------------------------------------------------- C03.A6 sequence-level: optional positional

def h_optional_positional(clsname):
    """<cmd> "var" "flags": both strings must end up recorded (variable name and list of flags), neither overwritten."""
    cls = getattr(commands, clsname)
    cmd = cls(None)
    commands.RequireCommand.loaded_extensions = sym_set("loaded")
    a = sym_str("first")
    b = sym_str("second")
    r1 = cmd.check_next_arg("string", a)
    r2 = cmd.check_next_arg("string", b)
    if getattr(cls, "non_deterministic_args", False):
        cmd.reassign_arguments()
    opt = [d["name"] for d in cls.args_definition if not d.get("required", False) and "tag" not in d["type"]][0]
    req = [d["name"] for d in cls.args_definition if d.get("required", False)][0]
    prove(r1 is True and r2 is True, "optpos.both-strings-accepted")
    prove(opt in cmd.arguments and req in cmd.arguments, "optpos.both-strings-recorded")
    if opt in cmd.arguments and req in cmd.arguments:
        prove(same(cmd.arguments[opt], a) and same(cmd.arguments[req], b), "optpos.recorded-in-order")


def h_addchild():
    parent = commands.IfCommand(None)
    c1 = opaque("child1")
    c2 = opaque("child2")
    parent.children = [c1]
    r = parent.addchild(c2)
    prove(r is True and len(parent.children) == 2 and parent.children[0] is c1 and parent.children[1] is c2,
          "addchild.appends-exactly-the-child")
    leaf = commands.StopCommand(None)
    r = leaf.addchild(c2)
    prove(r is False and leaf.children == [], "addchild.refused-by-commands-without-block")


def h_reassign(clsname):
    """reassign_arguments moves the optional positional into the required slot when only the former was given; it never
    drops a value and touches nothing else (C03.A6)"""
    cls = getattr(commands, clsname)
    cmd = cls(None)
    D = cls.args_definition
    opt = [d["name"] for d in D if not d.get("required", False) and "tag" not in d["type"]][0]
    req = [d["name"] for d in D if d.get("required", False)][0]
    v_opt = opaque("value_in_optional_slot")
    v_req = opaque("value_in_required_slot")
    has_opt = sym_bool("has_optional")
    has_req = sym_bool("has_required")
    cmd.arguments = sdict({opt: (has_opt, v_opt), req: (has_req, v_req), "match-type": (sym_bool("has_mt"), opaque("mt"))})
    pre = snapshot(cmd.arguments)
    cmd.reassign_arguments()
    e_opt = entry_of(cmd.arguments, opt)
    e_req = entry_of(cmd.arguments, req)
    if has_opt and not has_req:
        prove(e_req[0] is True and e_req[1] is v_opt, "record.reassign.moves-the-value")
        prove(e_opt[0] is False, "record.reassign.optional-slot-emptied")
        prove(cmd.rargs_cnt == 1, "record.reassign.counts-the-required-argument")
    else:
        prove(len(changed_keys(pre, cmd.arguments)) == 0, "record.reassign.otherwise-unchanged")
    prove("match-type" not in changed_keys(pre, cmd.arguments), "record.reassign.frame")
