"""Leaf functions of the parser's push-down layer under contract (C01 / C03): Parser.__argument, __stringlist,
__pop_expected_bracket, __arguments, __command and __up, each run on an ABSTRACT current command (a stub whose
answers are symbolic and which logs every call in ghost state) with a SYMBOLIC token value.

What the contracts say (taken from the property statements: nothing dropped, nothing invented, brackets match):
  * a value token is forwarded to the current command exactly once, as (kind, decoded value), and the parser's answer is
    the command's answer; no other token reaches the command
  * a string inside [ ... ] is appended to the pending list as its decoded value, earlier items untouched; the closing
    bracket hands the WHOLE list over, once
  * a closing bracket pops exactly one expected bracket and is refused (ParseError) when none is open or the open one is
    of another kind
  * frames: what a branch does not mention stays as it was (expected set, bracket stack, current command, state)
The functions these call on the way up (__check_command_completion, __up) are cut by contracts that log the call.
"""
from pyvc import core, sym
from pyvc.api import (native, sym_str, sym_bytes, sym_int, sym_bool, prove, assume, note, implies, both, either, neg, ghost, opaque)
from sievelib import parser as sparser
from sievelib import commands

def named_bool(name):
    """one symbolic boolean per name and path (a second request for the same name gives the same symbol)"""
    d = ghost().setdefault("named", {})
    if name not in d:
        d[name] = sym_bool(name)
    return d[name]


def named_int(name):
    d = ghost().setdefault("named", {})
    if name not in d:
        d[name] = sym_int(name)
    return d[name]


def named_bytes(name):
    d = ghost().setdefault("named", {})
    if name not in d:
        d[name] = sym_bytes(name)
    return d[name]


TOKEN_TYPES = ["left_bracket", "right_bracket", "left_parenthesis", "right_parenthesis", "left_cbracket", "right_cbracket",
               "semicolon", "comma", "hash_comment", "bracket_comment", "multiline", "string", "identifier", "tag", "number"]


class StubCommand:
    """abstract command: symbolic answers, every call logged"""

    def __init__(self, label, ctype=None):
        self.label = label
        self.name = label
        self.ctype = ctype
        self.non_deterministic_args = sym_bool(label + "_non_deterministic_args")
        self.accept_children = sym_bool(label + "_accept_children")
        self.variable_args_nb = sym_bool(label + "_variable_args_nb")
        self.must_follow = None
        self.parent = None
        self.children = []
        self.hash_comments = None
        self.arguments = {}
        self.extra_arguments = {}

    def check_next_arg(self, atype, avalue, add=True, check_extension=True):
        ghost()["calls"].append((self.label, "check_next_arg", atype, avalue, add, check_extension))
        return named_bool("verdict_of_" + self.label)

    def reassign_arguments(self):
        ghost()["calls"].append((self.label, "reassign_arguments"))

    def iscomplete(self, atype=None, avalue=None):
        ghost()["calls"].append((self.label, "iscomplete"))
        return named_bool("complete_" + self.label)

    def get_type(self):
        if self.ctype is not None:
            return self.ctype
        if named_bool(self.label + "_is_test"):
            return "test"
        if named_bool(self.label + "_is_control"):
            return "control"
        return "action"

    def has_arguments(self):
        return named_bool(self.label + "_has_arguments")

    def get_expected_first(self):
        return ("first-of-" + self.label,)

    def addchild(self, child):
        ghost()["calls"].append((self.label, "addchild", child.label))
        return named_bool("addchild_ok_" + self.label)

    def complete_cb(self):
        ghost()["calls"].append((self.label, "complete_cb"))


class StubLexer:
    def __init__(self):
        self.pos = sym_int("lexer_pos")


def k_check_command_completion(ip, args, kwargs):
    """cut: logs the call, answers symbolically (its own contract is P6)"""
    G = core.cur().ghost
    ts = kwargs.get("testsemicolon", args[1] if len(args) > 1 else True)
    G["calls"].append(("parser", "check_command_completion", ts))
    G.setdefault("named", {})
    if "completion_verdict" not in G["named"]:
        G["named"]["completion_verdict"] = sym.fresh_bool("completion_verdict")
    return G["named"]["completion_verdict"]


def k_up(ip, args, kwargs):
    G = core.cur().ghost
    G["calls"].append(("parser", "up"))
    return None


def k_get_command_instance(ip, args, kwargs):
    """cut: the lookup (its contract is C07.G1 / C01.lookup): an unknown name raises, otherwise a command object"""
    G = core.cur().ghost
    G["calls"].append(("lookup", args[0], args[1] if len(args) > 1 else None))
    if core.branch(sym.fresh_bool("name_is_unknown").t):
        G["lookup_raised"] = "UnknownCommand"
        raise commands.UnknownCommand(args[0])
    if core.branch(sym.fresh_bool("extension_of_the_name_is_not_loaded").t):
        G["lookup_raised"] = "ExtensionNotLoaded"
        raise commands.ExtensionNotLoaded("extension-of-the-name")
    return ip.call(StubCommand, ["looked_up"], {})


def setup(ip, unit):
    ip.name_contracts[("sievelib.parser", "Parser.__check_command_completion")] = k_check_command_completion
    ip.name_contracts[("sievelib.parser", "Parser.__up")] = k_up
    ip.name_contracts[("sievelib.commands", "get_command_instance")] = k_get_command_instance


def setup_up(ip, unit):
    pass


def fresh_parser(nbrackets):
    p = sparser.Parser()
    cur = StubCommand("current")
    cur.parent = StubCommand("parent")
    cur.parent.children = [cur]
    p._Parser__curcommand = cur
    p._Parser__cstate = p._Parser__arguments
    p._Parser__curstringlist = None
    p._Parser__expected = ("previous-expected",)
    p._Parser__expected_brackets = [("right_parenthesis", b")"), ("right_cbracket", b"}")][:nbrackets]
    p.lexer = StubLexer()
    G = ghost()
    G["calls"] = []
    return (p, cur)


def frame(p, cur, expected=True, brackets=True, state=True, command=True, pending=True, nbrackets=0):
    """the parts of the parser state a branch must leave alone"""
    ok = True
    if expected:
        ok = ok and p._Parser__expected == ("previous-expected",)
    if brackets:
        ok = ok and p._Parser__expected_brackets == [("right_parenthesis", b")"), ("right_cbracket", b"}")][:nbrackets]
    if state:
        ok = ok and p._Parser__cstate == p._Parser__arguments
    if command:
        ok = ok and p._Parser__curcommand is cur
    if pending:
        ok = ok and p._Parser__curstringlist is None
    return ok


def h_argument(ttype):
    """Parser.__argument on one token of kind `ttype` with an arbitrary value"""
    (p, cur) = fresh_parser(1)
    tvalue = sym_bytes("token_value")
    pos0 = p.lexer.pos
    kind = "return"
    r = None
    try:
        r = p._Parser__argument(ttype, tvalue)
    except UnicodeDecodeError:
        kind = "UnicodeDecodeError"      # funnelled into a rejection by parse() (C02)
    calls = ghost()["calls"]
    if kind == "UnicodeDecodeError":
        prove(ttype in ("string", "multiline", "number", "tag"), "P1.decode-error-only-for-value-tokens")
        prove(len(calls) == 0, "P1.undecodable-value-never-reaches-the-command")
        return
    if ttype in ("string", "multiline"):
        prove(len(calls) == 1 and calls[0] == ("current", "check_next_arg", "string", tvalue.decode("utf-8"), True, True),
              "P1.string-forwarded-once-as-its-decoded-value")
        prove(r == named_bool("verdict_of_current"), "P1.answer-is-the-commands-answer")
        prove(frame(p, cur, nbrackets=1), "P1.frame")
        prove(p.lexer.pos == pos0, "P1.lexer-not-rewound")
    elif ttype in ("number", "tag"):
        prove(len(calls) == 1 and calls[0] == ("current", "check_next_arg", ttype, tvalue.decode("ascii"), True, True),
              "P1.number-or-tag-forwarded-once-as-its-text")
        prove(r == named_bool("verdict_of_current"), "P1.answer-is-the-commands-answer")
        prove(frame(p, cur, nbrackets=1), "P1.frame")
        prove(p.lexer.pos == pos0, "P1.lexer-not-rewound")
    elif ttype == "left_bracket":
        prove(r is True and len(calls) == 0, "P1.list-opening-accepted-without-touching-the-command")
        prove(len(p._Parser__expected_brackets) == 2 and p._Parser__expected_brackets[0] == ("right_parenthesis", b")")
              and p._Parser__expected_brackets[1][0] == "right_bracket", "P1.list-opening-expects-its-closing-bracket")
        prove(p._Parser__curstringlist == [] and p._Parser__cstate == p._Parser__stringlist
              and p._Parser__expected == ("string",), "P1.list-opening-starts-an-empty-pending-list")
        prove(p._Parser__curcommand is cur and p.lexer.pos == pos0, "P1.frame")
    elif ttype in ("left_cbracket", "comma"):
        nd = cur.non_deterministic_args
        if nd:
            prove(len(calls) == 2 and calls[0] == ("current", "reassign_arguments") and calls[1] == ("current", "iscomplete"),
                  "P1.rewind-only-after-reassignment")
            done = named_bool("complete_current")
            prove(r == done, "P1.rewind-needs-a-complete-command")
            prove(p.lexer.pos == (pos0 - 1 if done else pos0), "P1.rewind-is-exactly-one-position")
        else:
            prove(r is False and len(calls) == 0 and p.lexer.pos == pos0, "P1.other-tokens-refused-untouched")
        prove(frame(p, cur, nbrackets=1), "P1.frame")
    else:
        prove(r is False and len(calls) == 0 and p.lexer.pos == pos0, "P1.other-tokens-refused-untouched")
        prove(frame(p, cur, nbrackets=1), "P1.frame")


def h_stringlist(ttype, k):
    """Parser.__stringlist with k strings already pending"""
    (p, cur) = fresh_parser(1)
    p._Parser__cstate = p._Parser__stringlist
    pending = []
    for i in range(k):
        pending.append(sym_str("pending%d" % i))
    before = list(pending)
    p._Parser__curstringlist = pending
    p._Parser__expected_brackets = [("right_parenthesis", b")"), ("right_bracket", b"]")]
    tvalue = sym_bytes("token_value")
    kind = "return"
    r = None
    try:
        r = p._Parser__stringlist(ttype, tvalue)
    except UnicodeDecodeError:
        kind = "UnicodeDecodeError"
    except sparser.ParseError:
        kind = "ParseError"
    calls = ghost()["calls"]
    now = p._Parser__curstringlist
    if kind == "UnicodeDecodeError":
        prove(ttype == "string" and len(calls) == 0, "P2.decode-error-only-for-strings")
        return
    prove(kind == "return", "P2.no-error-with-a-matching-bracket-open")
    if kind != "return":
        return
    if ttype == "string":
        prove(r is True and len(calls) == 0, "P2.string-accepted")
        ok = len(now) == k + 1 and now[k] == tvalue.decode("utf-8")
        for i in range(k):
            ok = ok and now[i] == before[i]
        prove(ok, "P2.string-appended-as-its-decoded-value-earlier-items-untouched")
        prove(p._Parser__expected == ("comma", "right_bracket") and p._Parser__cstate == p._Parser__stringlist
              and len(p._Parser__expected_brackets) == 2 and p._Parser__curcommand is cur, "P2.frame")
    elif ttype == "comma":
        prove(r is True and len(calls) == 0 and p._Parser__expected == ("string",), "P2.comma-expects-a-string")
        ok = len(now) == k
        for i in range(k):
            ok = ok and now[i] == before[i]
        prove(ok and p._Parser__cstate == p._Parser__stringlist and len(p._Parser__expected_brackets) == 2
              and p._Parser__curcommand is cur, "P2.frame")
    elif ttype == "right_bracket":
        prove(len(p._Parser__expected_brackets) == 1 and p._Parser__expected_brackets[0] == ("right_parenthesis", b")"),
              "P2.closing-pops-exactly-its-own-bracket")
        handed = len(calls) >= 1 and calls[0][0] == "current" and calls[0][1] == "check_next_arg" and calls[0][2] == "stringlist" \
            and calls[0][4] is True and calls[0][5] is True and len(calls[0][3]) == k
        if handed:
            for i in range(k):
                handed = handed and calls[0][3][i] == before[i]
        prove(handed, "P2.closing-hands-over-the-whole-list-once")
        if named_bool("verdict_of_current"):
            prove(len(calls) == 2 and calls[1] == ("parser", "check_command_completion", True), "P2.accepted-list-is-followed-by-the-completion-check")
            prove(r == named_bool("completion_verdict") and p._Parser__cstate == p._Parser__arguments, "P2.accepted-list-returns-to-arguments")
        else:
            prove(r is False and len(calls) == 1, "P2.rejected-list-is-an-error")
        prove(p._Parser__curcommand is cur, "P2.frame")
    else:
        prove(r is False and len(calls) == 0, "P2.other-tokens-refused")
        ok = len(now) == k
        for i in range(k):
            ok = ok and now[i] == before[i]
        prove(ok and len(p._Parser__expected_brackets) == 2 and p._Parser__curcommand is cur
              and p._Parser__cstate == p._Parser__stringlist, "P2.frame")


def h_pop_bracket(depth, top, closing):
    """__pop_expected_bracket(closing) with `depth` brackets open, the innermost of kind `top`"""
    (p, cur) = fresh_parser(0)
    below = [("right_cbracket", b"}"), ("right_parenthesis", b")")][:max(0, depth - 1)]
    stack = list(below)
    if depth > 0:
        stack.append((top, b"?"))
    p._Parser__expected_brackets = stack
    tvalue = sym_bytes("token_value")
    kind = "return"
    try:
        p._Parser__pop_expected_bracket(closing, tvalue)
    except sparser.ParseError:
        kind = "ParseError"
    if depth == 0:
        prove(kind == "ParseError", "P3.closing-with-nothing-open-is-refused")
        return
    if top != closing:
        prove(kind == "ParseError", "P3.closing-the-wrong-kind-is-refused")
        return
    prove(kind == "return", "P3.matching-closing-is-accepted")
    prove(p._Parser__expected_brackets == below, "P3.exactly-the-innermost-bracket-is-popped")


def h_arguments(ttype):
    """Parser.__arguments: dispatch of one token while a command's arguments are being read"""
    (p, cur) = fresh_parser(1)
    tvalue = sym_bytes("token_value")
    kind = "return"
    r = None
    try:
        r = p._Parser__arguments(ttype, tvalue)
    except UnicodeDecodeError:
        kind = "UnicodeDecodeError"
    except sparser.ParseError:
        kind = "ParseError"
    except commands.UnknownCommand:
        kind = "UnknownCommand"
    except commands.ExtensionNotLoaded:
        kind = "ExtensionNotLoaded"
    calls = ghost()["calls"]
    if kind == "UnicodeDecodeError":
        prove(ttype in ("string", "multiline", "number", "tag", "identifier"), "P4.decode-error-only-for-text-tokens")
        return
    if ghost().get("lookup_raised") is not None:
        # C07 (message clause): what the lookup gate raises reaches parse()'s funnel unchanged, so the error names the extension
        prove(kind == ghost()["lookup_raised"], "P4.lookup-error-reaches-the-funnel-unchanged")
    if ttype == "identifier":
        prove(len(calls) >= 1 and calls[0] == ("lookup", tvalue.decode("ascii"), cur), "P4.test-name-is-looked-up-under-the-current-command")
        if kind == "UnknownCommand" or kind == "ExtensionNotLoaded":
            prove(len(calls) == 1 and frame(p, cur, nbrackets=1), "P4.unknown-name-changes-nothing")
            return
        new = p._Parser__curcommand
        if kind == "ParseError":
            prove(len(calls) == 1 and frame(p, cur, nbrackets=1), "P4.non-test-in-test-position-is-refused-untouched")
            return
        offered = len(calls) >= 2 and calls[1][0] == "current" and calls[1][1] == "check_next_arg" and calls[1][2] == "test" \
            and calls[1][4] is True
        prove(offered, "P4.test-offered-to-the-current-command")
        if not offered:
            return
        if named_bool("verdict_of_current"):
            prove(len(calls) == 3 and calls[1][3] is new and new is not cur and new.label == "looked_up"
                  and calls[2] == ("parser", "check_command_completion", False), "P4.accepted-test-becomes-current-then-completion-check")
            prove(p._Parser__expected == ("first-of-looked_up",), "P4.expected-set-from-the-new-test")
            prove(r == named_bool("completion_verdict"), "P4.answer-is-the-completion-verdict")
        else:
            prove(r is False and len(calls) == 2 and p._Parser__curcommand is cur and p._Parser__expected == ("previous-expected",),
                  "P4.refused-test-is-an-error-nothing-entered")
        return
    prove(kind != "UnknownCommand" and kind != "ExtensionNotLoaded", "P4.lookup-only-for-identifiers")
    if ttype == "left_parenthesis":
        prove(kind == "return" and r is True and len(calls) == 0 and len(p._Parser__expected_brackets) == 2
              and p._Parser__expected_brackets[1][0] == "right_parenthesis" and p._Parser__expected == ("identifier",)
              and p._Parser__curcommand is cur, "P4.test-list-opening")
    elif ttype == "comma":
        if kind == "return" and len(calls) == 0:
            prove(r is True and p._Parser__expected == ("identifier",) and frame(p, cur, expected=False, nbrackets=1), "P4.comma-expects-a-test")
        else:
            prove(False, "P4.comma-expects-a-test")
    elif ttype == "right_parenthesis":
        prove(kind == "return" and r is True and calls == [("parser", "up")] and len(p._Parser__expected_brackets) == 0,
              "P4.test-list-closing-pops-and-goes-up-once-nothing-offered-again")
    else:
        # value tokens and everything else go through __argument (P1); a True answer is followed by the completion check
        if kind == "return" and r is not False and len(calls) > 0 and calls[len(calls) - 1][0] == "parser":
            prove(calls[len(calls) - 1] == ("parser", "check_command_completion", False) and r == named_bool("completion_verdict"),
                  "P4.accepted-argument-is-followed-by-the-completion-check")
        else:
            prove(kind == "return" and r is False, "P4.refused-argument-is-an-error")


def h_up(top_level, has_rule, prev_ok):
    """Parser.__up (real), current command complete: a top-level command is recorded exactly once, with the pending hash
    comments; a command with a must-follow rule is refused unless the previous sibling is one of the named commands"""
    p = sparser.Parser()
    G = ghost()
    G["calls"] = []
    cur = StubCommand("current", "control")
    older = StubCommand("older", "action")
    prev = StubCommand("previous", "control")
    prev.name = "if" if prev_ok else "keep"
    if has_rule:
        cur.must_follow = ["if", "elsif"]
    comments = [sym_bytes("comment0")]
    p.hash_comments = comments
    parent = StubCommand("parent", "control")
    if top_level:
        p.result = [older, prev]
    else:
        p.result = [older]
        cur.parent = parent
        parent.children = [prev, cur]
    p._Parser__curcommand = cur
    p._Parser__expected = ("previous-expected",)
    kind = "return"
    try:
        p._Parser__up()
    except sparser.ParseError:
        kind = "ParseError"
    if has_rule and not prev_ok:
        prove(kind == "ParseError", "P5.must-follow-rule-enforced")
        prove(len(p.result) == (2 if top_level else 1), "P5.refused-command-is-not-recorded")
        return
    prove(kind == "return", "P5.up-succeeds")
    if kind != "return":
        return
    if top_level:
        prove(len(p.result) == 3 and p.result[0] is older and p.result[1] is prev and p.result[2] is cur,
              "P5.top-level-command-recorded-once-at-the-end")
        prove(cur.hash_comments is comments and p.hash_comments == [] and p.hash_comments is not comments,
              "P5.pending-comments-move-to-the-command")
        prove(p._Parser__curcommand is None, "P5.no-current-command-after-a-top-level-one")
    else:
        prove(len(p.result) == 1 and p.result[0] is older, "P5.nested-command-is-not-recorded-at-top-level")
        prove(p.hash_comments is comments and cur.hash_comments is None, "P5.comments-stay-pending-inside-a-block")
        prove(p._Parser__curcommand is parent, "P5.current-command-becomes-the-parent")
        prove(parent.children == [prev, cur], "P5.children-untouched")


# ---------------------------------------------------------------- C02: parse_file is parse() of the file's BYTES

class StubFile:
    def __init__(self, mode, encoding):
        self.mode = mode
        self.encoding = encoding

    def __enter__(self):
        return self

    def __exit__(self, a, b, c):
        ghost()["file_closed"] = True
        return False

    def read(self):
        data = named_bytes("file_content")
        if "b" in self.mode:
            return data
        # text mode: the decoding happens here, OUTSIDE parse()'s exception funnel
        return data.decode(self.encoding or "utf-8")


def k_open(ip, args, kwargs):
    G = core.cur().ghost
    mode = args[1] if len(args) > 1 else kwargs.get("mode", "r")
    G["opened"] = G.get("opened", 0) + 1
    return ip.call(StubFile, [mode, kwargs.get("encoding")], {})


def k_parse(ip, args, kwargs):
    G = core.cur().ghost
    G.setdefault("parse_calls", []).append(args[1])
    G.setdefault("named", {})
    G["named"]["parse_verdict"] = sym.fresh_bool("parse_verdict")
    return G["named"]["parse_verdict"]


def setup_parse_file(ip, unit):
    import builtins
    ip.fn_contracts[builtins.open] = k_open
    ip.name_contracts[("sievelib.parser", "Parser.parse")] = k_parse


def h_parse_file():
    """parse_file(name): one open, the file's bytes handed to parse() unchanged, parse's verdict returned, no exception of
    its own (decoding is parse()'s business, inside its funnel)"""
    p = sparser.Parser()
    G = ghost()
    kind = "return"
    r = None
    try:
        r = p.parse_file("some-file.sieve")
    except Exception as e:
        kind = "exception"
        note("exception", type(e).__name__)
    prove(kind == "return", "F.parse_file-adds-no-exception-of-its-own")
    if kind != "return":
        return
    calls = G.get("parse_calls", [])
    prove(G.get("opened", 0) == 1 and len(calls) == 1, "F.one-open-one-parse")
    if len(calls) == 1:
        prove(calls[0] == named_bytes("file_content"), "F.parse-receives-the-files-bytes-unchanged")
    prove(r == named_bool("parse_verdict"), "F.verdict-is-parses-verdict")
    prove(G.get("file_closed", False), "F.file-closed")


# ---------------------------------------------------------------- __command and __check_command_completion

def stub_state(ttype, tvalue):
    """the sub-state handler installed in __cstate (its contracts are P2 / P4): logs the token, answers symbolically"""
    ghost()["calls"].append(("state", ttype, tvalue))
    return named_bool("state_verdict")


def h_command(ttype, in_arguments, nested):
    """Parser.__command on one token: at the start of a command (state None) or while its arguments are read"""
    (p, cur) = fresh_parser(1)
    if not nested:
        p._Parser__curcommand = None
        cur = None
    p._Parser__expected_brackets = [("right_parenthesis", b")"), ("right_cbracket", b"}")]
    if in_arguments:
        p._Parser__cstate = stub_state
    else:
        p._Parser__cstate = None
    tvalue = sym_bytes("token_value")
    kind = "return"
    r = None
    try:
        r = p._Parser__command(ttype, tvalue)
    except UnicodeDecodeError:
        kind = "UnicodeDecodeError"
    except sparser.ParseError:
        kind = "ParseError"
    except commands.UnknownCommand:
        kind = "UnknownCommand"
    except commands.ExtensionNotLoaded:
        kind = "ExtensionNotLoaded"
    calls = ghost()["calls"]
    brackets = p._Parser__expected_brackets
    if kind == "UnicodeDecodeError":
        prove(ttype == "identifier" and not in_arguments, "P6.decode-error-only-for-command-names")
        return
    if ghost().get("lookup_raised") is not None:
        prove(kind == ghost()["lookup_raised"], "P6.lookup-error-reaches-the-funnel-unchanged")
    if not in_arguments:
        if ttype == "right_cbracket":
            prove(kind == "return" and r is True and calls == [("parser", "up")] and len(brackets) == 1
                  and brackets[0] == ("right_parenthesis", b")") and p._Parser__cstate is None, "P6.block-closing-pops-its-bracket-and-goes-up-once")
        elif ttype != "identifier":
            prove(kind == "return" and r is False and len(calls) == 0 and len(brackets) == 2 and p._Parser__curcommand is cur
                  and p._Parser__cstate is None, "P6.only-a-name-or-a-closing-brace-can-start-here")
        else:
            prove(len(calls) >= 1 and calls[0] == ("lookup", tvalue.decode("ascii"), cur), "P6.command-name-is-looked-up-under-the-current-command")
            if kind == "UnknownCommand" or kind == "ExtensionNotLoaded":
                prove(len(calls) == 1 and p._Parser__curcommand is cur and p._Parser__cstate is None, "P6.unknown-name-changes-nothing")
                return
            new = p._Parser__curcommand
            if kind == "ParseError":
                # a test in command position, or a command its parent does not take: nothing is entered
                prove(p._Parser__curcommand is cur and p._Parser__cstate is None, "P6.refused-command-is-not-entered")
                return
            prove(r is True and new is not cur and new.label == "looked_up" and p._Parser__cstate == p._Parser__arguments,
                  "P6.accepted-command-becomes-current-and-its-arguments-are-read")
            if nested:
                prove(len(calls) == 2 and calls[1] == ("current", "addchild", "looked_up") and named_bool("addchild_ok_current"),
                      "P6.nested-command-is-added-to-its-parent-exactly-once")
            else:
                prove(len(calls) == 1, "P6.top-level-command-has-no-parent-to-join")
            prove(len(brackets) == 2, "P6.frame")
        return
    # while the arguments are being read: the sub-state sees the token first
    prove(len(calls) >= 1 and calls[0] == ("state", ttype, tvalue), "P6.sub-state-sees-the-token-first-unchanged")
    if named_bool("state_verdict"):
        prove(kind == "return" and r is True and len(calls) == 1 and len(brackets) == 2 and p._Parser__curcommand is cur
              and p._Parser__cstate == stub_state, "P6.token-taken-by-the-sub-state-changes-nothing-else")
        return
    if ttype == "left_cbracket":
        opened = kind == "return" and r is True
        if opened:
            prove(len(brackets) == 3 and brackets[2][0] == "right_cbracket" and p._Parser__cstate is None and p._Parser__curcommand is cur,
                  "P6.block-opening-expects-its-closing-brace")
            prove(cur.get_type() == "control" and cur.accept_children and named_bool("complete_current"),
                  "P6.block-only-after-a-complete-block-taking-control")
        else:
            prove(kind == "return" and r is False and len(brackets) == 2 and p._Parser__curcommand is cur, "P6.refused-block-opening-changes-nothing")
    elif ttype == "semicolon":
        if kind == "return" and r is True:
            prove(calls[len(calls) - 1] == ("parser", "up") and calls[len(calls) - 2] == ("current", "complete_cb")
                  and calls[1] == ("parser", "check_command_completion", False), "P6.semicolon-completes-then-goes-up-once")
            prove(named_bool("completion_verdict") and not (cur.get_type() == "control" and cur.accept_children),
                  "P6.semicolon-never-ends-a-block-taking-control")
            prove(p._Parser__cstate is None and len(brackets) == 2, "P6.frame")
        else:
            prove(kind == "return" and r is False and ("parser", "up") not in calls and ("current", "complete_cb") not in calls,
                  "P6.refused-semicolon-completes-nothing")
    else:
        prove(kind == "return" and r is False and len(calls) == 1 and len(brackets) == 2 and p._Parser__curcommand is cur,
              "P6.other-tokens-refused-untouched")


def h_completion(depth, testsemicolon):
    """Parser.__check_command_completion (real) with `depth` abstract ancestors above the current command"""
    p = sparser.Parser()
    G = ghost()
    G["calls"] = []
    cur = StubCommand("current")
    chain = [cur]
    for i in range(depth):
        anc = StubCommand("ancestor%d" % i)
        chain[len(chain) - 1].parent = anc
        chain.append(anc)
    p._Parser__curcommand = cur
    p._Parser__expected = ("previous-expected",)
    p._Parser__expected_brackets = [("right_cbracket", b"}")]
    crashed = False
    r = None
    try:
        r = p._Parser__check_command_completion(testsemicolon)
    except Exception as e:
        crashed = True
        note("exception", type(e).__name__)
    prove(not crashed, "P7.completion-check-raises-nothing")
    if crashed:
        return
    calls = G["calls"]
    end = p._Parser__curcommand
    in_chain = False
    for c in chain:
        in_chain = in_chain or end is c
    prove(in_chain, "P7.current-command-ends-on-itself-or-an-ancestor")
    recording = False
    rejected = False
    for c in calls:
        if c[1] == "check_next_arg":
            recording = recording or c[4] is not False or c[2] != "test"
        if c[1] in ("reassign_arguments", "addchild", "complete_cb"):
            recording = True
    prove(not recording, "P7.completion-check-never-records-or-reassigns")
    prove(len(p._Parser__expected_brackets) == 1, "P7.brackets-untouched")
    if not named_bool("complete_current"):
        prove(r is True and end is cur and p._Parser__expected == ("previous-expected",) and len(calls) == 1, "P7.incomplete-command-just-continues")
        return
    ctype = cur.get_type()
    if ctype == "action" or (ctype == "control" and not cur.accept_children):
        prove(r is True and end is cur, "P7.complete-action-stays-current")
        prove(p._Parser__expected == (("semicolon",) if testsemicolon else ("previous-expected",)), "P7.semicolon-expected-only-when-asked")
        return
    if r is False:
        last = calls[len(calls) - 1]
        prove(last[1] == "check_next_arg" and last[2] == "test" and not named_bool("verdict_of_" + last[0]), "P7.False-only-when-an-ancestor-refuses-the-test")
    exp = p._Parser__expected
    prove(exp == ("previous-expected",) or exp == ("left_cbracket",) or exp == ("comma", "right_parenthesis"), "P7.expected-set-is-one-of-the-documented-ones")


def h_up_nested_first_child():
    """a command with a must-follow rule that is the FIRST command of its block is refused, whatever precedes the block"""
    p = sparser.Parser()
    G = ghost()
    G["calls"] = []
    cur = StubCommand("current", "control")
    cur.must_follow = ["if", "elsif"]
    parent = StubCommand("parent", "control")
    cur.parent = parent
    parent.children = [cur]
    before_block = StubCommand("previous-top-level", "control")
    before_block.name = "if"
    p.result = [before_block]
    p._Parser__curcommand = cur
    kind = "return"
    try:
        p._Parser__up()
    except sparser.ParseError:
        kind = "ParseError"
    prove(kind == "ParseError", "P5.must-follow-looks-at-the-previous-sibling-only")
    prove(len(p.result) == 1 and parent.children == [cur], "P5.refused-command-is-not-recorded")


def h_up_chain(depth):
    """Parser.__up from a finished nested command with `depth` abstract ancestors: the current command becomes the nearest
    ancestor that is not a test completed by it (e.g. an enclosing `not`), no ancestor's recorded arguments change, and a
    test list still open expects `,` or `)`"""
    p = sparser.Parser()
    G = ghost()
    G["calls"] = []
    cur = StubCommand("current", "test")
    chain = []
    below = cur
    for i in range(depth):
        anc = StubCommand("ancestor%d" % i)
        below.parent = anc
        anc.children = [below]
        chain.append(anc)
        below = anc
    top_result = [StubCommand("older", "action")]
    p.result = list(top_result)
    p.hash_comments = []
    p._Parser__curcommand = cur
    p._Parser__expected = ("previous-expected",)
    crashed = False
    try:
        p._Parser__up()
    except Exception as e:
        crashed = True
        note("exception", type(e).__name__)
    prove(not crashed, "P5.going-up-from-a-finished-test-raises-nothing")
    if crashed:
        return
    end = p._Parser__curcommand
    # specification: walk up past every ancestor that is a test and complete
    want = None
    for anc in chain:
        if want is None:
            is_done_test = anc.get_type() == "test" and named_bool("complete_" + anc.label)
            if not is_done_test:
                want = anc
    if want is None:
        prove(end is None, "P5.all-enclosing-tests-complete-leaves-no-current-command")
    else:
        prove(end is want, "P5.current-command-becomes-the-nearest-open-ancestor")
        if want.get_type() == "test" and want.variable_args_nb:
            prove(p._Parser__expected == ("comma", "right_parenthesis"), "P5.open-test-list-expects-comma-or-closing")
        else:
            prove(p._Parser__expected == ("previous-expected",), "P5.expected-set-otherwise-untouched")
    untouched = len(p.result) == 1 and p.result[0] is top_result[0]
    for anc in chain:
        untouched = untouched and anc.arguments == {} and anc.extra_arguments == {} and len(anc.children) == 1
    untouched = untouched and cur.arguments == {} and cur.parent is (chain[0] if depth > 0 else None)
    prove(untouched, "P5.going-up-records-nothing-anywhere")
    recording = False
    for c in G["calls"]:
        recording = recording or c[1] in ("check_next_arg", "reassign_arguments", "addchild", "complete_cb")
    prove(not recording, "P5.going-up-offers-nothing-again")


# ---------------------------------------------------------------- P8: the driver loop of Parser.parse over the step contract

class DriverLexer:
    """lexer stub for the driver: scan() hands out the prepared token list; position queries answer symbolically"""

    def __init__(self, tokens):
        self.tokens = tokens
        self.pos = sym_int("lexer_pos_at_failure")

    def scan(self, text):
        return self.tokens

    def curlineno(self):
        return named_int("line_at_failure")

    def curcolno(self):
        return named_int("column_at_failure")


def k_command_step(ip, args, kwargs):
    """cut of Parser.__command for the driver proof (its own contract is P6): logs the token; then either raises one of the
    funnelled exception kinds, or answers True / False after changing the parser's state arbitrarily (expected set, bracket
    stack, current command) -- the driver must cope with every such behaviour"""
    self, ttype, tvalue = args[0], args[1], args[2]
    G = core.cur().ghost
    G["steps"].append((ttype, tvalue))
    k = len(G["steps"])
    if core.branch(sym.fresh_bool("step%d_raises_ParseError" % k).t):
        G["raised"] = ("ParseError", "step %d refused" % k)
        raise sparser.ParseError("step %d refused" % k)
    if core.branch(sym.fresh_bool("step%d_raises_ExtensionNotLoaded" % k).t):
        G["raised"] = ("ExtensionNotLoaded", "extension 'x%d' not loaded" % k)
        raise commands.ExtensionNotLoaded("x%d" % k)
    if core.branch(sym.fresh_bool("step%d_raises_UnicodeDecodeError" % k).t):
        G["raised"] = ("UnicodeDecodeError", None)
        raise UnicodeDecodeError("utf-8", b"\xff", 0, 1, "invalid start byte")
    if not core.branch(sym.fresh_bool("step%d_accepts" % k).t):
        G["refused_at"] = k
        return False
    # arbitrary new state
    if core.branch(sym.fresh_bool("step%d_sets_expected" % k).t):
        setattr(self, "_Parser__expected", ("expected-after-step-%d" % k,))
    else:
        setattr(self, "_Parser__expected", None)
    if core.branch(sym.fresh_bool("step%d_leaves_a_bracket_open" % k).t):
        setattr(self, "_Parser__expected_brackets", [("right_cbracket", b"}")])
    else:
        setattr(self, "_Parser__expected_brackets", [])
    if core.branch(sym.fresh_bool("step%d_leaves_a_command_open" % k).t):
        setattr(self, "_Parser__curcommand", ip.call(StubCommand, ["open-command"], {}))
    else:
        setattr(self, "_Parser__curcommand", None)
    return True


def setup_driver(ip, unit):
    ip.name_contracts[("sievelib.parser", "Parser.__command")] = k_command_step


def h_parse_driver(kinds):
    """Parser.parse as a driver over the step function, for a token list of the given kinds ('token' | 'hash' | 'bracket'):
    it never raises; it returns True exactly when every token was accepted and nothing is left open; on failure `error` is
    `line N: <text of what was raised or refused>` and error_pos a triple of integers; comments never reach the step function
    and every other token reaches it once, in order, until the first failure"""
    p = sparser.Parser()
    G = ghost()
    G["steps"] = []
    toks = []
    expected_steps = []
    comments = []
    for i in range(len(kinds)):
        v = sym_bytes("token%d" % i)
        if kinds[i] == "hash":
            toks.append(("hash_comment", v))
            comments.append(v)
        elif kinds[i] == "bracket":
            toks.append(("bracket_comment", v))
        else:
            toks.append(("identifier", v))
            expected_steps.append(("identifier", v))
    p.lexer = DriverLexer(toks)
    kind = "return"
    r = None
    try:
        r = p.parse(b"the text is what the lexer stub makes of it")
    except Exception as e:
        kind = "raised"
        note("exception", type(e).__name__)
    prove(kind == "return", "P8.parse-never-raises")
    if kind != "return":
        return
    prove(r is True or r is False, "P8.verdict-is-a-boolean")
    steps = G["steps"]
    in_order = len(steps) <= len(expected_steps)
    if in_order:
        for i in range(len(steps)):
            in_order = in_order and steps[i][0] == expected_steps[i][0] and steps[i][1] == expected_steps[i][1]
    prove(in_order, "P8.tokens-reach-the-step-function-once-in-order-comments-never")
    failed = G.get("raised") is not None or G.get("refused_at") is not None
    if r is True:
        prove(not failed and len(steps) == len(expected_steps), "P8.True-only-when-every-token-was-accepted")
        prove(len(p._Parser__expected_brackets) == 0 and p._Parser__expected is None, "P8.True-only-when-nothing-is-left-open")
        ok = len(p.hash_comments) == len(comments)
        if ok:
            for i in range(len(comments)):
                ok = ok and p.hash_comments[i] == comments[i].strip()
        prove(ok, "P8.comments-collected-stripped-in-order")
    else:
        prove(isinstance(p.error, str) and p.error.startswith("line "), "P8.failure-gives-line-N-message")
        ep = p.error_pos
        prove(isinstance(ep, tuple) and len(ep) == 3, "P8.failure-gives-a-position-triple")
        if isinstance(ep, tuple) and len(ep) == 3:
            # C18: the position reported is the lexer's position at the moment of the failure; the length that of the current token
            prove(ep[0] == named_int("line_at_failure") and ep[1] == named_int("column_at_failure"), "P8.position-is-the-lexers-at-the-failure")
            prove(p.error.startswith("line %d: " % named_int("line_at_failure")), "P8.message-carries-the-same-line")
            if failed:
                prove(ep[2] == len(steps[len(steps) - 1][1]), "P8.length-is-that-of-the-token-that-failed")
        raised = G.get("raised")
        if raised is not None and raised[1] is not None:
            prove(p.error.endswith(": " + raised[1]), "P8.message-is-the-text-of-the-exception-raised-below")
        if not failed and len(steps) == len(expected_steps):
            # every token accepted, yet False: a bracket or a command was left open, or a token was still expected
            prove(len(p._Parser__expected_brackets) > 0 or p._Parser__expected is not None, "P8.False-after-all-accepted-only-when-something-is-left-open")
