"""C07: command-level gate (get_command_instance), the registry's only writer (RequireCommand.complete_cb),
its reset (Parser.__reset_parser) and the message text."""
from pyvc.api import native, sym_str, sym_set, sym_bool, sym_int, ghost, opaque, prove, assume, note, implies, both, either, neg, in_re
from sievelib import commands
from sievelib import parser as sparser


@native
def command_classes():
    """name -> class for every global of sievelib.commands reachable as <Cap>Command"""
    return {k: v for k, v in vars(commands).items() if k.endswith("Command")}


def h_get_command_instance(checkexists, strict):
    """For every name: the class instantiated is the global found under the constructed key, and it is gated."""
    name = sym_str("name")
    loaded = sym_set("loaded")
    commands.RequireCommand.loaded_extensions = loaded
    parent = opaque("parent")
    kind = None
    inst = None
    payload = None
    try:
        inst = commands.get_command_instance(name, parent, checkexists)
        kind = "return"
    except commands.UnknownCommand as e:
        kind = "UnknownCommand"
        payload = e.name
    except commands.ExtensionNotLoaded as e:
        kind = "ExtensionNotLoaded"
        payload = e.name
    except commands.CommandError as e:
        kind = "CommandError"
    except Exception as e:
        kind = "crash"
        note("crash", type(e).__name__)
    prove(commands.RequireCommand.loaded_extensions is loaded, "G1.frame.loaded_extensions")
    if kind == "crash":
        # not an acceptance, so irrelevant to gating; C02.X (exception funnel) makes it an obligation
        if strict:
            prove(False, "X.lookup-raises-only-CommandError")
        return
    if strict:
        prove(True, "X.lookup-raises-only-CommandError")
    if kind == "return":
        cls = type(inst)
        note("instance", cls.__name__)
        ext = getattr(cls, "extension", None)
        if checkexists:
            prove(ext is None or ext in loaded, "G1.returned-implies-loaded")
        if issubclass(cls, commands.Command):
            prove(inst.parent is parent, "G1.parent")
        if strict:
            prove(issubclass(cls, commands.Command) and getattr(cls, "_type", None) in ("control", "action", "test")
                  and hasattr(cls, "args_definition"), "X.lookup-returns-a-concrete-command")
    elif kind == "ExtensionNotLoaded":
        prove(both(checkexists, neg(payload in loaded)), "G1.raise-only-when-missing")
        names = [c.extension for c in command_classes().values() if getattr(c, "extension", None)]
        prove(payload in names, "G1.raise-names-a-command-extension")
    elif kind == "UnknownCommand":
        prove(payload == name, "G1.unknown-names-input")
    else:
        prove(False, "G1.no-other-outcome")


def h_gci_class(clsname, checkexists):
    """Per class K (concrete name): instance of exactly K, iff K.extension is None or loaded."""
    cls = getattr(commands, clsname)
    name = clsname[:-len("Command")].lower()
    loaded = sym_set("loaded")
    commands.RequireCommand.loaded_extensions = loaded
    kind = None
    inst = None
    payload = None
    try:
        inst = commands.get_command_instance(name, None, checkexists)
        kind = "return"
    except commands.ExtensionNotLoaded as e:
        kind = "ExtensionNotLoaded"
        payload = e.name
    ext = cls.extension
    if ext is None or not checkexists:
        prove(kind == "return" and type(inst) is cls, "G1c.ungated-returns")
    else:
        prove(implies(ext in loaded, kind == "return"), "G1c.loaded-returns")
        prove(implies(neg(ext in loaded), kind == "ExtensionNotLoaded" and payload == ext), "G1c.missing-raises-ext")
        if kind == "return":
            prove(type(inst) is cls, "G1c.class")


def h_complete_cb_string():
    """require "x";  => loaded' = loaded + {x stripped of quotes}; nothing removed"""
    cmd = commands.RequireCommand(None)
    cap = sym_str("cap")
    cmd.arguments["capabilities"] = cap
    loaded = sym_set("loaded")
    commands.RequireCommand.loaded_extensions = loaded
    probe = sym_str("probe")
    before = probe in loaded
    cmd.complete_cb()
    after = probe in commands.RequireCommand.loaded_extensions
    name = cap.strip('"')
    prove(implies(before, after), "G3.cb.monotone")
    prove(name in commands.RequireCommand.loaded_extensions, "G3.cb.adds-the-capability")
    # (RFC 6131 section 2: requiring "vacation-seconds" also loads "vacation")
    prove(implies(both(after, neg(before)), either(probe == name, both(name == "vacation-seconds", probe == "vacation"))), "G3.cb.adds-nothing-else")
    prove(implies(name == "vacation-seconds", "vacation" in commands.RequireCommand.loaded_extensions), "G3.cb.vacation-seconds-implies-vacation")


@native
def re_no_quote():
    import z3
    from pyvc import sym
    return z3.Star(sym.re_char_not('"'))


def h_complete_cb_list(n):
    """require ["a", ...] with n items (n concrete: the loop is unrolled; labelled bounded-in-length)"""
    cmd = commands.RequireCommand(None)
    # the two forms capability names arrive in: with their quotes (from the parser) and bare (from the factory); the names
    # themselves are arbitrary quote-free texts (unconstrained strings are covered by the string and the any-length units)
    caps = []
    for i in range(n):
        nm = sym_str("cap%d" % i)
        assume(in_re(nm, re_no_quote()))
        caps.append(('"' + nm + '"') if i % 2 == 0 else nm)
    cmd.arguments["capabilities"] = caps
    loaded = sym_set("loaded")
    commands.RequireCommand.loaded_extensions = loaded
    probe = sym_str("probe")
    before = probe in loaded
    cmd.complete_cb()
    after = probe in commands.RequireCommand.loaded_extensions
    prove(implies(before, after), "G3.cb.list.monotone")
    for c in caps:
        prove(c.strip('"') in commands.RequireCommand.loaded_extensions, "G3.cb.list.adds-each")
    prove(implies(both(after, neg(before)), either(*([probe == c.strip('"') for c in caps] +
                                                        [both(c.strip('"') == "vacation-seconds", probe == "vacation") for c in caps]))), "G3.cb.list.adds-nothing-else")


def h_reset_parser():
    """Parser.__reset_parser gives the registry a fresh empty list (C07.G3 / C13.H1)."""
    p = sparser.Parser()
    marker = ["stale"]
    commands.RequireCommand.loaded_extensions = marker
    p._Parser__reset_parser()
    le = commands.RequireCommand.loaded_extensions
    prove(type(le) is list and len(le) == 0 and le is not marker, "G3.reset.fresh-empty")


def h_message():
    """str(ExtensionNotLoaded(e)) == "extension '<e>' not loaded" """
    e = sym_str("ext")
    exc = commands.ExtensionNotLoaded(e)
    prove(str(exc) == "extension '" + e + "' not loaded", "msg.extension-not-loaded")


def h_complete_cb_missing():
    """`require;` : the callback runs without the argument; it must not raise and must load nothing"""
    cmd = commands.RequireCommand(None)
    loaded = sym_set("loaded")
    commands.RequireCommand.loaded_extensions = loaded
    kind = "return"
    try:
        cmd.complete_cb()
    except commands.CommandError:
        kind = "CommandError"
    except Exception as e:
        kind = "crash"
        note("exception", type(e).__name__)
    prove(kind != "crash", "X.complete_cb.tolerates-missing-argument")
    prove(commands.RequireCommand.loaded_extensions is loaded, "X.complete_cb.loads-nothing-without-argument")


def h_reset_parser_full():
    """after __reset_parser every per-parse field holds a fresh initial value, whatever the previous parse left behind"""
    p = sparser.Parser()
    stale_list = ["stale"]
    p.result = stale_list
    p.hash_comments = stale_list
    p._Parser__cstate = opaque("stale_state")
    p._Parser__curcommand = opaque("stale_command")
    p._Parser__curstringlist = stale_list
    p._Parser__expected = ("stale",)
    p._Parser__expected_brackets = stale_list
    commands.RequireCommand.loaded_extensions = stale_list
    p._Parser__reset_parser()
    prove(p.result == [] and p.result is not stale_list, "H1.reset.result-fresh")
    prove(p.hash_comments == [] and p.hash_comments is not stale_list, "H1.reset.hash-comments-fresh")
    prove(p._Parser__cstate is None and p._Parser__curcommand is None and p._Parser__curstringlist is None
          and p._Parser__expected is None, "H1.reset.state-cleared")
    prove(p._Parser__expected_brackets == [] and p._Parser__expected_brackets is not stale_list, "H1.reset.brackets-fresh")
    le = commands.RequireCommand.loaded_extensions
    prove(type(le) is list and len(le) == 0 and le is not stale_list, "H1.reset.registry-fresh-empty")


# ---------------------------------------------------------------- G3 for capability lists of ANY length (loop invariant)

@native
def _fresh_caps_list():
    import z3
    from pyvc import core, sym
    return sym.SSeq(z3.Const(core.cur().fresh_name("capabilities"), sym.SEQ_STR), False)


@native
def _elem(seq, k):
    """k-th element as a term (no bounds check: every use is guarded by 0 <= k < length)"""
    from pyvc.sym import to_z3int
    return seq.elem(to_z3int(k))


@native
def _exists_added(seq, upto, probe):
    """exists j in [0, upto): probe == seq[j].strip('"')   (as a quantified formula over the strip function symbol)"""
    import z3
    from pyvc import sym, strmodel
    from pyvc.sym import mkbool, to_z3int, to_z3str
    key = "".join("%02x" % ord(c) for c in '"')
    F = strmodel._STRIP_FUNCS.get(key)
    if F is None:
        F = strmodel._STRIP_FUNCS[key] = z3.Function("py_strip_" + key, z3.StringSort(), z3.StringSort())
    j = z3.Int("j!added")
    e = F(sym.F_seq_elem(seq.t, j))
    pt = to_z3str(probe)
    named_or_implied = z3.Or(pt == e, z3.And(e == z3.StringVal("vacation-seconds"), pt == z3.StringVal("vacation")))
    return mkbool(z3.Exists([j], z3.And(j >= 0, j < to_z3int(upto), named_or_implied)))


def inv_complete_cb(L):
    G = ghost()
    loaded = commands.RequireCommand.loaded_extensions
    i = getattr(L, "$i")
    seq = getattr(L, "$seq")
    probe = G["probe"]
    k = G["k"]
    monotone = implies(G["probe_before"], probe in loaded)
    adds_each = implies(both(k >= 0, k < i), _elem(seq, k).strip('"') in loaded)
    nothing_else = implies(both(probe in loaded, neg(G["probe_before"])), _exists_added(seq, i, probe))
    return both(monotone, adds_each, nothing_else)


def heap_complete_cb(L):
    commands.RequireCommand.loaded_extensions = sym_set("loaded_at_loop_head")
    return None


def setup_complete_cb(ip, unit):
    from pyvc.interp import LoopSpec
    ip.loop_specs[("sievelib.commands", "RequireCommand.complete_cb", 0)] = LoopSpec(
        inv_complete_cb, havoc={"ext": "str"}, heap=heap_complete_cb, header="exts")


def h_complete_cb_anylist():
    """require [c0, ..., c(n-1)] for a list of ANY length n: the registry afterwards is the registry before plus exactly the
    capabilities named (each stripped of its quotes) -- loop invariant over the index, Skolem probe and position"""
    cmd = commands.RequireCommand(None)
    caps = _fresh_caps_list()
    cmd.arguments["capabilities"] = caps
    loaded = sym_set("loaded")
    commands.RequireCommand.loaded_extensions = loaded
    probe = sym_str("probe")
    k = sym_int("position")
    G = ghost()
    G["probe"] = probe
    G["k"] = k
    G["probe_before"] = probe in loaded
    cmd.complete_cb()
    after = commands.RequireCommand.loaded_extensions
    prove(implies(G["probe_before"], probe in after), "G3.cb.anylist.monotone")
    prove(implies(both(k >= 0, k < len(caps)), _elem(caps, k).strip('"') in after), "G3.cb.anylist.adds-each")
    prove(implies(both(probe in after, neg(G["probe_before"])), _exists_added(caps, len(caps), probe)), "G3.cb.anylist.adds-nothing-else")
