"""Frozen command table (DESIGN.md Appendix C), written from the RFCs -- NOT generated from the code.

RFC 5228 (base), 3894 (copy), 5173 (body), 5230 (vacation), 6131 (vacation-seconds),
5231 (relational), 5232 (imap4flags), 5260 (date), 5490 (mailbox), 5229 (variables, `set`
without modifiers), draft-murchison-sieve-regex (regex), restricted to what README.rst and
the library claim to support.

Format
  kind        'control' | 'action' | 'test'
  ext         capability that must be required for the command itself (or None)
  block       the command takes a block
  follows     names of the commands it must directly follow (or None)
  tagged      list of optional tagged arguments; each:
                name      the name the library documents for the slot
                tags      {tag: capability or None}   (alternatives of the slot)
                ext       capability needed for the slot whatever the tag (or None)
                param     None | {type: 'string'|'number'|'stringlist', values: [...]|None, only_for: [tags]|None}
  positional  list of positional arguments, in order; each:
                name, type: 'string'|'stringlist'|'number'|'test'|'testlist'|'tag', values (for 'tag'), optional
"""

COMPARATOR = {
    "name": "comparator", "tags": {":comparator": None}, "ext": None,
    "param": {"type": "string", "values": ['"i;octet"', '"i;ascii-casemap"'], "only_for": None},
}
ADDRESS_PART = {
    "name": "address-part", "tags": {":localpart": None, ":domain": None, ":all": None}, "ext": None, "param": None,
}
MATCH_TYPE = {
    "name": "match-type",
    "tags": {":is": None, ":contains": None, ":matches": None, ":regex": "regex", ":count": "relational",
             ":value": "relational"},
    "ext": None,
    "param": {"type": "string", "values": ['"gt"', '"ge"', '"lt"', '"le"', '"eq"', '"ne"'],
              "only_for": [":count", ":value"]},
}


def P(name, type_, values=None, optional=False):
    return {"name": name, "type": type_, "values": values, "optional": optional}


def T(name, tag, ext=None, param=None):
    return {"name": name, "tags": {tag: None}, "ext": ext, "param": param}


def cmd(kind, ext=None, block=False, follows=None, tagged=(), positional=()):
    return {"kind": kind, "ext": ext, "block": block, "follows": follows, "tagged": list(tagged),
            "positional": list(positional)}


STR = {"type": "string", "values": None, "only_for": None}
NUM = {"type": "number", "values": None, "only_for": None}
SL = {"type": "stringlist", "values": None, "only_for": None}

COMMANDS = {
    "require": cmd("control", positional=[P("capabilities", "stringlist")]),
    "if": cmd("control", block=True, positional=[P("test", "test")]),
    "elsif": cmd("control", block=True, follows=["if", "elsif"], positional=[P("test", "test")]),
    "else": cmd("control", block=True, follows=["if", "elsif"]),
    "stop": cmd("action"),  # RFC: control; the library classes it as an action (no clause distinguishes them)
    "set": cmd("control", ext="variables", positional=[P("startend", "string"), P("date", "string")]),
    "keep": cmd("action", tagged=[T("flags", ":flags", ext="imap4flags", param=SL)]),
    "discard": cmd("action"),
    "redirect": cmd("action", tagged=[T("copy", ":copy", ext="copy")], positional=[P("address", "string")]),
    "fileinto": cmd("action", ext="fileinto",
                    tagged=[T("copy", ":copy", ext="copy"), T("create", ":create", ext="mailbox"),
                            T("flags", ":flags", ext="imap4flags", param=SL)],
                    positional=[P("mailbox", "string")]),
    "reject": cmd("action", ext="reject", positional=[P("text", "string")]),
    "vacation": cmd("action", ext="vacation",
                    tagged=[T("subject", ":subject", param=STR), T("days", ":days", param=NUM),
                            {"name": "seconds", "tags": {":seconds": "vacation-seconds"}, "ext": None, "param": NUM},
                            T("from", ":from", param=STR), T("addresses", ":addresses", param=SL),
                            T("handle", ":handle", param=STR), T("mime", ":mime")],
                    positional=[P("reason", "string")]),
    "setflag": cmd("action", ext="imap4flags",
                   positional=[P("variable-name", "string", optional=True), P("list-of-flags", "stringlist")]),
    "addflag": cmd("action", ext="imap4flags",
                   positional=[P("variable-name", "string", optional=True), P("list-of-flags", "stringlist")]),
    "removeflag": cmd("action", ext="imap4flags",
                      positional=[P("variable-name", "string", optional=True), P("list-of-flags", "stringlist")]),
    "address": cmd("test", tagged=[COMPARATOR, ADDRESS_PART, MATCH_TYPE],
                   positional=[P("header-list", "stringlist"), P("key-list", "stringlist")]),
    "envelope": cmd("test", ext="envelope", tagged=[COMPARATOR, ADDRESS_PART, MATCH_TYPE],
                    positional=[P("header-list", "stringlist"), P("key-list", "stringlist")]),
    "header": cmd("test", tagged=[COMPARATOR, MATCH_TYPE],
                  positional=[P("header-names", "stringlist"), P("key-list", "stringlist")]),
    "exists": cmd("test", positional=[P("header-names", "stringlist")]),
    "size": cmd("test", positional=[P("comparator", "tag", values=[":over", ":under"]), P("limit", "number")]),
    "not": cmd("test", block=False, positional=[P("test", "test")]),
    "allof": cmd("test", positional=[P("tests", "testlist")]),
    "anyof": cmd("test", positional=[P("tests", "testlist")]),
    "true": cmd("test"),
    "false": cmd("test"),
    "body": cmd("test", ext="body",
                tagged=[COMPARATOR, MATCH_TYPE,
                        {"name": "body-transform", "tags": {":raw": None, ":content": None, ":text": None}, "ext": None,
                         "param": {"type": "stringlist", "values": None, "only_for": [":content"]}}],
                positional=[P("key-list", "stringlist")]),
    "hasflag": cmd("test", ext="imap4flags", tagged=[COMPARATOR, MATCH_TYPE],
                   positional=[P("variable-list", "stringlist", optional=True), P("list-of-flags", "stringlist")]),
    "date": cmd("test", ext="date",
                tagged=[{"name": "zone", "tags": {":zone": None, ":originalzone": None}, "ext": None,
                         "param": {"type": "string", "values": None, "only_for": [":zone"]}},
                        COMPARATOR, MATCH_TYPE],
                positional=[P("header-name", "string"), P("date-part", "string"), P("key-list", "stringlist")]),
    "currentdate": cmd("test", ext="date",
                       tagged=[T("zone", ":zone", param=STR), COMPARATOR, MATCH_TYPE],
                       positional=[P("date-part", "string"), P("key-list", "stringlist")]),
}

# every (command | tag) -> capability pair of the table, flattened (used by C07.T)
def extension_pairs():
    out = []
    for name, c in COMMANDS.items():
        if c["ext"]:
            out.append((name, None, c["ext"]))
        for t in c["tagged"]:
            for tag, e in t["tags"].items():
                need = e or t["ext"]
                if need:
                    out.append((name, tag, need))
    return out
