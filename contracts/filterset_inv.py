"""C12 for sets of ANY length: FiltersSet operations on a record list of symbolic length (pyvc/reclist.py), the
search loops cut by quantified invariants, postconditions stated pointwise over Skolem positions.

Case split per unit (complete: the cases are exhaustive and each is stated as an assumption over the initial list):
  absent            no filter is named `target`
  present           the filter at position j is named `target` (unique by the representation invariant)
  for update/replace, with `newname`:  same (newname == target) | free (no filter named newname) | clash (another filter,
  at position c != j, is named newname)
"""
import z3

from pyvc import core, sym
from pyvc.api import (native, sym_str, sym_bool, sym_int, opaque, prove, assume, note, implies, both, either, neg, same)
from pyvc.interp import LoopSpec
from pyvc.reclist import SRecList, RecRef, SContent, F_dis, F_inner, content_id
from pyvc.sym import SBool, SInt, SStr, mkbool, mkint, to_z3str, to_z3int, to_z3bool
from sievelib import commands, factory


# ----------------------------------------------------------------------------- contracts / invariants

def k_isdisabled(ip, args, kwargs):
    """FiltersSet.__isdisabled: on an abstract content it IS the predicate dis(id); on a real object the real body runs"""
    fcontent = args[1]
    if isinstance(fcontent, SContent):
        return mkbool(F_dis(fcontent.cid))
    fn = factory.FiltersSet._FiltersSet__isdisabled
    return ip.call_function(fn, ip.func_info(fn), args, kwargs)


@native
def real_isdisabled(obj):
    return isinstance(obj, commands.IfCommand) and "test" in obj.arguments and isinstance(obj.arguments["test"], commands.FalseCommand)


@native
def no_match_before(lst, i, name):
    k = z3.Int("k!")
    return mkbool(z3.ForAll([k], z3.Implies(z3.And(k >= 0, k < to_z3int(i)), z3.Select(lst.nm, k) != to_z3str(name))))


def inv_search(L):
    """for f in self.filters: if f["name"] == <target>: ...   -- no earlier filter has the target's name"""
    return no_match_before(getattr(L, "$list"), getattr(L, "$i"), getattr(L, "$target"))


def inv_search_cpt(L):
    return both(no_match_before(getattr(L, "$list"), getattr(L, "$i"), getattr(L, "$target")), L.cpt == getattr(L, "$i"))


TARGET_VAR = {"filter_exists": "name", "updatefilter": "oldname", "replacefilter": "oldname", "getfilter": "name",
              "removefilter": "name", "enablefilter": "name", "is_filter_disabled": "name", "disablefilter": "name",
              "movefilter": "name"}


def make_inv(fname, with_cpt):
    var = TARGET_VAR[fname]

    def inv(L):
        lst = getattr(L, "$list")
        i = getattr(L, "$i")
        t = getattr(L, var)
        if with_cpt:
            return both(no_match_before(lst, i, t), L.cpt == i)
        return no_match_before(lst, i, t)

    inv._pyvc_native = False
    return inv


def inv_filter_exists(L):
    return no_match_before(getattr(L, "$list"), getattr(L, "$i"), L.name)


def inv_oldname(L):
    return no_match_before(getattr(L, "$list"), getattr(L, "$i"), L.oldname)


def inv_move(L):
    return both(no_match_before(getattr(L, "$list"), getattr(L, "$i"), L.name), L.cpt == getattr(L, "$i"))


def setup(ip, unit):
    ip.name_contracts[("sievelib.factory", "FiltersSet.__isdisabled")] = k_isdisabled
    none = lambda n: None
    for fname in ("filter_exists", "getfilter", "removefilter", "enablefilter", "is_filter_disabled", "disablefilter"):
        ip.loop_specs[("sievelib.factory", "FiltersSet.%s" % fname, 0)] = LoopSpec(
            inv_filter_exists, havoc={"existing_filter": none, "f": none}, header="self.filters")
    for fname in ("updatefilter", "replacefilter"):
        ip.loop_specs[("sievelib.factory", "FiltersSet.%s" % fname, 0)] = LoopSpec(
            inv_oldname, havoc={"f": none, "filter_def": none}, header="self.filters")
    ip.loop_specs[("sievelib.factory", "FiltersSet.movefilter", 0)] = LoopSpec(
        inv_move, havoc={"f": none, "cpt": "int"}, header="self.filters")


# ----------------------------------------------------------------------------- specification helpers (native, z3 level)

@native
def new_set():
    fs = factory.FiltersSet("set")
    lst = SRecList("flt", real_isdisabled)
    fs.filters = lst
    p = core.cur()
    a, b = z3.Int("a!"), z3.Int("b!")
    # representation invariant wf of the initial set (assumed): unique names, flag agrees with content shape
    p.add(z3.ForAll([a, b], z3.Implies(z3.And(a >= 0, a < b, b < lst.n), z3.Select(lst.nm, a) != z3.Select(lst.nm, b))))
    p.add(z3.ForAll([a], z3.Implies(z3.And(a >= 0, a < lst.n), z3.Select(lst.en, a) == z3.Not(F_dis(z3.Select(lst.ct, a))))))
    # ... and what a disabled filter wraps is not itself a disabled shape (no double wrapping)
    p.add(z3.ForAll([a], z3.Implies(z3.And(a >= 0, a < lst.n, z3.Not(z3.Select(lst.en, a))),
                                    z3.Not(F_dis(F_inner(z3.Select(lst.ct, a)))))))
    return fs


@native
def snap(fs):
    return fs.filters.snapshot()


@native
def assume_absent(s0, name):
    k = z3.Int("k!")
    core.assume(z3.ForAll([k], z3.Implies(z3.And(k >= 0, k < s0[0]), z3.Select(s0[1], k) != to_z3str(name))))


@native
def assume_present(s0, name, label):
    j = z3.Int(core.cur().fresh_name(label))
    core.cur().inputs[str(j)] = (j, "int")
    core.assume(z3.And(j >= 0, j < s0[0], z3.Select(s0[1], j) == to_z3str(name)))
    return mkint(j)


@native
def probe(label):
    q = z3.Int(core.cur().fresh_name(label))
    return mkint(q)


@native
def length(s):
    return mkint(s[0])


@native
def inb(q, s):
    return mkbool(z3.And(to_z3int(q) >= 0, to_z3int(q) < s[0]))


@native
def rec_same(s1, q1, s0, q0):
    """record at q1 of s1 has the same name, flag, content and description as the record at q0 of s0"""
    a, b = to_z3int(q1), to_z3int(q0)
    return mkbool(z3.And(*[z3.Select(s1[k], a) == z3.Select(s0[k], b) for k in (1, 2, 3, 4, 5)]))


@native
def name_at(s, q):
    return sym.mkstr(z3.Select(s[1], to_z3int(q)), False)


@native
def enabled_at(s, q):
    return mkbool(z3.Select(s[2], to_z3int(q)))


@native
def content_at(s, q):
    return SContent(z3.Select(s[3], to_z3int(q)))


@native
def is_dis(c):
    cid = c.cid if isinstance(c, SContent) else content_id(c, real_isdisabled)
    return mkbool(F_dis(cid))


@native
def same_content(a, b):
    ia = a.cid if isinstance(a, SContent) else content_id(a, real_isdisabled)
    ib = b.cid if isinstance(b, SContent) else content_id(b, real_isdisabled)
    return mkbool(ia == ib)


@native
def abstract_enabled_content(label):
    cid = z3.Int(core.cur().fresh_name(label))
    core.assume(z3.Not(F_dis(cid)))
    return SContent(cid)


@native
def inner_of(c):
    return SContent(F_inner(c.cid if isinstance(c, SContent) else content_id(c, real_isdisabled)))


def prove_unchanged(s1, s0, label):
    q = probe("q_unchanged")
    prove(length(s1) == length(s0), label + ".length")
    prove(implies(inb(q, s0), rec_same(s1, q, s0, q)), label + ".every-record")


def prove_wf(fs, s1, label):
    a = probe("wf_a")
    b = probe("wf_b")
    prove(implies(both(inb(a, s1), inb(b, s1), a < b), neg(name_at(s1, a) == name_at(s1, b))), label + ".names-stay-unique")
    prove(implies(inb(a, s1), enabled_at(s1, a) == neg(is_dis(content_at(s1, a)))), label + ".flag-agrees-with-content-shape")
    prove(implies(both(inb(a, s1), neg(enabled_at(s1, a))), neg(is_dis(inner_of(content_at(s1, a))))), label + ".no-double-wrapping")


# ----------------------------------------------------------------------------- the harness

def h_inv(op, case):
    fs = new_set()
    s0 = snap(fs)
    target = sym_str("target")
    j = None
    if case.startswith("absent"):
        assume_absent(s0, target)
    else:
        j = assume_present(s0, target, "j")
    newname = None
    c = None
    if op in ("updatefilter", "replacefilter") and j is not None:
        if case == "present-same":
            newname = target
        elif case == "present-free":
            newname = sym_str("newname")
            assume(neg(newname == target))
            assume_absent(s0, newname)
        else:
            newname = sym_str("newname")
            assume(neg(newname == target))
            c = assume_present(s0, newname, "c")
    elif op in ("updatefilter", "replacefilter"):
        newname = sym_str("newname")
    kind = "return"
    r = None
    repl = None
    try:
        if op == "filter_exists":
            r = fs.filter_exists(target)
        elif op == "addfilter":
            r = fs.addfilter(target, [("Subject", ":is", "x")], [("keep",)])
        elif op == "updatefilter":
            r = fs.updatefilter(target, newname, [("Subject", ":is", "y")], [("discard",)])
        elif op == "replacefilter":
            repl = abstract_enabled_content("given_filter")      # ANY content that is not itself a disabled shape
            r = fs.replacefilter(target, repl, newname)
        elif op == "getfilter":
            r = fs.getfilter(target)
        elif op == "removefilter":
            r = fs.removefilter(target)
        elif op == "enablefilter":
            r = fs.enablefilter(target)
        elif op == "disablefilter":
            r = fs.disablefilter(target)
        elif op == "is_filter_disabled":
            r = fs.is_filter_disabled(target)
        elif op == "movefilter_up":
            r = fs.movefilter(target, "up")
        elif op == "movefilter_down":
            r = fs.movefilter(target, "down")
    except factory.FilterAlreadyExists:
        kind = "FilterAlreadyExists"
    s1 = snap(fs)
    note(op, case, kind)
    n0 = length(s0)

    if op == "filter_exists":
        prove(kind == "return" and r is (j is not None), "filter_exists.value")
        prove_unchanged(s1, s0, "pure.unchanged")
    elif op == "getfilter":
        prove_unchanged(s1, s0, "pure.unchanged")
        if j is None:
            prove(r is None, "getfilter.unknown-gives-None")
        else:
            own = content_at(s0, j)
            if enabled_at(s0, j):
                prove(same_content(r, own), "getfilter.returns-the-filters-own-content")
            else:
                prove(same_content(r, inner_of(own)), "getfilter.returns-the-filters-own-content")
    elif op == "is_filter_disabled":
        prove_unchanged(s1, s0, "pure.unchanged")
        if j is None:
            prove(r is True, "is_filter_disabled.unknown")
        else:
            prove(r == neg(enabled_at(s0, j)), "is_filter_disabled.agrees-with-flag")
    elif op == "addfilter":
        if j is not None:
            prove(kind == "FilterAlreadyExists", "addfilter.duplicate-raises")
            prove_unchanged(s1, s0, "addfilter.duplicate-changes-nothing")
        else:
            prove(kind == "return" and length(s1) == n0 + 1, "addfilter.appends-one")
            q = probe("q_add")
            prove(implies(inb(q, s0), rec_same(s1, q, s0, q)), "addfilter.earlier-filters-untouched")
            prove(both(name_at(s1, n0) == target, enabled_at(s1, n0), neg(is_dis(content_at(s1, n0)))), "addfilter.new-filter-enabled-at-the-end")
    elif op in ("updatefilter", "replacefilter"):
        if j is None:
            prove(kind == "return" and r is False, op + ".unknown-returns-False")
            prove_unchanged(s1, s0, op + ".unknown-changes-nothing")
        elif case == "present-clash":
            prove(kind == "FilterAlreadyExists", op + ".name-clash-raises")
            prove_unchanged(s1, s0, op + ".name-clash-changes-nothing")
        else:
            prove(kind == "return" and r is True and length(s1) == n0, op + ".returns-True")
            q = probe("q_upd")
            prove(implies(both(inb(q, s0), neg(q == j)), rec_same(s1, q, s0, q)), op + ".others-untouched")
            prove(name_at(s1, j) == newname, op + ".renamed-in-place")
            prove(enabled_at(s1, j) == enabled_at(s0, j), op + ".enabled-status-kept")
            prove(is_dis(content_at(s1, j)) == neg(enabled_at(s0, j)), op + ".content-wrapped-iff-disabled")
            if op == "replacefilter":
                if enabled_at(s0, j):
                    prove(same_content(content_at(s1, j), repl), "replacefilter.content-is-the-given-filter")
                else:
                    prove(same_content(inner_of(content_at(s1, j)), repl), "replacefilter.content-is-the-given-filter")
    elif op == "removefilter":
        if j is None:
            prove(r is False, "removefilter.unknown-returns-False")
            prove_unchanged(s1, s0, "removefilter.unknown-changes-nothing")
        else:
            prove(r is True and length(s1) == n0 - 1, "removefilter.returns-True")
            q = probe("q_rm")
            prove(implies(both(inb(q, s1), q < j), rec_same(s1, q, s0, q)), "removefilter.earlier-keep-their-place")
            prove(implies(both(inb(q, s1), q >= j), rec_same(s1, q, s0, q + 1)), "removefilter.later-move-up-by-one")
    elif op == "enablefilter":
        if j is None:
            prove(r is False, "enablefilter.unknown-returns-False")
            prove_unchanged(s1, s0, "enablefilter.unknown-changes-nothing")
        elif enabled_at(s0, j):
            prove(r is False, "enablefilter.already-enabled-returns-False")
            prove_unchanged(s1, s0, "enablefilter.already-enabled-changes-nothing")
        else:
            prove(r is True and length(s1) == n0, "enablefilter.returns-True")
            q = probe("q_en")
            prove(implies(both(inb(q, s0), neg(q == j)), rec_same(s1, q, s0, q)), "enablefilter.others-untouched")
            prove(both(enabled_at(s1, j), name_at(s1, j) == target,
                       same_content(content_at(s1, j), inner_of(content_at(s0, j)))), "enablefilter.unwraps-the-content")
    elif op == "disablefilter":
        if j is None:
            prove(r is False, "disablefilter.unknown-returns-False")
            prove_unchanged(s1, s0, "disablefilter.unknown-changes-nothing")
        else:
            prove(r is True and length(s1) == n0, "disablefilter.returns-True")
            q = probe("q_dis")
            prove(implies(both(inb(q, s0), neg(q == j)), rec_same(s1, q, s0, q)), "disablefilter.others-untouched")
            prove(both(neg(enabled_at(s1, j)), is_dis(content_at(s1, j)), name_at(s1, j) == target), "disablefilter.flag-and-shape")
            own = content_at(s0, j) if enabled_at(s0, j) else inner_of(content_at(s0, j))
            prove(same_content(inner_of(content_at(s1, j)), own), "disablefilter.own-content-is-the-wrapped-one")
    elif op in ("movefilter_up", "movefilter_down"):
        nb = None
        if j is not None:
            nb = (j - 1) if op == "movefilter_up" else (j + 1)
        if j is None or not inb(nb, s0):
            prove(r is False, "movefilter.unknown-or-at-the-end-returns-False")
            prove_unchanged(s1, s0, "movefilter.unknown-or-at-the-end-changes-nothing")
        else:
            prove(r is True and length(s1) == n0, "movefilter.returns-True")
            q = probe("q_mv")
            prove(implies(both(inb(q, s0), neg(q == j), neg(q == nb)), rec_same(s1, q, s0, q)), "movefilter.others-keep-their-place")
            prove(both(rec_same(s1, nb, s0, j), rec_same(s1, j, s0, nb)), "movefilter.swaps-with-exactly-one-neighbour")
    # the representation invariant is re-established (for the non-exceptional, changed states; unchanged ones keep it)
    if kind == "return":
        prove_wf(fs, s1, "wf")


CASES = {
    "filter_exists": ["absent", "present"], "addfilter": ["absent", "present"], "getfilter": ["absent", "present"],
    "removefilter": ["absent", "present"], "enablefilter": ["absent", "present"], "disablefilter": ["absent", "present"],
    "is_filter_disabled": ["absent", "present"], "movefilter_up": ["absent", "present"], "movefilter_down": ["absent", "present"],
    "updatefilter": ["absent", "present-same", "present-free", "present-clash"],
    "replacefilter": ["absent", "present-same", "present-free", "present-clash"],
}
