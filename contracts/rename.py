"""C14: emulated rename against a ghost ManageSieve server.

Ghost server (RFC 5804 store): has: name -> Bool, content: name -> text, active name + has_active.
Each callee of renamescript is replaced by its contract; every callee has three outcomes:
  OK      (allowed only when the RFC lets a conforming server say OK in this state; state updated),
  NO      (always possible: quota, policy, ...; state unchanged; method returns False / None),
  Error   (BYE or silence; the command may or may not have been applied before the connection broke).
"""
import z3

from pyvc import core, sym
from pyvc.api import native, sym_str, sym_bool, prove, assume, note, implies, both, either, neg, ghost
from pyvc.sym import SBool, SStr, SSet, mkbool, to_z3str
from sievelib import managesieve
from contracts import client as cl

S = z3.StringSort()
F_norm = z3.Function("normalise_line_endings", S, S)


def norm(t):
    r = F_norm(t)
    core.cur().add(F_norm(r) == r)
    return r


def _outcome(name, ok_allowed):
    """'OK' | 'NO' | 'ERR-applied' | 'ERR-not-applied'"""
    if core.branch(sym.fresh_bool(name + "_breaks").t):
        core.cur().ghost.setdefault("outcomes", []).append("ERR")
        if core.branch(z3.And(ok_allowed, sym.fresh_bool(name + "_applied_before_break").t)):
            return "ERR-applied"
        return "ERR-not-applied"
    G = core.cur().ghost
    if core.branch(z3.And(ok_allowed, sym.fresh_bool(name + "_ok").t)):
        G.setdefault("outcomes", []).append("OK")
        return "OK"
    G.setdefault("outcomes", []).append("NO")
    return "NO"


def _auth_required(self):
    """precondition of every script operation used as a callee: the client is authenticated (flag and ghost);
    each operation establishes it for itself through the decorator (C10.A1 on that operation)"""
    a = self.authenticated
    core.prove(a.t if isinstance(a, SBool) else bool(a), "callee-precondition.authenticated")
    ca = core.cur().ghost.get("conn_auth", False)
    core.prove(ca.t if isinstance(ca, SBool) else (ca if z3.is_expr(ca) else bool(ca)), "callee-precondition.conn-auth")


def k_listscripts(ip, args, kwargs):
    self = args[0]
    _auth_required(self)
    G = core.cur().ghost
    G["calls"].append("listscripts")
    o = _outcome("listscripts", z3.BoolVal(True))
    if o.startswith("ERR"):
        raise managesieve.Error("connection lost")
    if o == "NO":
        return None
    has, active, has_active = G["has"], G["active"], G["has_active"]
    # scripts: every stored name except the active one (which is reported separately)
    nm = z3.String("n!")
    arr = z3.Lambda([nm], z3.And(z3.Select(has, nm), z3.Not(z3.And(has_active, nm == active))))
    scripts = SSet(arr, arr, None)
    if core.branch(has_active):
        return (SStr(active, False), scripts)
    return (None, scripts)


def k_getscript(ip, args, kwargs):
    self, name = args[0], args[1]
    _auth_required(self)
    G = core.cur().ghost
    G["calls"].append("getscript")
    n = to_z3str(name)
    o = _outcome("getscript", z3.Select(G["has"], n))
    if o.startswith("ERR"):
        raise managesieve.Error("connection lost")
    if o == "NO":
        return None
    return SStr(norm(z3.Select(G["content"], n)), False)


def k_putscript(ip, args, kwargs):
    self, name, content = args[0], args[1], args[2]
    _auth_required(self)
    G = core.cur().ghost
    G["calls"].append("putscript")
    n = to_z3str(name)
    o = _outcome("putscript", z3.BoolVal(True))
    if o in ("OK", "ERR-applied"):
        G["has"] = z3.Store(G["has"], n, z3.BoolVal(True))
        G["content"] = z3.Store(G["content"], n, to_z3str(content))
    if o.startswith("ERR"):
        raise managesieve.Error("connection lost")
    return o == "OK"


def k_setactive(ip, args, kwargs):
    self, name = args[0], args[1]
    _auth_required(self)
    G = core.cur().ghost
    G["calls"].append("setactive")
    n = to_z3str(name)
    o = _outcome("setactive", z3.Select(G["has"], n))
    if o in ("OK", "ERR-applied"):
        G["active"] = n
        G["has_active"] = z3.BoolVal(True)
    if o.startswith("ERR"):
        raise managesieve.Error("connection lost")
    return o == "OK"


def k_deletescript(ip, args, kwargs):
    self, name = args[0], args[1]
    _auth_required(self)
    G = core.cur().ghost
    G["calls"].append("deletescript")
    n = to_z3str(name)
    allowed = z3.And(z3.Select(G["has"], n), z3.Not(z3.And(G["has_active"], G["active"] == n)))
    o = _outcome("deletescript", allowed)
    if o in ("OK", "ERR-applied"):
        G["has"] = z3.Store(G["has"], n, z3.BoolVal(False))
    if o.startswith("ERR"):
        raise managesieve.Error("connection lost")
    return o == "OK"


def setup_rename(ip, unit):
    cl.setup_typestate(ip, unit)
    for name, h in (("listscripts", k_listscripts), ("getscript", k_getscript), ("putscript", k_putscript),
                    ("setactive", k_setactive), ("deletescript", k_deletescript)):
        # the decorated attribute is the closure `check`; intercept by attribute name on Client
        ip.method_name_contracts[(managesieve.Client, name)] = h


@native
def init_server():
    G = core.cur().ghost
    p = core.cur()
    G["has"] = z3.Array("srv_has", S, z3.BoolSort())
    G["content"] = z3.Array("srv_content", S, S)
    G["active"] = z3.String("srv_active")
    G["has_active"] = z3.Bool("srv_has_active")
    p.inputs["srv_active"] = (G["active"], "str")
    p.inputs["srv_has_active"] = (G["has_active"], "bool")
    core.assume(z3.Implies(G["has_active"], z3.Select(G["has"], G["active"])))
    G["calls"] = []
    return (G["has"], G["content"], G["active"], G["has_active"])


@native
def srv_has(has, name):
    return mkbool(z3.Select(has, to_z3str(name)))


@native
def srv_content_equiv(c1, n1, c0, n0):
    return mkbool(norm(z3.Select(c1, to_z3str(n1))) == norm(z3.Select(c0, to_z3str(n0))))


@native
def srv_content_same(c1, c0, n):
    return mkbool(z3.Select(c1, to_z3str(n)) == z3.Select(c0, to_z3str(n)))


@native
def srv_now():
    G = core.cur().ghost
    return (G["has"], G["content"], G["active"], G["has_active"])


@native
def is_active(active, has_active, name):
    return mkbool(z3.And(has_active, active == to_z3str(name)))


@native
def track_input(name, arr, probe_list):
    return None


def h_rename():
    """renamescript(old, new) on a server without RENAMESCRIPT, for every initial store and every outcome of
    every step."""
    c = cl.new_client()
    c.authenticated = True
    ghost()["conn_auth"] = True
    c.sock = cl.FakeSock(1, False)
    c._Client__capabilities = {"SASL": "PLAIN"}          # no VERSION: the emulation is used
    (has0, content0, active0, hasact0) = init_server()
    old = sym_str("oldname")
    new = sym_str("newname")
    probe = sym_str("other_script")                        # an arbitrary third name (skolem for the quantifier)
    # what the tester can see of the initial store (model extraction)
    old_exists = sym_bool("old_exists")
    new_exists = sym_bool("new_exists")
    probe_exists = sym_bool("other_exists")
    assume(old_exists == srv_has(has0, old))
    assume(new_exists == srv_has(has0, new))
    assume(probe_exists == srv_has(has0, probe))
    kind = None
    r = None
    try:
        r = c.renamescript(old, new)
        kind = "return"
    except managesieve.Error:
        kind = "Error"
    except Exception as e:
        kind = "other"
        note("exception", type(e).__name__)
    G = ghost()
    note("calls", tuple(G["calls"]), kind)
    (has1, content1, active1, hasact1) = srv_now()
    prove(kind in ("return", "Error"), "only-False-True-or-Error")
    if kind == "return":
        prove(either(r is True, r is False), "boolean-result")
    # P1: nothing else is touched -- in particular an existing script named like the target is not overwritten
    prove(implies(both(probe != old, srv_has(has0, probe)),
                  both(srv_has(has1, probe), srv_content_same(content1, content0, probe))), "other-scripts-untouched")
    prove(implies(both(probe != old, probe != new, neg(srv_has(has0, probe))), neg(srv_has(has1, probe))),
          "no-script-invented")
    # P2: the old content survives under the old or the new name
    prove(implies(srv_has(has0, old),
                  either(both(srv_has(has1, old), srv_content_equiv(content1, old, content0, old)),
                         both(srv_has(has1, new), srv_content_equiv(content1, new, content0, old)))),
          "old-content-survives")
    # active pointer: only moved from old to new
    prove(implies(neg(is_active(active0, hasact0, old)),
                  both(mkb(hasact1) == mkb(hasact0), implies(mkb(hasact0), same_name(active1, active0)))),
          "active-pointer-untouched-unless-old-was-active")
    # C09 for the multi-step operation: when the old script exists, the target name is free and every step was answered OK, the rename succeeds
    outcomes = G.get("outcomes", [])
    all_ok = len(outcomes) > 0
    for o in outcomes:
        all_ok = all_ok and o == "OK"
    if kind == "return" and all_ok:
        prove(implies(both(srv_has(has0, old), neg(srv_has(has0, new))), r is True), "all-steps-OK-old-present-target-free-gives-True")
    # P3: success
    if kind == "return" and r is True:
        prove(srv_has(has0, old), "true.old-existed")
        prove(neg(srv_has(has1, old)), "true.old-gone")
        prove(both(srv_has(has1, new), srv_content_equiv(content1, new, content0, old)), "true.new-holds-old-content")
        prove(is_active(active1, hasact1, new) == is_active(active0, hasact0, old), "true.active-iff-was-active")


@native
def mkb(t):
    return mkbool(t)


@native
def same_name(a, b):
    return mkbool(a == b)
