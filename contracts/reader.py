"""C05: the reply reader (Client.__read_block / __read_line / __read_response / __parse_error) against a demonic recv().

Ghost `inb`: the bytes the server has sent that recv() has not delivered yet.  recv(n) delivers an arbitrary
non-empty prefix of inb of length <= n; when inb is empty it times out (the server has sent everything it is
going to send).  `avail` = __read_buffer ++ inb is the unread stream; every reader function must be a function
of `avail` alone and must leave `avail` = old avail minus the prefix it consumed.
"""
import socket

import z3

from pyvc import core, sym
from pyvc.api import (native, sym_str, sym_bytes, sym_int, sym_bool, prove, assume, note, implies, both, either, neg, ghost)
from pyvc.interp import LoopSpec
from pyvc.sym import SStr, mkstr
from pyvc.core import strval
from sievelib import managesieve
from contracts.client import new_client

CRLF = b"\r\n"


@native
def recv_chunk(inb, n):
    """demonic choice of a non-empty prefix of inb of length <= n"""
    k = sym.fresh_int("recv_len", register=False)
    core.assume(z3.And(k.t >= 1, k.t <= sym.to_z3int(n), k.t <= z3.Length(inb.t)))
    return mkstr(z3.SubString(inb.t, 0, k.t), True)


class RecvSock:
    def settimeout(self, t):
        return None

    def close(self):
        return None

    def recv(self, n):
        G = ghost()
        G["recv_calls"] = G["recv_calls"] + 1
        inb = G["inb"]
        if n <= 0:
            return b""
        if len(inb) == 0:
            raise socket.timeout("timed out")
        chunk = recv_chunk(inb, n)
        G["inb"] = inb[len(chunk):]
        return chunk

    def sendall(self, data):
        G = ghost()
        G["out"].append((0, False, data))
        return None


def fresh_state(c):
    G = ghost()
    buf0 = sym_bytes("read_buffer")
    inb0 = sym_bytes("inbound")
    c._Client__read_buffer = buf0
    c.sock = RecvSock()
    G["inb"] = inb0
    G["recv_calls"] = 0
    G["avail0"] = buf0 + inb0
    return buf0 + inb0


# ---------------------------------------------------------------- R1

def inv_read_block(L):
    G = ghost()
    return both(L.buf + L.self._Client__read_buffer + G["inb"] == G["avail0"],
                either(L.size == 0, len(L.self._Client__read_buffer) == 0),
                L.size == G["size0"] - len(L.buf), L.size >= 0)


def heap_read_block(L):
    G = ghost()
    G["inb"] = sym_bytes("inb_at_loop")
    return None


def setup_reader(ip, unit):
    ip.loop_specs[("sievelib.managesieve", "Client.__read_block", 0)] = LoopSpec(
        inv_read_block, havoc={"buf": "bytes", "size": "int", "nval": "bytes"}, heap=heap_read_block, header="size",
        decreases=dec_read_block)
    ip.loop_specs[("sievelib.managesieve", "Client.__read_line", 0)] = LoopSpec(
        inv_read_line, havoc={"ret": "bytes", "pos": "int", "nval": "bytes"}, heap=heap_read_line, header="True")


def dec_read_block(L):
    return L.size


def h_read_block():
    c = new_client()
    avail0 = fresh_state(c)
    size = sym_int("size")
    assume(size >= 0)
    G = ghost()
    G["size0"] = size
    kind = None
    r = None
    try:
        r = c._Client__read_block(size)
        kind = "return"
    except managesieve.Error:
        kind = "Error"
    if kind == "return":
        prove(len(r) == size, "R1.returns-exactly-size-bytes")
        prove(r + c._Client__read_buffer + G["inb"] == avail0, "R1.stream-conserved")
    else:
        prove(len(avail0) < size, "R1.Error-only-when-the-stream-is-exhausted")


# ---------------------------------------------------------------- R2

def inv_read_line(L):
    G = ghost()
    return both(L.self._Client__read_buffer + G["inb"] == G["avail0"], L.ret == b"")


def heap_read_line(L):
    G = ghost()
    G["inb"] = sym_bytes("inb_at_loop")
    L.self._Client__read_buffer = sym_bytes("buffer_at_loop")
    return None


def k_parse_error_noop(ip, args, kwargs):
    """R2 only: __parse_error is verified separately (R4); here it records its argument and consumes nothing"""
    G = core.cur().ghost
    G.setdefault("parse_error_calls", []).append(args[1])
    return None


def k_pattern_match_recording(ip, args, kwargs):
    """ghost assertion at the first classification point of __read_line: the text being classified is the first
    line of the stream and the rest of the stream is still unread (checked here, before the path condition fills
    up with the regex decomposition, which is irrelevant to it)"""
    from pyvc import rx
    G = core.cur().ghost
    pat = args[0]
    subj = args[1]
    if not G.get("match_subjects") and G.get("read_line_self") is not None:
        c = G["read_line_self"]
        S = sym.to_z3str(G["avail0"])
        crlf = core.strval("\r\n")
        i = z3.IndexOf(S, crlf, 0)
        core.prove(i >= 0, "R2.a-result-needs-a-complete-line")
        core.prove(sym.to_z3str(subj) == z3.SubString(S, 0, i), "R2.classified-text-is-the-first-line")
        rest = z3.Concat(sym.to_z3str(getattr(c, "_Client__read_buffer")), sym.to_z3str(G["inb"]))
        core.prove(rest == z3.SubString(S, i + 2, z3.Length(S) - i - 2), "R2.rest-of-stream-stays-unread")
    G.setdefault("match_subjects", []).append((pat.pattern, subj))
    return rx.pattern_method(ip, pat, "match", list(args[1:]), kwargs)


def setup_read_line(ip, unit):
    setup_reader(ip, unit)
    ip.name_contracts[("sievelib.managesieve", "Client.__parse_error")] = k_parse_error_noop
    ip.fn_contracts[("re.Pattern", "match")] = k_pattern_match_recording


def h_read_line():
    """__read_line: with S the unread stream and i its first CRLF, the line examined is S[:i] and S[i+2:] stays
    unread; Error only if S holds no complete line."""
    c = new_client()
    S = fresh_state(c)
    G = ghost()
    G["match_subjects"] = []
    G["read_line_self"] = c
    kind = None
    r = None
    e = None
    try:
        r = c._Client__read_line()
        kind = "return"
    except managesieve.Literal as x:
        kind = "Literal"
        e = x
    except managesieve.Response as x:
        kind = "Response"
        e = x
    except managesieve.Error:
        kind = "Error"
    subj = G["match_subjects"]
    if len(subj) > 0:
        # classified: the three stream obligations were discharged at the classification point (ghost assertion)
        if kind == "return":
            prove(r == subj[0][1], "R2.returned-line-is-the-classified-line")
    else:
        has_line = CRLF in S
        if kind == "Error":
            prove(not has_line, "R2.Error-only-when-no-complete-line")
            return
        prove(has_line, "R2.a-result-needs-a-complete-line")
        if not has_line:
            return
        i = S.index(CRLF)
        prove(kind == "return" and r == b"" and i == 0, "R2.only-the-empty-line-is-unclassified")
        prove(c._Client__read_buffer + G["inb"] == S[2:], "R2.rest-of-stream-stays-unread")
    if kind == "Literal":
        prove(len(subj) == 1, "R2.literal-decided-by-size-pattern-alone")
    if kind == "Response":
        prove(e.code == b"OK" or e.code == b"NO", "R2.response-code")


# ---------------------------------------------------------------- summaries of R1 / R2 for the callers (R3, replies)
# The unread stream is represented by its concatenation `avail` alone (kept in __read_buffer, inb = b""): by R1/R2
# both readers are functions of avail, and by the frame scan C05.F nothing else reads the buffer or the socket.

def summary_read_line_loop(L):
    """effect of the `while True` loop of __read_line, proved by R2: ret = first line, the rest stays unread;
    Error when the stream holds no complete line"""
    c = L.self
    S = c._Client__read_buffer + ghost()["inb"]
    sp = structural_first_line(S)
    if sp is not None:
        # shaped stream: the first CRLF is found on the structure (exact)
        if sp is False:
            c._Client__read_buffer = b""
            ghost()["inb"] = b""
            raise managesieve.Error("Failed to read data from the server")
        L.ret = sp[0]
        c._Client__read_buffer = sp[1]
        ghost()["inb"] = b""
        return None
    if CRLF not in S:
        c._Client__read_buffer = b""
        ghost()["inb"] = b""
        raise managesieve.Error("Failed to read data from the server")
    i = S.index(CRLF)
    L.ret = S[:i]
    c._Client__read_buffer = S[i + 2:]
    ghost()["inb"] = b""
    return None


@native
def structural_first_line(S):
    """(line, rest) around the first CRLF of a shaped stream; False if it certainly has none; None if undecided"""
    from pyvc import shape
    if isinstance(S, bytes):
        k = S.find(b"\r\n")
        return False if k < 0 else (S[:k], S[k + 2:])
    ps = shape.pieces_of(S.t)
    if ps is None:
        return None
    r = shape.split_first(ps, "\r\n")
    if r is shape.UNKNOWN:
        return None
    if r is None:
        return False
    return (mkstr(shape.concat(r[0]), True), mkstr(shape.concat(r[1]), True))


def k_read_block_summary(ip, args, kwargs):
    """contract of __read_block proved by R1"""
    c, size = args[0], args[1]
    G = core.cur().ghost
    S = sym.to_z3str(getattr(c, "_Client__read_buffer"))
    inb = G["inb"]
    if not (isinstance(inb, bytes) and inb == b""):
        S = z3.Concat(S, sym.to_z3str(inb))
    n = sym.to_z3int(size)
    core.prove(n >= 0, "R1.precondition.size-nonnegative")
    if not core.branch(z3.Length(S) >= n):
        setattr(c, "_Client__read_buffer", b"")
        G["inb"] = b""
        raise managesieve.Error("Failed to read bytes from the server")
    G["inb"] = b""
    G.setdefault("blocks", []).append(size)
    sp = structural_prefix(S, n)
    if sp is not None:
        # shaped stream and a count that provably ends at a piece boundary: the block and the rest are those pieces
        core.prove(z3.And(z3.Length(sp[0]) == n, z3.Concat(sp[0], sp[1]) == S), "R1.structural-block-is-the-first-n-octets")
        setattr(c, "_Client__read_buffer", mkstr(sp[1], True))
        return mkstr(sp[0], True)
    setattr(c, "_Client__read_buffer", mkstr(z3.SubString(S, n, z3.Length(S) - n), True))
    return mkstr(z3.SubString(S, 0, n), True)


def structural_prefix(S, n):
    """(first n octets, rest) of a shaped stream as concatenations of its own pieces, when the path condition entails
    that n is the length of a prefix of pieces (cut inside a constant piece allowed); None otherwise"""
    from pyvc import shape
    p = core.cur()
    ps = shape.pieces_of(S)
    if core.TRACE:
        print("[pyvc] structural_prefix pieces", ps, "n =", str(z3.simplify(n))[:200], flush=True)
    if ps is None or not any(pc.const is None for pc in ps):
        return None
    acc = z3.IntVal(0)
    for j, pc in enumerate(ps):
        if pc.const is None:
            if shape._entails(p, n == acc):
                return (shape.concat(ps[:j]), shape.concat(ps[j:]))
            acc = acc + z3.Length(pc.term)
            continue
        L = len(pc.const)
        if not shape._entails(p, z3.Not(z3.And(n >= acc, n < acc + L))):
            for o in range(L):
                if shape._entails(p, n == acc + o):
                    head = ps[:j] + ([shape.Piece(const=pc.const[:o])] if o else [])
                    tail = [shape.Piece(const=pc.const[o:])] + ps[j + 1:]
                    return (shape.concat(head), shape.concat(tail))
            return None
        acc = acc + L
    if shape._entails(p, n == acc):
        return (shape.concat(ps), strval(""))
    return None


def setup_summaries(ip, unit):
    from pyvc.interp import LoopSummary
    ip.loop_specs[("sievelib.managesieve", "Client.__read_line", 0)] = LoopSummary(
        summary_read_line_loop, header="True", proved_by="C05.R2")
    ip.name_contracts[("sievelib.managesieve", "Client.__read_block")] = k_read_block_summary


# ---------------------------------------------------------------- R3: __read_response over the contracts of R1 / R2

def k_read_line_abstract(ip, args, kwargs):
    """contract of __read_line as its caller sees it (proved by R2 + the classification code): one of
    data line | Literal(n) | Response(OK/NO, text) | Error; ghost: the event is appended to the consumption log"""
    G = core.cur().ghost
    core.prove(not G.get("response_seen", False), "R3.no-read-after-the-status-line")
    core.prove(G.get("pending_literal") is None, "R3.announced-literal-is-read-before-the-next-line")
    if core.branch(sym.fresh_bool("line_is_error").t):
        raise managesieve.Error("Failed to read data from the server")
    after_block = G.get("after_block", False)
    G["after_block"] = False
    if (core.branch(after_block.t) if isinstance(after_block, sym.SBool) else after_block):
        # conforming server (RFC 5804 section 4): the octets of a literal are followed by SP or CRLF, so what is left
        # of that line is data (possibly empty), never a status line or another size line
        G["events"].append("rest-of-literal-line")
        return sym.fresh_str("rest_of_literal_line", True, register=False)
    if core.branch(sym.fresh_bool("line_is_status").t):
        G["response_seen"] = True
        G["events"].append("status")
        code = b"OK" if core.branch(sym.fresh_bool("status_ok").t) else b"NO"
        raise managesieve.Response(code, sym.fresh_str("status_text", True, register=False))
    if core.branch(sym.fresh_bool("line_is_literal").t):
        n = sym.fresh_int("literal_size", register=False)
        core.assume(n.t >= 0)
        G["pending_literal"] = n
        G["events"].append("literal")
        raise managesieve.Literal(n)
    G["events"].append("line")
    return sym.fresh_str("data_line", True, register=False)


def k_read_block_abstract(ip, args, kwargs):
    G = core.cur().ghost
    size = args[1]
    pend = G.get("pending_literal")
    core.prove(pend is not None, "R3.blocks-are-read-only-for-an-announced-literal")
    if pend is not None:
        core.prove(sym.to_z3int(size) == pend.t, "R3.literal-read-with-exactly-the-announced-count")
    G["pending_literal"] = None
    G["after_block"] = True
    G["events"].append("block")
    if core.branch(sym.fresh_bool("block_is_error").t):
        raise managesieve.Error("Failed to read bytes from the server")
    r = sym.fresh_str("block", True, register=False)
    core.assume(z3.Length(r.t) == sym.to_z3int(size))
    return r


def inv_read_response(L):
    G = ghost()
    return both(neg(G.get("response_seen", False)), G.get("pending_literal") is None)


def heap_read_response(L):
    # ghost written by the loop body: whether the previous item was a literal block whose line is not finished yet
    ghost()["after_block"] = sym_bool("after_block_at_loop_head")
    return None


def setup_read_response(ip, unit):
    ip.name_contracts[("sievelib.managesieve", "Client.__read_line")] = k_read_line_abstract
    ip.name_contracts[("sievelib.managesieve", "Client.__read_block")] = k_read_block_abstract
    ip.loop_specs[("sievelib.managesieve", "Client.__read_response", 0)] = LoopSpec(
        inv_read_response, havoc={"resp": "bytes", "code": lambda n: None, "data": lambda n: None, "cpt": "int", "line": "bytes",
                                  "inst": lambda n: None}, heap=heap_read_response, header="True")


def h_read_response(with_nblines):
    """__read_response stops reading exactly at the status line (or after nblines data lines), reads an announced literal
    with exactly the announced count before anything else, and returns the status it saw"""
    c = new_client()
    G = ghost()
    G["events"] = []
    G["response_seen"] = False
    G["pending_literal"] = None
    nbl = sym_int("nblines") if with_nblines else -1
    if with_nblines:
        assume(nbl >= 1)
    kind = None
    r = None
    try:
        r = c._Client__read_response(nbl)
        kind = "return"
    except managesieve.Error:
        kind = "Error"
    except Exception as e:
        kind = "crash"
        note("exception", type(e).__name__)
    prove(kind != "crash", "R3.only-Error-escapes")
    if kind == "return":
        prove(G["pending_literal"] is None, "R3.no-announced-literal-left-unread")
        if not with_nblines:
            prove(G["response_seen"], "R3.returns-only-after-a-status-line")
            prove(r[0] == b"OK" or r[0] == b"NO", "R3.returns-the-status")
