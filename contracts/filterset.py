"""C12: FiltersSet editing operations against the ordered, uniquely named list they are meant to be.

The set is built with a CONCRETE number n of filters (n = 0..N, bounded in length and labelled so) but SYMBOLIC
names (pairwise distinct: the representation invariant wf), symbolic enabled flags, and a symbolic target name, so
every aliasing pattern between the argument and the stored names is covered.  Contents are real Command objects built
through the real factory; a disabled filter's content is the real `if false { inner }` wrapper.
"""
from pyvc.api import (native, sym_str, sym_bool, sym_int, opaque, prove, assume, note, implies, both, either, neg, same)
from sievelib import commands, factory

OPS = ["filter_exists", "addfilter", "updatefilter", "replacefilter", "replacefilter_with_description", "getfilter", "removefilter",
       "enablefilter", "disablefilter", "is_filter_disabled", "movefilter_up", "movefilter_down"]


@native
def fresh_content():
    fs = factory.FiltersSet("scratch")
    return fs._FiltersSet__create_filter([("Subject", ":is", "x")], [("keep",)])


@native
def wrap_disabled(inner):
    ifc = commands.get_command_instance("if")
    f = commands.get_command_instance("false", ifc)
    ifc.check_next_arg("test", f)
    ifc.addchild(inner)
    return ifc


@native
def disabled_shape(c):
    return isinstance(c, commands.IfCommand) and "test" in c.arguments and isinstance(c.arguments["test"], commands.FalseCommand)


def build(n):
    """-> (fs, names, flags, inners): wf set of n filters"""
    fs = factory.FiltersSet("set")
    names = []
    flags = []
    inners = []
    for i in range(n):
        nm = sym_str("name%d" % i)
        for other in names:
            assume(neg(nm == other))
        en = True if sym_bool("enabled%d" % i) else False
        inner = fresh_content()
        content = inner if en else wrap_disabled(inner)
        fs.filters += [{"name": nm, "content": content, "enabled": en, "description": sym_str("description%d" % i)}]
        names.append(nm)
        flags.append(en)
        inners.append(inner)
    return (fs, names, flags, inners)


def view(fs):
    return [(f["name"], f["enabled"], f["content"], f.get("description")) for f in fs.filters]


def index_of(names, target):
    """position of target among names, or -1 (forks)"""
    k = -1
    for i in range(len(names)):
        if k == -1 and names[i] == target:
            k = i
    return k


def check_wf(fs, label):
    v = view(fs)
    for i in range(len(v)):
        for j in range(i):
            prove(neg(v[i][0] == v[j][0]), label + ".names-stay-unique")
        prove(v[i][1] is (not disabled_shape(v[i][2])), label + ".flag-agrees-with-content-shape")
        ren = fs.is_filter_disabled(v[i][0])
        prove(ren is (not v[i][1]), label + ".is_filter_disabled-agrees-with-flag")


def same_view(v1, v0):
    if len(v1) != len(v0):
        return False
    ok = True
    for i in range(len(v0)):
        ok = ok and same(v1[i][0], v0[i][0]) and (v1[i][1] is v0[i][1]) and (v1[i][2] is v0[i][2]) and same(v1[i][3], v0[i][3])
    return ok


def h_op(op, n):
    (fs, names, flags, inners) = build(n)
    target = sym_str("target")
    v0 = view(fs)
    k = index_of(names, target)
    kind = "return"
    r = None
    newname = None
    repl = None
    newdesc = None
    try:
        if op == "filter_exists":
            r = fs.filter_exists(target)
        elif op == "addfilter":
            r = fs.addfilter(target, [("Subject", ":is", "x")], [("keep",)])
        elif op == "updatefilter":
            newname = sym_str("newname")
            r = fs.updatefilter(target, newname, [("Subject", ":is", "y")], [("discard",)])
        elif op == "replacefilter":
            newname = sym_str("newname")
            repl = fresh_content()
            r = fs.replacefilter(target, repl, newname)
        elif op == "replacefilter_with_description":
            newname = sym_str("newname")
            repl = fresh_content()
            newdesc = sym_str("new_description")
            r = fs.replacefilter(target, repl, newname, newdesc)
            op = "replacefilter"
        elif op == "getfilter":
            r = fs.getfilter(target)
        elif op == "removefilter":
            r = fs.removefilter(target)
        elif op == "enablefilter":
            r = fs.enablefilter(target)
        elif op == "disablefilter":
            r = fs.disablefilter(target)
        elif op == "is_filter_disabled":
            r = fs.is_filter_disabled(target)
        elif op == "movefilter_up":
            r = fs.movefilter(target, "up")
        elif op == "movefilter_down":
            r = fs.movefilter(target, "down")
    except factory.FilterAlreadyExists:
        kind = "FilterAlreadyExists"
    v1 = view(fs)
    note(op, n, k, kind)
    unchanged = same_view(v1, v0)
    L = op + ".n%d" % n

    if op in ("filter_exists", "getfilter", "is_filter_disabled"):
        prove(unchanged and kind == "return", "pure.view-unchanged")
    if op == "filter_exists":
        prove(r is (k != -1), "filter_exists.value")
    elif op == "getfilter":
        if k == -1:
            prove(r is None, "getfilter.unknown-gives-None")
        else:
            prove(r is inners[k], "getfilter.returns-the-filters-own-content")
    elif op == "is_filter_disabled":
        if k == -1:
            prove(r is True, "is_filter_disabled.unknown")
        else:
            prove(r is (not flags[k]), "is_filter_disabled.agrees-with-flag")
    elif op == "addfilter":
        if k != -1:
            prove(kind == "FilterAlreadyExists" and unchanged, "addfilter.duplicate-raises-and-changes-nothing")
        else:
            prove(kind == "return" and len(v1) == n + 1 and same_view(v1[:n], v0), "addfilter.appends-at-the-end")
            if len(v1) == n + 1:
                prove(same(v1[n][0], target) and v1[n][1] is True and not disabled_shape(v1[n][2]), "addfilter.new-filter-enabled")
    elif op in ("updatefilter", "replacefilter"):
        if k == -1:
            prove(kind == "return" and r is False and unchanged, op + ".unknown-returns-False-and-changes-nothing")
        else:
            clash = False
            for i in range(n):
                if i != k and names[i] == newname:
                    clash = True
            if clash:
                prove(kind == "FilterAlreadyExists" and unchanged, op + ".name-clash-raises-and-changes-nothing")
            else:
                prove(kind == "return" and r is True and len(v1) == n, op + ".returns-True")
                if len(v1) == n:
                    for i in range(n):
                        if i != k:
                            prove(same(v1[i][0], v0[i][0]) and v1[i][1] is v0[i][1] and v1[i][2] is v0[i][2] and same(v1[i][3], v0[i][3]),
                                  op + ".others-untouched")
                    prove(same(v1[k][0], newname), op + ".renamed-in-place")
                    if newdesc is not None:
                        prove(same(v1[k][3], newdesc), op + ".description-replaced-when-given")
                    else:
                        prove(same(v1[k][3], v0[k][3]), op + ".description-kept-when-not-given")
                    prove(v1[k][1] is flags[k], op + ".enabled-status-kept")
                    prove(disabled_shape(v1[k][2]) is (not flags[k]), op + ".content-wrapped-iff-disabled")
                    if op == "replacefilter":
                        inner = v1[k][2] if flags[k] else v1[k][2].children[0]
                        prove(inner is repl, "replacefilter.content-is-the-given-filter")
    elif op == "removefilter":
        if k == -1:
            prove(r is False and unchanged, "removefilter.unknown-returns-False-and-changes-nothing")
        else:
            prove(r is True and len(v1) == n - 1, "removefilter.returns-True")
            if len(v1) == n - 1:
                prove(same_view(v1, v0[:k] + v0[k + 1:]), "removefilter.others-keep-their-order")
    elif op == "enablefilter":
        if k == -1 or flags[k]:
            prove(r is False and unchanged, "enablefilter.unknown-or-enabled-returns-False-and-changes-nothing")
        else:
            prove(r is True and len(v1) == n, "enablefilter.returns-True")
            if len(v1) == n:
                prove(v1[k][1] is True and v1[k][2] is inners[k] and same(v1[k][0], v0[k][0]), "enablefilter.unwraps-the-content")
                prove(same_view(v1[:k] + v1[k + 1:], v0[:k] + v0[k + 1:]), "enablefilter.others-untouched")
    elif op == "disablefilter":
        if k == -1:
            prove(r is False and unchanged, "disablefilter.unknown-returns-False-and-changes-nothing")
        else:
            prove(r is True and len(v1) == n, "disablefilter.returns-True")
            if len(v1) == n:
                prove(v1[k][1] is False and disabled_shape(v1[k][2]), "disablefilter.flag-and-shape")
                got = fs.getfilter(target)
                prove(got is inners[k], "disablefilter.getfilter-still-returns-the-own-content")
                prove(same_view(v1[:k] + v1[k + 1:], v0[:k] + v0[k + 1:]), "disablefilter.others-untouched")
    elif op in ("movefilter_up", "movefilter_down"):
        j = k - 1 if op == "movefilter_up" else k + 1
        if k == -1 or j < 0 or j >= n:
            prove(r is False and unchanged, "movefilter.unknown-or-at-the-end-returns-False-and-changes-nothing")
        else:
            prove(r is True and len(v1) == n, "movefilter.returns-True")
            if len(v1) == n:
                exp = list(v0)
                exp[k] = v0[j]
                exp[j] = v0[k]
                prove(same_view(v1, exp), "movefilter.swaps-with-exactly-one-neighbour")
    check_wf(fs, "wf")
