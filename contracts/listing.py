"""C17 (deductive part on shaped replies): listscripts and getscript run through the REAL __send_command /
__read_response / __read_line / __read_block code (reader loops replaced by their proven summaries), on replies of a
concrete shape with SYMBOLIC names / body lines.

  listing:  k lines, each  "name"  or  "name" ACTIVE  (name: any text without quote, backslash, CR, LF), then OK
  script:   {n} CRLF line1 CRLF ... linek CRLF CRLF OK   with arbitrary lines (no CR/LF inside a line) -- lines may look
            like OK / NO / BYE / {5} / "quoted": the point of C17 is that they are data
"""
import z3

from pyvc import core, sym
from pyvc.api import (native, sym_str, sym_bytes, sym_int, sym_bool, prove, assume, note, implies, both, either, neg, ghost, in_re)
from pyvc.core import strval
from sievelib import managesieve
from contracts.client import new_client, FakeSock
from contracts.wire import int_to_bytes

CRLF = b"\r\n"


@native
def re_name():
    safe = z3.Intersect(sym.re_char_not('\x00\r\n"\\'), z3.Range(strval("\x00"), strval("\xff")))
    return z3.Plus(safe)


@native
def re_line():
    anyb = z3.Intersect(sym.re_char_not("\r\n"), z3.Range(strval("\x00"), strval("\xff")))
    return z3.Star(anyb)


def setup(ip, unit):
    from contracts import reader
    reader.setup_summaries(ip, unit)


def h_listscripts(shape):
    """shape: tuple of 'plain' | 'active' per line"""
    c = new_client()
    G = ghost()
    c.authenticated = True
    c.sock = FakeSock(1, False)
    names = []
    listing = b""
    exp_active = None
    exp_names = []
    for i in range(len(shape)):
        n = sym_bytes("name%d" % i)
        assume(in_re(n, re_name()))
        names.append(n)
        try:
            text = n.decode("utf-8")
        except UnicodeDecodeError:
            return      # a name that is not UTF-8: outside the conforming-server assumption
        if shape[i] == "active":
            listing = listing + b'"' + n + b'" ACTIVE' + CRLF
            exp_active = text
        else:
            listing = listing + b'"' + n + b'"' + CRLF
            exp_names.append(text)
    reply = listing + b'OK "Listscripts completed."' + CRLF
    later = sym_bytes("bytes_of_the_next_reply")
    c._Client__read_buffer = reply + later
    G["inb"] = b""
    kind = "return"
    r = None
    try:
        r = c.listscripts()
    except managesieve.Error:
        kind = "Error"
    except UnicodeDecodeError:
        kind = "UnicodeDecodeError"
    prove(kind == "return", "L.listing-is-decoded")
    if kind != "return":
        return
    prove(c._Client__read_buffer == later, "L.reader-stops-at-the-end-of-the-reply")
    prove(len(r[1]) == len(exp_names), "L.number-of-inactive-names")
    if len(r[1]) == len(exp_names):
        for i in range(len(exp_names)):
            prove(r[1][i] == exp_names[i], "L.names-are-exactly-the-servers")
    if exp_active is None:
        prove(r[0] is None, "L.no-active-script-reported")
    else:
        prove(r[0] == exp_active, "L.active-script-is-the-marked-one")


def h_getscript(k):
    """a script of k arbitrary lines served as a literal comes back line by line, whatever the lines look like"""
    c = new_client()
    G = ghost()
    c.authenticated = True
    c.sock = FakeSock(1, False)
    lines = []
    body = b""
    exp = ""
    for i in range(k):
        l = sym_bytes("line%d" % i)
        assume(in_re(l, re_line()))
        lines.append(l)
        body = body + l + CRLF
        try:
            exp = exp + l.decode("utf-8") + ("\n" if i < k - 1 else "")
        except UnicodeDecodeError:
            return      # a body that is not UTF-8: outside the conforming-server assumption
    if k > 0:
        # bodies are compared ignoring trailing blank lines (the property's quantifier): the last line here is not blank
        assume(len(lines[k - 1]) > 0)
    reply = b"{" + int_to_bytes(len(body)) + b"}" + CRLF + body + CRLF + b'OK "Getscript completed."' + CRLF
    later = sym_bytes("bytes_of_the_next_reply")
    c._Client__read_buffer = reply + later
    G["inb"] = b""
    kind = "return"
    r = None
    try:
        r = c.getscript("x")
    except managesieve.Error:
        kind = "Error"
    except UnicodeDecodeError:
        kind = "UnicodeDecodeError"
    prove(kind == "return", "G.script-is-decoded")
    if kind != "return":
        return
    prove(c._Client__read_buffer == later, "G.reader-stops-at-the-end-of-the-reply")
    prove(r == exp, "G.every-line-comes-back-intact-even-if-it-looks-like-protocol")
