"""C20: custom commands registered with add_commands.

A *description* is a hashable tuple from which BOTH the args_definition handed to sievelib (documented format,
README.rst:49-70) and the independent frozen-style definition used by the specification automaton are built:
  (kind, ext, tags, positionals)
     kind   'action' | 'test'
     ext    None | capability
     tags   tuple of (name, (tag values...), param)   param: None | ('string'|'number'|'stringlist', values|None, only_for|None)
     positionals  tuple of (name, 'string'|'stringlist'|'number')
"""
import itertools
import random

from pyvc.api import native, sym_str, sym_set, opaque, prove, assume, note, implies, both, either, neg
from sievelib import commands

_CACHE = {}


def class_name(desc):
    import hashlib
    return "X%s" % hashlib.sha256(repr(desc).encode()).hexdigest()[:8]


def make_custom(desc):
    if desc in _CACHE:
        return _CACHE[desc]
    kind, ext, tags, positionals = desc
    D = []
    tagged = []
    for (name, values, param) in tags:
        slot = {"name": name, "type": ["tag"], "values": list(values), "required": False}
        spec = {"name": name, "tags": {v: None for v in values}, "ext": None, "param": None}
        if param is not None:
            ptype, pvalues, only_for = param
            ea = {"type": {"string": "string", "number": "number", "stringlist": ["string", "stringlist"]}[ptype]}
            if pvalues:
                ea["values"] = list(pvalues)
            if only_for:
                ea["valid_for"] = list(only_for)
            slot["extra_arg"] = ea
            spec["param"] = {"type": ptype, "values": list(pvalues) if pvalues else None, "only_for": list(only_for) if only_for else None}
        D.append(slot)
        tagged.append(spec)
    pos = []
    for (name, ptype) in positionals:
        D.append({"name": name, "type": {"string": ["string"], "stringlist": ["string", "stringlist"], "number": ["number"]}[ptype],
                  "required": True})
        pos.append({"name": name, "type": ptype, "values": None, "optional": False})
    base = commands.ActionCommand if kind == "action" else commands.TestCommand
    cname = class_name(desc).capitalize() + "Command"
    cls = type(cname, (base,), {"args_definition": D, "extension": ext, "__module__": "contracts.custom"})
    S = {"kind": kind, "ext": ext, "block": False, "follows": None, "tagged": tagged, "positional": pos}
    _CACHE[desc] = (cls, S)
    return _CACHE[desc]


def descriptions(tier, seed):
    """the documented shape: 0-4 optional tags (with or without a typed parameter, optionally restricted to a value set or
    valid only for some of the slot's tags) followed by 1-3 required arguments; action or test; with or without extension"""
    params = [None, ("string", None, None), ("number", None, None), ("stringlist", None, None),
              ("string", ('"lo"', '"hi"'), None)]
    out = []
    tagpool = [("alpha", (":alpha",)), ("beta", (":beta", ":gamma")), ("delta", (":delta",)), ("eps", (":eps", ":zeta"))]
    pospool = [("first", "string"), ("second", "stringlist"), ("third", "number")]
    # systematic: one tag slot with every parameter form (+ valid_for on the two-tag slot), each positional count
    for (tname, tvals) in tagpool[:2]:
        for prm in params:
            variants = [prm]
            if prm is not None and len(tvals) == 2:
                variants.append((prm[0], prm[1], (tvals[1],)))
            for pv in variants:
                for npos in (1, 2, 3):
                    out.append(("action", None, ((tname, tvals, pv),), tuple(pospool[:npos])))
    out.append(("test", None, (), (("key", "stringlist"),)))
    out.append(("test", "xext", (("alpha", (":alpha",), None), ("beta", (":beta", ":gamma"), ("string", None, (":gamma",)))),
                (("a", "string"), ("b", "stringlist"))))
    rng = random.Random(seed or 1)
    n_random = 10 if tier == "quick" else 160
    for _ in range(n_random):
        nt = rng.randint(0, 4)
        tags = []
        for (tname, tvals) in rng.sample(tagpool, nt):
            prm = rng.choice(params)
            if prm is not None and len(tvals) == 2 and rng.random() < 0.5:
                prm = (prm[0], prm[1], (rng.choice(tvals),))
            tags.append((tname, tvals, prm))
        npos = rng.randint(1, 3)
        poss = tuple((n, rng.choice(["string", "stringlist", "number"])) for (n, _t) in pospool[:npos])
        out.append((rng.choice(["action", "test"]), rng.choice([None, "xext"]), tuple(tags), poss))
    seen = []
    for d in out:
        if d not in seen:
            seen.append(d)
    return seen


# ----------------------------------------------------------------------------- registration

class FoobarCommand(commands.ActionCommand):
    args_definition = [{"name": "x", "type": ["string"], "required": True}]


class Barbaz(commands.ActionCommand):
    args_definition = [{"name": "x", "type": ["string"], "required": True}]


class QuuxCommand(commands.TestCommand):
    args_definition = [{"name": "k", "type": ["string", "stringlist"], "required": True}]


def h_add_commands(as_list):
    """add_commands binds exactly the classes whose name ends in 'Command'; lookup finds a name iff it is bound"""
    before_f = "FoobarCommand" in vars(commands)
    prove(not before_f and "QuuxCommand" not in vars(commands) and "Barbaz" not in vars(commands), "R.precondition.names-unbound")
    commands.RequireCommand.loaded_extensions = []
    k0 = None
    try:
        commands.get_command_instance("foobar")
        k0 = "found"
    except commands.UnknownCommand:
        k0 = "unknown"
    prove(k0 == "unknown", "R.unregistered-name-is-unknown")
    if as_list:
        commands.add_commands([FoobarCommand, Barbaz, QuuxCommand])
    else:
        commands.add_commands(FoobarCommand)
    prove(vars(commands).get("FoobarCommand") is FoobarCommand, "R.registers-the-class")
    prove("Barbaz" not in vars(commands), "R.ignores-names-not-ending-in-Command")
    if as_list:
        prove(vars(commands).get("QuuxCommand") is QuuxCommand, "R.registers-every-class-of-a-list")
    inst = commands.get_command_instance("foobar")
    prove(type(inst) is FoobarCommand, "R.lookup-finds-the-registered-class")
    inst2 = commands.get_command_instance("FooBar")
    prove(type(inst2) is FoobarCommand, "R.lookup-is-case-insensitive")
    k1 = None
    try:
        commands.get_command_instance("barbaz")
        k1 = "found"
    except commands.UnknownCommand:
        k1 = "unknown"
    prove(k1 == "unknown", "R.other-names-stay-unknown")
