"""C04.S / C04.V: Command.tosieve writes exactly the command's tokens, values unchanged.

The real tosieve is executed on a command object of each class whose argument VALUES are symbolic strings
constrained to the token languages (quoted string, number); the recorded writes, with pure-white-space writes
dropped and constant white space around constant pieces stripped (re-indenting is not a violation), must be the
token sequence  name, [tag [parameter]]..., positionals..., ';' | '{' children '}'.
"""
import z3

from pyvc import core, sym, rx
from pyvc.api import (native, sym_str, sym_bool, opaque, prove, assume, note, implies, both, either, neg, in_re, same, is_symbolic)
from pyvc.sym import SStr
from sievelib import commands
from contracts import tables_frozen as frozen


class RecTarget:
    def __init__(self):
        self.pieces = []

    def write(self, s):
        self.pieces.append(s)
        return None


@native
def re_string_token():
    from sievelib.parser import Parser
    pat = dict((k.decode(), v) for k, v in Parser.lrules)["string"]
    # values are str (code points); the lexer sees their UTF-8 bytes, and every byte of a non-ASCII character is >= 0x80,
    # which the rule's negated classes admit: read the rule as a str pattern so that negated classes cover all code points
    root, info = rx.convert(pat.decode("latin-1"), 8)
    return rx.lang(root)


@native
def re_number_token():
    from sievelib.parser import Parser
    pat = dict((k.decode(), v) for k, v in Parser.lrules)["number"]
    root, info = rx.convert(pat, 8)
    return rx.lang(root)


@native
def separation_ok(pieces):
    """two consecutive writes that are both tokens must be separated by white space unless one is punctuation"""
    punct = set(";{}(),[]")
    prev = None      # previous non-white piece (raw)
    white_between = True
    for p in pieces:
        if isinstance(p, str) and p.strip() == "":
            if p != "":
                white_between = True
            continue
        if prev is not None and not white_between:
            a_const = isinstance(prev, str)
            b_const = isinstance(p, str)
            ok = (a_const and (prev[-1:].isspace() or prev.strip()[-1:] in punct)) or \
                 (b_const and (p[:1].isspace() or p.strip()[:1] in punct))
            if not ok:
                return False
        prev = p
        white_between = isinstance(p, str) and p[-1:].isspace()
    return True


@native
def normalise(pieces):
    """drop white-space-only writes; strip white space around CONSTANT pieces"""
    out = []
    for p in pieces:
        if isinstance(p, str):
            q = p.strip()
            if q:
                out.append(q)
        else:
            out.append(p)
    return out


@native
def re_multiline_token():
    """text: tokens as the lexer's multiline rule accepts them (LF form), read as a str pattern"""
    from sievelib.parser import Parser
    pat = dict((k.decode(), v) for k, v in Parser.lrules)["multiline"]
    root, info = rx.convert(pat.decode("latin-1"), 8)
    return rx.lang(root)


@native
def newline_follows(pieces, value):
    """the write(s) right after `value` begin with white space containing a newline (a text: block must end its line)"""
    for i, p in enumerate(pieces):
        if p is value:
            rest = "".join(q for q in pieces[i + 1:i + 3] if isinstance(q, str))
            j = 0
            while j < len(rest) and rest[j] in " \t":
                j += 1
            return rest[j:j + 1] == "\n"
    return False


MULTI = []


def sym_string_value(name):
    v = sym_str(name)
    if len(MULTI) > 0 and MULTI[0]:
        assume(in_re(v, re_multiline_token()))
        MULTI.append(v)
    else:
        assume(in_re(v, re_string_token()))
    return v


def h_tosieve(clsname, variant):
    """variant: 'all' (every tagged slot with its first tag + parameter, every positional), 'none' (positionals only),
    'lists' (string-list positionals/parameters given as 2-item lists)"""
    cls = getattr(commands, clsname)
    cmd = cls(None)
    S = frozen.COMMANDS[cmd.name]
    _tosieve_contract(cmd, S, variant)


def h_tosieve_custom(desc, variant):
    """the same serializer contract for a registered custom command built from the description tuple `desc` (C20)"""
    cls, S = _custom_class(desc)
    cmd = cls(None)
    _tosieve_contract(cmd, S, variant)


@native
def _custom_class(desc):
    from contracts import custom
    return custom.make_custom(desc)


def _tosieve_contract(cmd, S, variant):
    expected = [cmd.name]
    k = 0
    del MULTI[:]
    MULTI.append(variant == "multiline")
    if variant != "none":
        for t in S["tagged"]:
            tag = sorted(t["tags"].keys())[-1]
            cmd.arguments[t["name"]] = tag
            expected.append(tag)
            prm = t["param"]
            if prm is not None and (prm["only_for"] is None or tag in prm["only_for"]):
                if prm["type"] == "number":
                    v = sym_str("param%d" % k)
                    assume(in_re(v, re_number_token()))
                    cmd.extra_arguments[t["name"]] = v
                    expected.append(v)
                elif prm["type"] == "stringlist" and variant == "lists":
                    a = sym_string_value("param%d_a" % k)
                    b = sym_string_value("param%d_b" % k)
                    cmd.extra_arguments[t["name"]] = [a, b]
                    expected.append(("list", a, b))
                else:
                    v = sym_string_value("param%d" % k)
                    cmd.extra_arguments[t["name"]] = v
                    expected.append(v)
                k += 1
    child = None
    for p in S["positional"]:
        if p["optional"]:
            continue
        if p["type"] == "test":
            t = commands.TrueCommand(cmd)
            cmd.arguments[p["name"]] = t
            expected.append("true")
        elif p["type"] == "testlist":
            t1 = commands.TrueCommand(cmd)
            t2 = commands.FalseCommand(cmd)
            cmd.arguments[p["name"]] = [t1, t2]
            expected.append("(")
            expected.append("true")
            expected.append(",")
            expected.append("false")
            expected.append(")")
        elif p["type"] == "tag":
            cmd.arguments[p["name"]] = p["values"][0]
            expected.append(p["values"][0])
        elif p["type"] == "number":
            v = sym_str("pos%d" % k)
            assume(in_re(v, re_number_token()))
            cmd.arguments[p["name"]] = v
            expected.append(v)
            k += 1
        elif p["type"] == "stringlist" and variant == "lists":
            a = sym_string_value("pos%d_a" % k)
            b = sym_string_value("pos%d_b" % k)
            cmd.arguments[p["name"]] = [a, b]
            expected.append(("list", a, b))
            k += 1
        else:
            v = sym_string_value("pos%d" % k)
            cmd.arguments[p["name"]] = v
            expected.append(v)
            k += 1
    if S["block"]:
        ch = commands.StopCommand(cmd)
        cmd.children = [ch]
        expected.append("{")
        expected.append("stop")
        expected.append(";")
        expected.append("}")
    elif S["kind"] != "test":
        expected.append(";")
    target = RecTarget()
    cmd.tosieve(target=target)
    got = normalise(target.pieces)
    prove(separation_ok(target.pieces), "S.tokens-are-separated-by-white-space")
    for mv in MULTI[1:]:
        prove(newline_follows(target.pieces, mv), "S.multi-line-value-is-followed-by-a-newline")
    prove(len(got) == len(expected), "S.same-number-of-tokens")
    if len(got) != len(expected):
        note("got", len(got), "expected", len(expected))
        return
    for i in range(len(expected)):
        e = expected[i]
        if isinstance(e, tuple):
            a = e[1]
            b = e[2]
            prove(either(got[i] == "[" + a + ", " + b + "]", got[i] == "[" + a + "," + b + "]"), "V.list-items-written-unchanged")
        else:
            prove(got[i] == e, "S.token-%s" % ("value-written-unchanged" if is_symbolic(e) else "name-or-tag-in-order"))
