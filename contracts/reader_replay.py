"""Native replays for the reader obligations: the real private functions on a socket delivering the model's chunks."""
import socket


class ChunkSock:
    def __init__(self, data, sizes):
        self.data = data
        self.sizes = list(sizes)

    def recv(self, n):
        if not self.data:
            raise socket.timeout("timed out")
        k = self.sizes.pop(0) if self.sizes else len(self.data)
        k = max(1, min(k, n, len(self.data)))
        out, self.data = self.data[:k], self.data[k:]
        return out

    def close(self):
        pass


def replay_read_block(unit, label, model):
    from sievelib import managesieve
    buf, inb, size = model.get("read_buffer", b""), model.get("inbound", b""), model.get("size", 0)
    worst = None
    for sizes in ([1] * 64, [2] * 64, [len(inb)]):
        c = managesieve.Client("x")
        setattr(c, "_Client__read_buffer", buf)
        c.sock = ChunkSock(inb, sizes)
        try:
            r = c._Client__read_block(size)
            outcome = "returned %r" % (r,)
            rest = getattr(c, "_Client__read_buffer") + c.sock.data
            bad = len(buf + inb) >= size and (len(r) != size or r + rest != buf + inb)
            bad = bad or (len(buf + inb) < size)
        except managesieve.Error as e:
            outcome = "Error(%s)" % e
            bad = len(buf + inb) >= size
        if bad:
            return {"confirmed": True, "outcome": outcome,
                    "detail": {"read_buffer": repr(buf), "inbound": repr(inb), "size": size, "recv_sizes": sizes[:4]}}
        worst = outcome
    return {"confirmed": False, "outcome": worst}


def replay_read_line(unit, label, model):
    from sievelib import managesieve
    buf, inb = model.get("read_buffer", b""), model.get("inbound", b"")
    S = buf + inb
    results = set()
    for sizes in ([1] * 256, [2] * 256, [3] * 256, [len(inb) or 1]):
        c = managesieve.Client("x")
        setattr(c, "_Client__read_buffer", buf)
        c.sock = ChunkSock(inb, sizes)
        try:
            r = ("return", c._Client__read_line())
        except managesieve.Literal as e:
            r = ("Literal", e.value)
        except managesieve.Response as e:
            r = ("Response", e.code, e.data)
        except managesieve.Error as e:
            r = ("Error",)
        except Exception as e:
            r = ("crash", type(e).__name__)
        rest = getattr(c, "_Client__read_buffer") + c.sock.data
        results.add((r, rest))
    i = S.find(b"\r\n")
    problems = []
    if len(results) > 1:
        problems.append("result depends on segmentation: %r" % (sorted(results, key=repr)[:2],))
    for (r, rest) in results:
        if i >= 0 and r[0] != "Error" and rest != S[i + 2:] and r[0] != "Response":
            problems.append("unread stream %r, expected %r" % (rest, S[i + 2:]))
    return {"confirmed": bool(problems), "outcome": repr(sorted(results, key=repr)[:1]), "detail": {"problems": problems[:2]}}
