"""C18.1 / C02.L2: Lexer.scan under contract.

The combined pattern's match is replaced by its contract (proved separately: props/lexfacts.py -- every alternative is
one whole named group, and no rule matches the empty string): a successful match at `pos` consumes k >= 1 bytes,
group(0) == group(lastgroup) == text[pos:pos+k].  The consumer of the generator (the parser) may leave `pos` alone
or rewind it by one byte (parser.py, __argument); that is its whole frame on the lexer (scanned under C13/C18)."""
import re

import z3

from pyvc import core, sym, rx
from pyvc.api import (native, sym_str, sym_bytes, sym_int, sym_bool, prove, assume, note, implies, both, either, neg, ghost)
from pyvc.interp import LoopSpec
from pyvc.sym import SStr, mkstr, mkint
from sievelib import parser as sparser


def k_pattern_match(ip, args, kwargs):
    pat = args[0]
    G = core.cur().ghost
    if pat.pattern == G.get("lexer_pattern"):
        text, pos = args[1], args[2]
        t = sym.to_z3str(text)
        p = sym.to_z3int(pos)
        if core.branch(sym.fresh_bool("no_rule_matches_here").t):
            return None
        k = sym.fresh_int("token_length", register=False)
        core.assume(z3.And(k.t >= 1, k.t <= z3.Length(t) - p))
        val = mkstr(z3.SubString(t, p, k.t), True)
        name = sym.fresh_str("rule_name", False, register=False)
        groups = {0: val}
        m = rx.SMatch(groups, mkint(p), mkint(p + k.t), True, {}, lastgroup=name)
        m.group_by_lastgroup = val
        return rx._MatchObj(m)
    return rx.pattern_method(ip, pat, "match", list(args[1:]), kwargs)


def inv_scan(L):
    return both(L.self.pos >= 0, L.self.pos <= len(L.text))


def heap_scan(L):
    L.self.pos = sym_int("pos_at_loop")
    return None


def setup_scan(ip, unit):
    ip.fn_contracts[("re.Pattern", "match")] = k_pattern_match
    ip.loop_specs[("sievelib.parser", "Lexer.scan", 0)] = LoopSpec(
        inv_scan, havoc={"m": lambda n: None, "token": "bytes"}, heap=heap_scan, header="self.pos < len(text)")
    ip.yield_handler = make_consumer(ip)


def make_consumer(ip):
    def consumer(value):
        G = core.cur().ghost
        lx = G["lexer"]
        text = G["text"]
        ttype, tvalue = value
        pos = lx.pos
        t = sym.to_z3str(text)
        p = sym.to_z3int(pos)
        core.prove(z3.And(p >= 0, p < z3.Length(t)), "S1.token-starts-inside-the-text")
        core.prove(z3.Length(sym.to_z3str(tvalue)) >= 1, "S1.token-is-not-empty")
        core.prove(sym.to_z3str(tvalue) == z3.SubString(t, p, z3.Length(sym.to_z3str(tvalue))),
                   "S1.yielded-value-is-the-text-at-pos")
        G["yields"] = G.get("yields", 0) + 1
        G["pos_at_yield"] = pos
        G["len_at_yield"] = mkint(z3.Length(sym.to_z3str(tvalue)))
        # the consumer's frame on the lexer: nothing, or a one-byte rewind (only ever after a token that is not the first)
        if core.branch(sym.fresh_bool("consumer_rewinds").t):
            core.assume(p >= 1)
            lx.pos = mkint(p - 1)
        return None
    consumer._pyvc_native = True
    return consumer


def h_scan():
    lx = sparser.Lexer(sparser.Parser.lrules)
    G = ghost()
    G["lexer_pattern"] = lx.regexp.pattern
    G["lexer"] = lx
    text = sym_bytes("text")
    G["text"] = text
    kind = None
    try:
        lx.scan(text)
        kind = "return"
    except sparser.ParseError as e:
        kind = "ParseError"
    except Exception as e:
        kind = "crash"
        note("exception", type(e).__name__)
    prove(kind != "crash", "S1.scan-raises-only-ParseError")
