"""C06 / C11 (deductive parts): quoting, require bookkeeping, rendering of a set."""
import z3

from pyvc import sym, rx
from pyvc.api import (native, sym_str, sym_bool, prove, assume, note, in_re, neg, implies, both, either, is_symbolic)
from pyvc.core import strval
from sievelib import commands, factory
from contracts.serializer import RecTarget, re_string_token


@native
def re_no_quote_no_backslash():
    first = sym.re_char_not('"\\\'')
    rest = sym.re_char_not('"\\')
    return z3.Union(z3.Re(strval("")), z3.Concat(first, z3.Star(rest)))


@native
def re_has_quote_or_backslash_inside():
    first = sym.re_char_not('"\'')
    anyc = z3.Range(strval("\x00"), strval(chr(0x2FFFF)))
    return z3.Concat(first, z3.Star(anyc), sym.re_chars('"\\'), z3.Star(anyc))


def h_quote(partition):
    """__quote_if_necessary(v) for v not starting with a quote character: a string token whose content is v"""
    fs = factory.FiltersSet("t")
    v = sym_str("value")
    if partition == "plain":
        assume(in_re(v, re_no_quote_no_backslash()))
    else:
        assume(in_re(v, re_has_quote_or_backslash_inside()))
    out = fs._FiltersSet__quote_if_necessary(v)
    prove(in_re(out, re_string_token()), "Q.result-is-one-string-token")
    if partition == "plain":
        prove(out == '"' + v + '"', "Q.content-is-the-value")


def h_require_bookkeeping():
    """require(name) adds the unquoted name once, keeps everything else; check_if_arg_is_extension maps :copy / :create"""
    fs = factory.FiltersSet("t")
    a = sym_str("existing")
    fs.requires = [a]
    n = sym_str("name")
    fs.require(n)
    un = n.strip('"')
    prove(fs.requires[0] == a, "H.require-keeps-earlier-entries")
    prove(un in fs.requires, "H.require-adds-the-name")
    prove(len(fs.requires) <= 2, "H.require-adds-at-most-one-entry")
    fs2 = factory.FiltersSet("t")
    fs2.check_if_arg_is_extension(":copy")
    fs2.check_if_arg_is_extension(":create")
    fs2.check_if_arg_is_extension(":flags")
    prove("copy" in fs2.requires and "mailbox" in fs2.requires, "R.copy-and-create-tags-add-their-capability")


def h_set_rendering(n, with_desc):
    """FiltersSet.tosieve: require line first (iff anything is required), then per filter, in order: marker+name line,
    description line iff non-empty, the content"""
    pre_n = sym_str("name_marker")
    pre_d = sym_str("desc_marker")
    fs = factory.FiltersSet("t", pre_n, pre_d)
    names = []
    descs = []
    for i in range(n):
        fs.addfilter("f%d" % i, [("Subject", ":is", "x")], [("fileinto", "F%d" % i)])
    for i in range(n):
        nm = sym_str("name%d" % i)
        fs.filters[i]["name"] = nm
        names.append(nm)
        if with_desc:
            d = sym_str("desc%d" % i)
            fs.filters[i]["description"] = d
            descs.append(d)
    target = RecTarget()
    fs.tosieve(target)
    text = ""
    for p in target.pieces:
        text = text + p
    # expected text, built from the parts
    exp = 'require ["fileinto"];\n\n' if n > 0 else ""
    for i in range(n):
        exp = exp + pre_n + names[i] + "\n"
        if with_desc:
            if len(descs[i]) > 0:
                exp = exp + pre_d + descs[i] + "\n"
        exp = exp + 'if anyof (header :is "Subject" "x") {\n    fileinto "F%d";\n}\n' % i
    prove(text == exp, "W.rendering-is-require-then-each-filter-in-order-with-its-comments")
