"""C06 / C11 (deductive parts): quoting, require bookkeeping, rendering of a set."""
import z3

from pyvc import sym, rx
from pyvc.api import (native, sym_str, sym_bool, prove, assume, note, in_re, neg, implies, both, either, is_symbolic)
from pyvc.core import strval
from sievelib import commands, factory
from contracts.serializer import RecTarget, re_string_token


@native
def re_no_quote_no_backslash():
    first = sym.re_char_not('"\\\'')
    rest = sym.re_char_not('"\\')
    return z3.Union(z3.Re(strval("")), z3.Concat(first, z3.Star(rest)))


@native
def re_has_quote_or_backslash_inside():
    first = sym.re_char_not('"\'')
    anyc = z3.Range(strval("\x00"), strval(chr(0x2FFFF)))
    return z3.Concat(first, z3.Star(anyc), sym.re_chars('"\\'), z3.Star(anyc))


def h_quote(partition):
    """__quote_if_necessary(v) for v not starting with a quote character: a string token whose content is v"""
    fs = factory.FiltersSet("t")
    v = sym_str("value")
    if partition == "plain":
        assume(in_re(v, re_no_quote_no_backslash()))
    else:
        assume(in_re(v, re_has_quote_or_backslash_inside()))
    out = fs._FiltersSet__quote_if_necessary(v)
    prove(in_re(out, re_string_token()), "Q.result-is-one-string-token")
    if partition == "plain":
        prove(out == '"' + v + '"', "Q.content-is-the-value")


def h_require_bookkeeping():
    """require(name) adds the unquoted name once, keeps everything else; check_if_arg_is_extension maps :copy / :create"""
    fs = factory.FiltersSet("t")
    a = sym_str("existing")
    fs.requires = [a]
    n = sym_str("name")
    fs.require(n)
    un = n.strip('"')
    prove(fs.requires[0] == a, "H.require-keeps-earlier-entries")
    prove(un in fs.requires, "H.require-adds-the-name")
    prove(len(fs.requires) <= 2, "H.require-adds-at-most-one-entry")
    fs2 = factory.FiltersSet("t")
    fs2.check_if_arg_is_extension(":copy")
    fs2.check_if_arg_is_extension(":create")
    fs2.check_if_arg_is_extension(":flags")
    prove("copy" in fs2.requires and "mailbox" in fs2.requires, "R.copy-and-create-tags-add-their-capability")


def h_set_rendering(n, with_desc):
    """FiltersSet.tosieve: require line first (iff anything is required), then per filter, in order: marker+name line,
    description line iff non-empty, the content"""
    pre_n = sym_str("name_marker")
    pre_d = sym_str("desc_marker")
    fs = factory.FiltersSet("t", pre_n, pre_d)
    names = []
    descs = []
    for i in range(n):
        fs.addfilter("f%d" % i, [("Subject", ":is", "x")], [("fileinto", "F%d" % i)])
    for i in range(n):
        nm = sym_str("name%d" % i)
        fs.filters[i]["name"] = nm
        names.append(nm)
        if with_desc:
            d = sym_str("desc%d" % i)
            fs.filters[i]["description"] = d
            descs.append(d)
    target = RecTarget()
    fs.tosieve(target)
    text = ""
    for p in target.pieces:
        text = text + p
    # expected text, built from the parts
    exp = 'require ["fileinto"];\n\n' if n > 0 else ""
    for i in range(n):
        exp = exp + pre_n + names[i] + "\n"
        if with_desc:
            if len(descs[i]) > 0:
                exp = exp + pre_d + descs[i] + "\n"
        exp = exp + 'if anyof (header :is "Subject" "x") {\n    fileinto "F%d";\n}\n' % i
    prove(text == exp, "W.rendering-is-require-then-each-filter-in-order-with-its-comments")


# ---------------------------------------------------------------- C06.G: the script generated for each supported form

GEN_CONDITIONS = ["header:is", "header:notcontains", "header-list", "exists", "exists-many", "notexists", "size", "envelope", "envelope-list",
                  "address", "address-list", "body", "body-not", "currentdate", "currentdate-value", "true", "two-allof"]
GEN_ACTIONS = ["fileinto", "fileinto-copy", "fileinto-create", "fileinto-copy-create", "fileinto-flags", "redirect", "redirect-copy",
               "reject", "keep", "discard", "stop", "setflag", "addflag", "removeflag", "vacation", "vacation-subject", "vacation-days",
               "vacation-seconds", "vacation-from", "vacation-addresses", "vacation-handle", "vacation-mime", "two-actions"]


@native
def re_plain_value():
    first = sym.re_char_not('",\\:\'[')
    rest = sym.re_char_not('",\\')
    return z3.Union(z3.Re(strval("")), z3.Concat(first, z3.Star(rest)))


def _q(v):
    return '"' + v + '"'


def h_generated_script(side, kind):
    """the text FiltersSet writes for one filter of the given form with SYMBOLIC values (no quote, backslash, comma) equals
    the RFC 5228 / extension-RFC script for that form: the `require` line names exactly the capabilities the form needs,
    then the marker comment, then `if <matchtype> (<tests>) { <actions> }` with every value as one quoted string"""
    v = sym_str("value")
    w = sym_str("other_value")
    assume(in_re(v, re_plain_value()))
    assume(in_re(w, re_plain_value()))
    conds = [("Subject", ":is", "x")]
    acts = [("keep",)]
    mt = "anyof"
    test = 'header :is "Subject" "x"'
    body = "    keep;\n"
    req = []
    if side == "condition":
        if kind == "header:is":
            conds = [("X-Tag", ":is", v)]
            test = 'header :is "X-Tag" ' + _q(v)
        elif kind == "header:notcontains":
            conds = [("X-Tag", ":notcontains", v)]
            test = 'not header :contains "X-Tag" ' + _q(v)
        elif kind == "header-list":
            conds = [(["To", "Cc"], ":contains", [v, w])]
            test = 'header :contains ["To", "Cc"] [' + _q(v) + ", " + _q(w) + "]"
        elif kind == "exists":
            conds = [("exists", v)]
            test = "exists [" + _q(v) + "]"
        elif kind == "exists-many":
            conds = [("exists", v, w)]
            test = "exists [" + _q(v) + "," + _q(w) + "]"
        elif kind == "notexists":
            conds = [("notexists", v)]
            test = "not exists [" + _q(v) + "]"
        elif kind == "size":
            conds = [("size", ":over", "100K")]
            test = "size :over 100K"
        elif kind == "envelope":
            conds = [("envelope", ":is", ["from"], [v])]
            test = 'envelope :is ["from"] [' + _q(v) + "]"
            req = ["envelope"]
        elif kind == "envelope-list":
            conds = [("envelope", ":contains", ["from", "to"], [v, w])]
            test = 'envelope :contains ["from","to"] [' + _q(v) + "," + _q(w) + "]"
            req = ["envelope"]
        elif kind == "address":
            conds = [("address", ":is", "from", v)]
            test = 'address :is "from" ' + _q(v)
        elif kind == "address-list":
            conds = [("address", ":contains", ["from", "to"], [v, w])]
            test = 'address :contains ["from","to"] [' + _q(v) + "," + _q(w) + "]"
        elif kind == "body":
            conds = [("body", ":raw", ":contains", v)]
            test = "body :contains :raw [" + _q(v) + "]"
            req = ["body"]
        elif kind == "body-not":
            conds = [("body", ":text", ":notcontains", v, w)]
            test = "not body :contains :text [" + _q(v) + "," + _q(w) + "]"
            req = ["body"]
        elif kind == "currentdate":
            conds = [("currentdate", ":zone", "+0100", ":is", "date", v)]
            test = 'currentdate :zone "+0100" :is "date" [' + _q(v) + "]"
            req = ["date"]
        elif kind == "currentdate-value":
            conds = [("currentdate", ":zone", "+0100", ":value", "gt", "date", v)]
            test = 'currentdate :zone "+0100" :value "gt" "date" [' + _q(v) + "]"
            req = ["date", "relational"]
        elif kind == "true":
            conds = [("true",)]
            test = "true"
        else:
            conds = [("X-Tag", ":matches", v), ("exists", w)]
            mt = "allof"
            test = 'header :matches "X-Tag" ' + _q(v) + ", exists [" + _q(w) + "]"
    else:
        if kind == "fileinto":
            acts, body, req = [("fileinto", v)], "    fileinto " + _q(v) + ";\n", ["fileinto"]
        elif kind == "fileinto-copy":
            acts, body, req = [("fileinto", ":copy", v)], "    fileinto :copy " + _q(v) + ";\n", ["fileinto", "copy"]
        elif kind == "fileinto-create":
            acts, body, req = [("fileinto", ":create", v)], "    fileinto :create " + _q(v) + ";\n", ["fileinto", "mailbox"]
        elif kind == "fileinto-copy-create":
            acts, body, req = [("fileinto", ":copy", ":create", v)], "    fileinto :copy :create " + _q(v) + ";\n", ["fileinto", "copy", "mailbox"]
        elif kind == "fileinto-flags":
            acts, body, req = [("fileinto", ":flags", [v, "\\Seen"], w)], "    fileinto :flags [" + _q(v) + ', "\\Seen"] ' + _q(w) + ";\n", ["fileinto", "imap4flags"]
        elif kind == "redirect":
            acts, body = [("redirect", v)], "    redirect " + _q(v) + ";\n"
        elif kind == "redirect-copy":
            acts, body, req = [("redirect", ":copy", v)], "    redirect :copy " + _q(v) + ";\n", ["copy"]
        elif kind == "reject":
            acts, body, req = [("reject", v)], "    reject " + _q(v) + ";\n", ["reject"]
        elif kind == "keep":
            acts, body = [("keep",)], "    keep;\n"
        elif kind == "discard":
            acts, body = [("discard",)], "    discard;\n"
        elif kind == "stop":
            acts, body = [("stop",)], "    stop;\n"
        elif kind in ("setflag", "addflag", "removeflag"):
            acts, body, req = [(kind, v)], "    " + kind + " " + _q(v) + ";\n", ["imap4flags"]
        elif kind == "vacation":
            acts, body, req = [("vacation", v)], "    vacation " + _q(v) + ";\n", ["vacation"]
        elif kind == "vacation-subject":
            acts, body, req = [("vacation", ":subject", v, w)], "    vacation :subject " + _q(v) + " " + _q(w) + ";\n", ["vacation"]
        elif kind == "vacation-days":
            acts, body, req = [("vacation", ":days", 7, v)], "    vacation :days 7 " + _q(v) + ";\n", ["vacation"]
        elif kind == "vacation-seconds":
            acts, body, req = [("vacation", ":seconds", 600, v)], "    vacation :seconds 600 " + _q(v) + ";\n", ["vacation", "vacation-seconds"]
        elif kind == "vacation-from":
            acts, body, req = [("vacation", ":from", v, w)], "    vacation :from " + _q(v) + " " + _q(w) + ";\n", ["vacation"]
        elif kind == "vacation-addresses":
            acts, body, req = [("vacation", ":addresses", [v, w], "reason")], "    vacation :addresses [" + _q(v) + ", " + _q(w) + '] "reason";\n', ["vacation"]
        elif kind == "vacation-handle":
            acts, body, req = [("vacation", ":handle", v, w)], "    vacation :handle " + _q(v) + " " + _q(w) + ";\n", ["vacation"]
        elif kind == "vacation-mime":
            acts, body, req = [("vacation", ":mime", v)], "    vacation :mime " + _q(v) + ";\n", ["vacation"]
        else:
            acts, body, req = [("fileinto", v), ("redirect", w)], "    fileinto " + _q(v) + ";\n    redirect " + _q(w) + ";\n", ["fileinto"]
    fs = factory.FiltersSet("t")
    fs.addfilter("rule", conds, acts, mt)
    target = RecTarget()
    fs.tosieve(target)
    text = ""
    for p in target.pieces:
        text = text + p
    exp = ""
    if len(req) > 0:
        exp = "require [" + ", ".join(['"' + r + '"' for r in req]) + "];\n\n"
    exp = exp + "# Filter: rule\nif " + mt + " (" + test + ") {\n" + body + "}\n"
    prove(text == exp, "G.generated-script-is-the-RFC-form-with-exactly-the-needed-requires")


# ---------------------------------------------------------------- C11.L: the loader (from_parser_result)

class ParsedStub:
    """what from_parser_result needs of a Parser: the list of top-level commands with their hash comments"""

    def __init__(self, result):
        self.result = result


def h_loader(shape):
    """FiltersSet.from_parser_result on a parse result whose top-level commands carry the comments tosieve writes
    (marker + name, marker + description) with SYMBOLIC names and descriptions (any text without the marker prefixes, as
    the property quantifies): names, descriptions, order and enabled status are recovered exactly; a command without a name comment gets
    `Unnamed rule N`.  shape: per command one of 'named' | 'named+desc' | 'anonymous' | 'disabled' | 'other-comments'"""
    src = factory.FiltersSet("source")
    cmds = []
    names = []
    descs = []
    enabled = []
    for i in range(len(shape)):
        src.addfilter("f%d" % i, [("Subject", ":is", "x")], [("fileinto", "F%d" % i)])
        if shape[i] == "disabled":
            src.disablefilter("f%d" % i)
        cmd = src.filters[i]["content"]
        nm = sym_str("name%d" % i)
        ds = sym_str("description%d" % i)
        # the property quantifies over names / descriptions that do not contain the marker prefixes
        assume(neg("# Filter: " in nm))
        assume(neg("# Description: " in nm))
        assume(neg("# Filter: " in ds))
        assume(neg("# Description: " in ds))
        if shape[i] == "named" or shape[i] == "disabled":
            cmd.hash_comments = ["# Filter: " + nm]
            names.append(nm)
            descs.append("")
        elif shape[i] == "named+desc":
            cmd.hash_comments = ["# Filter: " + nm, "# Description: " + ds]
            names.append(nm)
            descs.append(ds)
        elif shape[i] == "other-comments":
            cmd.hash_comments = ["# something else", "# Filter: " + nm, "#Description: not a marker"]
            names.append(nm)
            descs.append("")
        else:
            cmd.hash_comments = []
            names.append("Unnamed rule %d" % (i + 1))
            descs.append("")
        enabled.append(shape[i] != "disabled")
        cmds.append(cmd)
    fs = factory.FiltersSet("loaded")
    fs.from_parser_result(ParsedStub(cmds))
    prove(len(fs.filters) == len(shape), "L.one-filter-per-top-level-command")
    if len(fs.filters) != len(shape):
        return
    for i in range(len(shape)):
        f = fs.filters[i]
        prove(f["name"] == names[i], "L.name-recovered-exactly")
        prove(f["description"] == descs[i], "L.description-recovered-exactly")
        prove(f["enabled"] == enabled[i] and f["content"] is cmds[i], "L.order-content-and-enabled-status-recovered")


def h_loader_requires(as_list):
    """the require command of a parsed script is turned back into the set's requirements (quotes stripped, order kept, no
    duplicates) and does not become a filter"""
    cap = sym_str("capability")
    assume(in_re(cap, re_no_quote_no_backslash()))
    req = commands.get_command_instance("require")
    if as_list:
        req.arguments["capabilities"] = ['"fileinto"', '"' + cap + '"', '"fileinto"']
    else:
        req.arguments["capabilities"] = '"' + cap + '"'
    src = factory.FiltersSet("source")
    src.addfilter("f", [("Subject", ":is", "x")], [("keep",)])
    cmd = src.filters[0]["content"]
    cmd.hash_comments = []
    fs = factory.FiltersSet("loaded")
    fs.from_parser_result(ParsedStub([req, cmd]))
    prove(len(fs.filters) == 1 and fs.filters[0]["content"] is cmd and fs.filters[0]["name"] == "Unnamed rule 1", "L.require-is-not-a-filter")
    if as_list:
        if cap == "fileinto":
            prove(fs.requires == ["fileinto"], "L.requirements-recovered-without-duplicates")
        else:
            prove(len(fs.requires) == 2 and fs.requires[0] == "fileinto" and fs.requires[1] == cap, "L.requirements-recovered-without-duplicates")
    else:
        prove(len(fs.requires) == 1 and fs.requires[0] == cap, "L.requirements-recovered-without-duplicates")
