"""ManageSieve client: ghost state, environment contracts, callee contracts and harnesses.

Ghost state (per path, `ghost()`):
  out          list of (connection id, tls?, payload) passed to socket.sendall, in order
  conn         id of the current connection (create_connection increments it)
  conn_auth    an AUTHENTICATE exchange on the *current* connection ended in OK
  tls          the current socket is the result of a successful wrap_socket
  starttls_requested
  log          list of ('cmd', verb, args, authenticated-at-call, conn_auth-at-call, tls-at-call)
  last_caps    {capability: (announced?, value)} of the latest __get_capabilities, last_caps_tls: tls at that time
"""
import base64
import inspect
import socket
import ssl

import z3

from pyvc import core, sym
from pyvc.api import (native, sym_str, sym_bytes, sym_int, sym_bool, sym_set, opaque, sdict, prove, assume, note, implies,
                      both, either, neg, ghost, same)
from pyvc.sym import SBool, SStr, SDict, mkbool
from sievelib import managesieve

SCRIPT_VERBS = ["HAVESPACE", "LISTSCRIPTS", "GETSCRIPT", "PUTSCRIPT", "CHECKSCRIPT", "DELETESCRIPT", "RENAMESCRIPT",
                "SETACTIVE"]
SCRIPT_METHODS = {"havespace": "HAVESPACE", "listscripts": "LISTSCRIPTS", "getscript": "GETSCRIPT",
                  "putscript": "PUTSCRIPT", "checkscript": "CHECKSCRIPT", "deletescript": "DELETESCRIPT",
                  "renamescript": "RENAMESCRIPT", "setactive": "SETACTIVE"}
KNOWN_CAPS = ["IMPLEMENTATION", "SASL", "SIEVE", "STARTTLS", "NOTIFY", "LANGUAGE", "VERSION"]


# ----------------------------------------------------------------------------- environment (interpreted models)

class FakeSock:
    """socket as seen by the client: sendall appends to the ghost outbound log of this connection."""

    def __init__(self, conn_id, tls):
        self.conn_id = conn_id
        self.tls = tls

    def settimeout(self, t):
        return None

    def sendall(self, data):
        G = ghost()
        G["out"].append((self.conn_id, self.tls, data))
        return None

    def close(self):
        return None


class FakeCtx:
    def load_cert_chain(self, certfile, keyfile=None):
        return None

    def wrap_socket(self, sock, server_hostname=None):
        G = ghost()
        if sym_bool("tls_handshake_fails"):
            raise ssl.SSLError("handshake failure")
        G["tls"] = True
        return FakeSock(sock.conn_id, True)


@native
def _fresh_bool(name):
    return sym.fresh_bool(name)


def k_create_connection(ip, args, kwargs):
    G = core.cur().ghost
    if core.branch(sym.fresh_bool("connect_refused").t):
        G["connection_refused"] = True
        raise socket.error("connection refused")
    G["conn"] = G.get("conn", 0) + 1
    G["conn_auth"] = False
    G["tls"] = False
    G["auth_started"] = False
    return FakeSock(G["conn"], False)


def k_create_default_context(ip, args, kwargs):
    return FakeCtx()


def k_b64encode(ip, args, kwargs):
    (x,) = args
    if isinstance(x, bytes):
        return base64.b64encode(x)
    r = sym.F_b64enc(x.t)
    p = core.cur()
    b64re = z3.Star(z3.Union(z3.Range(core.strval("A"), core.strval("Z")), z3.Range(core.strval("a"), core.strval("z")),
                             z3.Range(core.strval("0"), core.strval("9")), z3.Re(core.strval("+")),
                             z3.Re(core.strval("/")), z3.Re(core.strval("="))))
    p.add(z3.InRe(r, b64re))
    return SStr(r, True)


def k_b64decode(ip, args, kwargs):
    return sym.fresh_str("b64decoded", True, register=False)


def _truthy(v):
    if isinstance(v, SBool):
        return v.t
    return z3.BoolVal(bool(v))


def k_send_command(ip, args, kwargs):
    """Contract of Client.__send_command(name, args=None, withcontent=False, extralines=None, nblines=-1).

    requires (ghost): name in SCRIPT_VERBS => self.authenticated and conn_auth;
                      name == AUTHENTICATE and STARTTLS was requested => tls
    effect: one command appended to the ghost log; environment answers OK / NO / (Error: BYE or silence);
            AUTHENTICATE (or a continuation of it) answered OK sets conn_auth
    returns (code, data[, content]) with code in {"OK", "NO"} (None possible only when nblines != -1)
    """
    names = ["self", "name", "args", "withcontent", "extralines", "nblines"]
    vals = dict(zip(names, args))
    vals.update(kwargs)
    self = vals["self"]
    name = vals["name"]
    cargs = vals.get("args")
    withcontent = vals.get("withcontent", False)
    nblines = vals.get("nblines", -1)
    G = core.cur().ghost
    authed = self.authenticated
    conn_auth = G.get("conn_auth", False)
    if isinstance(name, str) and name in SCRIPT_VERBS:
        core.prove(_truthy(authed), "A1.script-verb-sent-only-when-authenticated")
        core.prove(_truthy(conn_auth), "A1.script-verb-sent-only-after-AUTHENTICATE-OK-on-this-connection")
    if isinstance(name, str) and name == "AUTHENTICATE":
        if G.get("starttls_requested", False) is not False:
            core.prove(z3.Implies(_truthy(G["starttls_requested"]), _truthy(G.get("tls", False))),
                       "T.no-AUTHENTICATE-before-TLS")
            lc = G.get("last_caps_tls", False)
            core.prove(z3.Implies(_truthy(G["starttls_requested"]), _truthy(lc)),
                       "T.capabilities-reread-after-handshake")
            caps = getattr(self, "_Client__capabilities")
            last = G.get("last_caps")
            if last is not None and isinstance(caps, SDict):
                ann, val = last["SASL"]
                e = caps.entries.get("SASL", [False, None])
                pres = e[0] if not isinstance(e[0], bool) else z3.BoolVal(e[0])
                ok = z3.And(pres == ann, z3.Implies(ann, sym.to_z3str(e[1]) == val.t if e[1] is not None else z3.BoolVal(False)))
                core.prove(z3.Implies(_truthy(G["starttls_requested"]), ok), "T.SASL-list-is-the-post-handshake-one")
        G["auth_started"] = True
    # a string argument that cannot be written as a quoted string (CR, LF, NUL) is refused before anything is sent (C08.W1)
    if cargs:
        from contracts import wire
        for a in cargs:
            if isinstance(a, (bytes, SStr)):
                t = sym.to_z3str(a)
                unsendable = z3.And(z3.Not(z3.InRe(t, wire.re_sizelike_prefix())), z3.InRe(t, wire.re_contains_crlfnul()))
                if core.branch(unsendable):
                    G["refused"] = True
                    raise managesieve.Error("CR, LF and NUL cannot be sent in a quoted string")
    G.setdefault("log", []).append(("cmd", name, cargs, authed, conn_auth, G.get("tls", False), vals.get("extralines")))
    # the environment's answer
    if core.branch(sym.fresh_bool("reply_is_bye_or_silence").t):
        raise managesieve.Error("Connection closed by server")
    none_ok = not (isinstance(nblines, int) and nblines == -1)
    if none_ok and core.branch(sym.fresh_bool("reply_has_no_status").t):
        code = None
    elif core.branch(sym.fresh_bool("reply_is_ok").t):
        code = "OK"
        if G.get("auth_started", False):
            G["conn_auth"] = True
    else:
        code = "NO"
        if G.get("auth_started", False) and isinstance(name, str) and name == "AUTHENTICATE":
            pass
    G.setdefault("codes", []).append(code)
    data = sym.fresh_str("reply_text", False, register=False)
    if withcontent:
        content = sym.fresh_str("reply_content", True, register=False)
        if code == "OK" and isinstance(name, str) and name == "GETSCRIPT":
            # conforming server (RFC 5804 2.9): OK to GETSCRIPT is preceded by the script literal and its CRLF
            core.assume(z3.Length(content.t) > 0)
        G["last_content"] = content
        return (code, data, content)
    return (code, data)


def k_get_capabilities(ip, args, kwargs):
    """Contract of Client.__get_capabilities (ASSUMED, see evidence): reads one capability listing; on NO returns
    False and changes nothing; otherwise each known capability the server announces is stored with its value,
    the others keep their previous entry; returns True."""
    self = args[0]
    G = core.cur().ghost
    if core.branch(sym.fresh_bool("capability_reply_is_bye_or_silence").t):
        raise managesieve.Error("Connection closed by server")
    if core.branch(sym.fresh_bool("capability_reply_is_no").t):
        return False
    old = getattr(self, "_Client__capabilities")
    new = SDict()
    last = {}
    for k in KNOWN_CAPS:
        ann = sym.fresh_bool("announced_" + k).t
        val = sym.fresh_str("capvalue_" + k, False)
        last[k] = (ann, val)
        if isinstance(old, SDict):
            e = old.entries.get(k, [False, None])
        else:
            e = [k in old, old.get(k)]
        op = e[0] if not isinstance(e[0], bool) else z3.BoolVal(e[0])
        if e[1] is None:
            ov = val.t
        else:
            ov = sym.to_z3str(e[1])
        new.entries[k] = [z3.simplify(z3.Or(ann, op)), SStr(z3.simplify(z3.If(ann, val.t, ov)), False)]
    setattr(self, "_Client__capabilities", new)
    G["last_caps"] = last
    G["last_caps_tls"] = G.get("tls", False)
    return True


def inv_true(L):
    return True


def _fresh_optional_str(name):
    if core.branch(sym.fresh_bool(name + "_is_none", register=False).t):
        return None
    return sym.fresh_str(name, False, register=False)


def _fresh_str_list(name):
    return sym.SSeq(z3.Const(core.cur().fresh_name(name), sym.SEQ_STR), False)


def k_re_match_abstract(ip, args, kwargs):
    """typestate proofs only: re.match(pattern, subject) over-approximated by `None or a match with arbitrary groups`"""
    import re as _re
    from pyvc import rx
    from pyvc.interp import contains_sym
    if not contains_sym(list(args)):
        return _re.match(*args, **kwargs)
    if core.branch(sym.fresh_bool("re_match_none", register=False).t):
        return None
    pat = _re.compile(args[0])
    isb = isinstance(args[0], bytes)
    groups = {i: sym.fresh_str("grp%d" % i, isb, register=False) for i in range(0, pat.groups + 1)}
    m = rx.SMatch(groups, 0, None, isb, {})
    return rx._MatchObj(m)


def setup_typestate(ip, unit):
    """callee / environment contracts for the typestate harnesses"""
    import re as _re
    from pyvc.interp import LoopSpec
    ip.fn_contracts[_re.match] = k_re_match_abstract
    ip.loop_specs[("sievelib.managesieve", "Client.listscripts", 0)] = LoopSpec(
        inv_true, havoc={"ret": _fresh_str_list, "active_script": _fresh_optional_str, "l": "bytes",
                         "m": lambda n: None, "script": "str"},
        header="listing.splitlines()")
    ip.fn_contracts[socket.create_connection] = k_create_connection
    ip.fn_contracts[ssl.create_default_context] = k_create_default_context
    ip.fn_contracts[base64.b64encode] = k_b64encode
    ip.fn_contracts[base64.b64decode] = k_b64decode
    ip.name_contracts[("sievelib.managesieve", "Client.__send_command")] = k_send_command
    ip.name_contracts[("sievelib.managesieve", "Client.__get_capabilities")] = k_get_capabilities


# ----------------------------------------------------------------------------- harness helpers

@native
def public_methods():
    """every public callable of Client, found by reflection (methods added later are included automatically)"""
    out = []
    for name, obj in vars(managesieve.Client).items():
        if callable(obj) and not name.startswith("_"):
            out.append(name)
    return sorted(out)


@native
def make_args(mname):
    """symbolic arguments for a public method, from its signature (through the decorator, if any)"""
    fn = vars(managesieve.Client)[mname]
    target = fn
    if fn.__closure__:
        for cell in fn.__closure__:
            try:
                if callable(cell.cell_contents):
                    target = cell.cell_contents
            except ValueError:
                pass
    sig = inspect.signature(target)
    args = []
    for pname, p in list(sig.parameters.items())[1:]:
        ann = p.annotation
        s = str(ann)
        if p.kind in (p.VAR_POSITIONAL, p.VAR_KEYWORD):
            continue
        if ann is int or s == "int":
            args.append(sym_int("arg_" + pname))
        elif ann is bool or s == "bool":
            args.append(sym_bool("arg_" + pname))
        elif pname == "authmech":
            # complete case split: not given | each implemented mechanism | any other name
            choice = None
            for cand in ["<none>"] + list(managesieve.SUPPORTED_AUTH_MECHS):
                if choice is None and sym_bool("arg_authmech_is_" + cand):
                    choice = cand
            if choice is None:
                other = sym_str("arg_authmech")
                assume(neg(other in managesieve.SUPPORTED_AUTH_MECHS))
                args.append(other)
            elif choice == "<none>":
                args.append(None)
            else:
                args.append(choice)
        elif "Optional" in s:
            if sym_bool("arg_" + pname + "_given"):
                args.append(sym_str("arg_" + pname))
            else:
                args.append(None)
        else:
            args.append(sym_str("arg_" + pname))
    return args


@native
def sym_caps(prefix):
    d = SDict()
    for k in KNOWN_CAPS:
        d.entries[k] = [sym.fresh_bool(prefix + "has_" + k).t, sym.fresh_str(prefix + k, False)]
    return d


def new_client():
    c = managesieve.Client("mail.example.org")
    G = ghost()
    G["out"] = []
    G["log"] = []
    G["codes"] = []
    G["conn"] = 0
    G["tls"] = False
    G["auth_started"] = False
    G["starttls_requested"] = False
    return c


# ----------------------------------------------------------------------------- C16.M mechanism selection

def k_mech(label):
    def handler(ip, args, kwargs):
        G = core.cur().ghost
        G.setdefault("invoked", []).append((label, tuple(args[1:])))
        r = sym.fresh_bool("mech_%s_result" % label)
        return r
    return handler


def setup_selection(ip, unit):
    setup_typestate(ip, unit)
    for m in ("plain", "login", "digest_md5", "oauthbearer"):
        ip.name_contracts[("sievelib.managesieve", "Client._%s_authentication" % m)] = k_mech(m)


def h_authenticate(case):
    """__authenticate(login, password, authz_id, authmech) for authmech = None | each implemented name | any other"""
    c = new_client()
    G = ghost()
    G["invoked"] = []
    c._Client__capabilities = sym_caps("cap_")
    caps = c._Client__capabilities
    login = sym_str("login")
    password = sym_str("password")
    authz = sym_str("authz")
    if case == "none":
        authmech = None
    elif case == "other":
        authmech = sym_str("authmech")
        assume(neg(authmech in managesieve.SUPPORTED_AUTH_MECHS))
    else:
        authmech = case
    auth0 = sym_bool("authenticated0")
    c.authenticated = auth0
    has_sasl = "SASL" in caps
    kind = None
    r = None
    try:
        r = c._Client__authenticate(login, password, authz, authmech)
        kind = "return"
    except managesieve.Error:
        kind = "Error"
    inv = G["invoked"]
    prove(len(inv) <= 1, "M.at-most-one-mechanism")
    if not has_sasl:
        prove(kind == "Error" and len(inv) == 0, "M.no-SASL-capability-fails-without-sending")
        return
    prove(kind == "return", "M.returns")
    if kind != "return":
        return
    announced = caps["SASL"].split()
    order = ["digest_md5", "plain", "login", "oauthbearer"]      # DIGEST-MD5, PLAIN, LOGIN, OAUTHBEARER (property text)
    wire = {"digest_md5": "DIGEST-MD5", "plain": "PLAIN", "login": "LOGIN", "oauthbearer": "OAUTHBEARER"}
    if case in ("none", "other"):
        expect = None
        for m in order:
            if expect is None and wire[m] in announced:
                expect = m
    else:
        expect = None
        for m in order:
            if wire[m] == case and case in announced:
                expect = m
    if expect is None:
        prove(len(inv) == 0, "M.none-qualifies-nothing-invoked")
        prove(r is False, "M.none-qualifies-returns-False")
        prove(same(c.authenticated, auth0) or c.authenticated is auth0, "M.none-qualifies-flag-unchanged")
    else:
        prove(len(inv) == 1 and inv[0][0] == expect, "M.invokes-the-expected-mechanism")
        if len(inv) == 1:
            a = inv[0][1]
            prove(a[0] == login.encode("utf-8") and a[1] == password.encode("utf-8") and a[2] == authz.encode("utf-8"),
                  "M.passes-the-callers-credentials")
            res = G["mech_result"] if "mech_result" in G else None
        prove(implies(r is True, c.authenticated), "M.true-implies-authenticated")
        prove(either(r is True, r is False), "M.boolean-result")


# ----------------------------------------------------------------------------- C16.P payloads

def h_plain():
    c = new_client()
    login = sym_bytes("login")
    password = sym_bytes("password")
    authz = sym_bytes("authz")
    G = ghost()
    kind = None
    try:
        r = c._plain_authentication(login, password, authz)
        kind = "return"
    except managesieve.Error:
        kind = "Error"
    log = G["log"]
    prove(len(log) == 1 and log[0][1] == "AUTHENTICATE", "P.plain.one-AUTHENTICATE")
    a = log[0][2]
    prove(len(a) == 2 and a[0] == b"PLAIN", "P.plain.mechanism-name")
    prove(a[1] == base64.b64encode(authz + b"\0" + login + b"\0" + password), "P.plain.rfc4616-message")
    if kind == "return":
        prove(r is (G["codes"][0] == "OK"), "P.plain.true-iff-OK")


def h_oauthbearer(as_str):
    c = new_client()
    if as_str:
        login = sym_str("login")
        password = sym_str("token")
        blogin = login.encode("utf-8")
        bpass = password.encode("utf-8")
    else:
        login = sym_bytes("login")
        password = sym_bytes("token")
        blogin = login
        bpass = password
    G = ghost()
    kind = None
    try:
        r = c._oauthbearer_authentication(login, password, b"")
        kind = "return"
    except managesieve.Error:
        kind = "Error"
    log = G["log"]
    prove(len(log) == 1 and log[0][1] == "AUTHENTICATE", "P.oauthbearer.one-AUTHENTICATE")
    a = log[0][2]
    prove(len(a) == 2 and a[0] == b"OAUTHBEARER", "P.oauthbearer.mechanism-name")
    # RFC 7628 section 3.1 with the gs2 header of RFC 5801: the authorisation identity is a saslname ("=" -> "=3D", then "," -> "=2C")
    saslname = blogin.replace(b"=", b"=3D").replace(b",", b"=2C")
    prove(a[1] == base64.b64encode(b"n,a=" + saslname + b",\x01auth=Bearer " + bpass + b"\x01\x01"),
          "P.oauthbearer.rfc7628-message")
    if kind == "return":
        prove(r is (G["codes"][0] == "OK"), "P.oauthbearer.true-iff-OK")


def h_login():
    c = new_client()
    login = sym_bytes("login")
    password = sym_bytes("password")
    G = ghost()
    kind = None
    try:
        r = c._login_authentication(login, password, b"")
        kind = "return"
    except managesieve.Error:
        kind = "Error"
    log = G["log"]
    prove(len(log) == 1 and log[0][1] == "AUTHENTICATE", "P.login.one-AUTHENTICATE")
    a = log[0][2]
    prove(len(a) == 1 and a[0] == b"LOGIN", "P.login.mechanism-name")
    extra = log[0][6]
    prove(len(extra) == 2 and extra[0] == b'"' + base64.b64encode(login) + b'"'
          and extra[1] == b'"' + base64.b64encode(password) + b'"', "P.login.two-quoted-base64-lines")
    if kind == "return":
        prove(r is (G["codes"][0] == "OK"), "P.login.true-iff-OK")


# ----------------------------------------------------------------------------- C09.S3 status mapping

def h_status(mname):
    """authenticated call of a script operation: success iff the reply was OK, failure iff NO, BYE/silence -> Error;
    exactly one command of the intended verb is sent (native rename / VERSION present for checkscript)."""
    c = new_client()
    G = ghost()
    c.authenticated = True
    G["conn_auth"] = True
    c.sock = FakeSock(1, False)
    c._Client__capabilities = {"VERSION": "1.0", "SASL": "PLAIN"}
    args = make_args(mname)
    kind = None
    r = None
    try:
        r = getattr(c, mname)(*args)
        kind = "return"
    except managesieve.Error:
        kind = "Error"
    except UnicodeDecodeError:
        kind = "UnicodeDecodeError"
    except Exception as e:
        kind = "other"
        note("exception", type(e).__name__)
    if G.get("refused", False):
        prove(kind == "Error" and len(G.get("log", [])) == 0, "S3.unsendable-argument-refused-with-Error-nothing-written")
        return
    log = G["log"]
    prove(len(log) == 1, "S3.exactly-one-command")
    prove(log[0][1] == SCRIPT_METHODS[mname], "S3.intended-verb")
    codes = G["codes"]
    if len(codes) == 0:
        prove(kind == "Error", "S3.bye-or-silence-raises-Error")
        return
    code = codes[0]
    if mname in ("getscript", "listscripts") and kind == "UnicodeDecodeError":
        prove(code == "OK", "S3.decode-error-only-on-OK")
        return
    prove(kind == "return", "S3.status-reply-returns")
    if kind != "return":
        return
    if mname in ("listscripts", "getscript"):
        if code == "OK":
            prove(r is not None, "S3.OK-gives-data")
        else:
            prove(r is None, "S3.NO-gives-None")
    else:
        if code == "OK":
            prove(r is True, "S3.OK-gives-True")
        else:
            prove(r is False, "S3.NO-gives-False")


# ----------------------------------------------------------------------------- C16.D DIGEST-MD5

def h_digest():
    """_digest_md5_authentication must run to a boolean result or Error (it cannot: digest_md5.py is Python 2 code)"""
    c = new_client()
    login = sym_bytes("login")
    password = sym_bytes("password")
    kind = None
    try:
        r = c._digest_md5_authentication(login, password, b"")
        kind = "return"
    except managesieve.Error:
        kind = "Error"
    except Exception as e:
        kind = "crash"
        note("exception", type(e).__name__)
    prove(kind != "crash", "D.digest-md5-exchange-runs")
