"""Native replay of C14 counter-models: the real renamescript against the reference server."""
from bounded.fakeserver import FakeServer, make_client


def _fault(model, callee):
    if model.get(callee + "_breaks"):
        return "SILENCE-APPLIED" if model.get(callee + "_applied_before_break") else "SILENCE"
    if callee + "_ok" in model and not model.get(callee + "_ok"):
        return "NO"
    return None


def run(model):
    from sievelib import managesieve
    old, new, other = model.get("oldname", "old"), model.get("newname", "new"), model.get("other_script", "other")
    scripts = {}
    if model.get("other_exists"):
        scripts[other] = b"# other\r\nkeep;\r\n"
    if model.get("new_exists"):
        scripts[new] = b"# target\r\ndiscard;\r\n"
    if model.get("old_exists"):
        scripts[old] = b"# source\r\nstop;\r\n"
    active = model.get("srv_active") if model.get("srv_has_active") else None
    if active is not None and active not in scripts:
        active = None
    faults = {}
    for callee, verb in (("listscripts", "LISTSCRIPTS"), ("getscript", "GETSCRIPT"), ("putscript", "PUTSCRIPT"),
                         ("setactive", "SETACTIVE"), ("deletescript", "DELETESCRIPT")):
        f = _fault(model, callee)
        if f:
            faults[verb] = [f]
    srv = FakeServer(scripts=scripts, active=active, faults=faults)
    before = dict(srv.scripts)
    active0 = srv.active
    c = make_client(srv, version=False)
    try:
        r = c.renamescript(old, new)
        outcome = "returned %r" % (r,)
    except managesieve.Error as e:
        r = None
        outcome = "Error(%s)" % e
    except Exception as e:
        r = None
        outcome = "%s: %s" % (type(e).__name__, e)
    after = dict(srv.scripts)

    def norm(b):
        return b.replace(b"\r\n", b"\n").rstrip(b"\n")

    problems = []
    if not (outcome.startswith("returned True") or outcome.startswith("returned False") or outcome.startswith("Error(")):
        problems.append("outcome is neither True, False nor Error: " + outcome)
    for n, body in before.items():
        if n != old and (n not in after or after[n] != body):
            problems.append("script %r other than the renamed one was modified or lost" % n)
    for n in after:
        if n not in before and n != new:
            problems.append("script %r invented" % n)
    if old in before:
        kept = (old in after and norm(after[old]) == norm(before[old])) or (new in after and norm(after[new]) == norm(before[old]))
        if not kept:
            problems.append("the old content survives under neither name")
    if active0 != old and srv.active != active0:
        problems.append("active pointer moved from %r to %r although the old script was not active" % (active0, srv.active))
    if r is True:
        if old not in before or old in after or new not in after or norm(after[new]) != norm(before[old]):
            problems.append("returned True but the rename did not happen")
        if (srv.active == new) != (active0 == old):
            problems.append("returned True but active status changed: active before %r, after %r" % (active0, srv.active))
    return {"outcome": outcome, "server_before": {k: v.decode() for k, v in before.items()}, "active_before": active0,
            "server_after": {k: v.decode() for k, v in after.items()}, "active_after": srv.active,
            "commands": [(v.decode(), [a if isinstance(a, int) else a.decode("utf-8", "replace") for a in args])
                         for v, args in srv.log],
            "problems": problems}


def replay(unit, label, model):
    rep = run(model)
    return {"confirmed": bool(rep["problems"]), "outcome": rep["outcome"], "detail": rep}
