"""C17.G: getscript returns every line of the content it was handed."""
from pyvc.api import (native, sym_str, sym_bytes, sym_bool, prove, assume, note, implies, both, either, neg, ghost)
from sievelib import managesieve
from contracts.client import new_client, FakeSock


def h_getscript():
    c = new_client()
    G = ghost()
    c.authenticated = True
    G["conn_auth"] = True
    c.sock = FakeSock(1, False)
    name = sym_str("name")
    kind = None
    r = None
    try:
        r = c.getscript(name)
        kind = "return"
    except managesieve.Error:
        kind = "Error"
    except UnicodeDecodeError:
        kind = "UnicodeDecodeError"
    codes = G["codes"]
    if len(codes) == 0:
        return
    content = G["last_content"]
    if kind == "return" and codes[0] == "OK":
        prove(r == "\n".join([line.decode("utf-8") for line in content.splitlines()]), "G.all-lines-of-the-content-in-order")
    if kind == "return" and codes[0] == "NO":
        prove(r is None, "G.NO-gives-None")
