"""C10: typestate of every public method of Client (see contracts/client.py for the ghost state)."""
from pyvc.api import (native, sym_str, sym_bytes, sym_int, sym_bool, prove, assume, note, implies, both, either, neg, ghost)
from sievelib import managesieve
from contracts.client import (new_client, FakeSock, sym_caps, make_args, SCRIPT_METHODS, setup_typestate)
from contracts import rename


def setup(ip, unit):
    if unit.params and unit.params[0] == "renamescript":
        rename.setup_rename(ip, unit)      # the five callees of the emulation are used through their contracts
    else:
        setup_typestate(ip, unit)


# ----------------------------------------------------------------------------- C10: typestate of every public method

def h_public_method(mname):
    """One arbitrary call of a public method from an arbitrary state satisfying Inv_auth.

    Inv_auth:  self.authenticated  =>  conn_auth (AUTHENTICATE got OK on the current connection)
    Obligations inside the __send_command contract: script verbs only when authenticated (flag and ghost),
    no AUTHENTICATE before TLS when STARTTLS was requested.  Here: Inv_auth preserved; an unauthenticated script
    call raises Error and sends nothing.
    """
    c = new_client()
    G = ghost()
    auth0 = sym_bool("authenticated")
    conn_auth0 = sym_bool("conn_auth")
    assume(implies(auth0, conn_auth0))
    c.authenticated = auth0
    G["conn_auth"] = conn_auth0
    c.sock = FakeSock(0, False)
    c._Client__capabilities = sym_caps("cap_")
    args = make_args(mname)
    if mname == "renamescript":
        rename.init_server()
    if mname == "connect":
        G["starttls_requested"] = args[3]
    kind = None
    r = None
    try:
        r = getattr(c, mname)(*args)
        kind = "return"
    except managesieve.Error as e:
        kind = "Error"
    except Exception as e:
        kind = "other"
        note("exception", type(e).__name__)
    prove(implies(c.authenticated, G["conn_auth"]), "A2.inv-auth-preserved")
    if mname in SCRIPT_METHODS:
        if not auth0:
            prove(kind == "Error", "A1.unauthenticated-call-raises-Error")
            prove(len(G["log"]) == 0 and len(G["out"]) == 0, "A1.unauthenticated-call-sends-nothing")
    if mname == "connect":
        if G.get("connection_refused", False):
            # no connection: nothing may be written anywhere (in particular not to the socket of an earlier connection)
            prove(len(G.get("log", [])) == 0 and len(G["out"]) == 0, "A2.refused-connection-writes-nothing")
        if args[3]:
            # STARTTLS requested: if anything was authenticated, it happened over TLS
            if kind == "return" and r is True:
                prove(G["tls"], "T.connect-true-implies-tls")
            if not G["tls"]:
                sent_auth = False
                for entry in G["log"]:
                    if entry[1] == "AUTHENTICATE":
                        sent_auth = True
                prove(not sent_auth, "T.no-credentials-without-tls")
        if kind == "return" and r is True:
            prove(c.authenticated, "A2.connect-true-implies-authenticated")
            prove(G["conn_auth"], "A2.connect-true-implies-server-said-OK")


