"""C09.S1/S2/S4, C15.I: decoding of status replies by __read_response / __read_line / __parse_error, per reply shape.

The reply is a concrete-shaped byte string with symbolic text; the reader's loops are replaced by their proven
summaries (contracts/reader.py), so the obligations range over ALL texts of the shape."""
import z3

from pyvc import core, sym
from pyvc.api import (native, sym_str, sym_bytes, sym_int, sym_bool, prove, assume, note, implies, both, either, neg, ghost,
                      in_re)
from pyvc.core import strval
from sievelib import managesieve
from contracts.client import new_client, FakeSock
from contracts.wire import re_safe_only, int_to_bytes

CRLF = b"\r\n"

STATUSES = ["OK", "NO", "BYE"]
CODES = ["none", "atom", "slashed", "params"]
TEXTS = ["none", "quoted", "quoted-empty", "quoted-escaped", "literal"]


@native
def re_atom():
    return z3.Plus(z3.Union(z3.Range(strval("A"), strval("Z")), z3.Range(strval("a"), strval("z")),
                            z3.Range(strval("0"), strval("9")), z3.Re(strval("-"))))


@native
def re_safe_nonempty():
    safe = z3.Intersect(sym.re_char_not('\x00\r\n"\\'), z3.Range(strval("\x00"), strval("\xff")))
    return z3.Plus(safe)


@native
def re_literal_text():
    # literal text: any octets without CR/LF-less constraints are allowed by the RFC; keep NUL-free UTF-8-ish bytes
    return z3.Star(z3.Intersect(sym.re_char_not('\x00'), z3.Range(strval("\x00"), strval("\xff"))))


def build_reply(status, code, text):
    """(reply bytes, expected errcode, expected errmsg)"""
    line = status.encode("ascii")
    exp_code = b""
    if code == "atom":
        a = sym_bytes("code_atom")
        assume(in_re(a, re_atom()))
        line = line + b" (" + a + b")"
        exp_code = a
    elif code == "slashed":
        a = sym_bytes("code_atom")
        b = sym_bytes("code_sub")
        assume(in_re(a, re_atom()))
        assume(in_re(b, re_atom()))
        line = line + b" (" + a + b"/" + b + b")"
        exp_code = a + b"/" + b
    elif code == "params":
        a = sym_bytes("code_atom")
        q = sym_bytes("code_param")
        assume(in_re(a, re_atom()))
        assume(in_re(q, re_safe_nonempty()))
        line = line + b" (" + a + b' "' + q + b'")'
        exp_code = a + b' "' + q + b'"'
    exp_msg = b""
    if text == "quoted":
        t = sym_bytes("text")
        assume(in_re(t, re_safe_nonempty()))
        reply = line + b' "' + t + b'"' + CRLF
        exp_msg = t
    elif text == "quoted-empty":
        reply = line + b' ""' + CRLF
    elif text == "quoted-escaped":
        t1 = sym_bytes("text_before")
        t2 = sym_bytes("text_after")
        assume(in_re(t1, re_safe_only()))
        assume(in_re(t2, re_safe_only()))
        reply = line + b' "' + t1 + b'\\"' + t2 + b'"' + CRLF
        exp_msg = t1 + b'"' + t2
    elif text == "literal":
        t = sym_bytes("text")
        assume(in_re(t, re_literal_text()))
        reply = line + b" {" + int_to_bytes(len(t)) + b"}" + CRLF + t + CRLF
        exp_msg = t
    else:
        reply = line + CRLF
    return (reply, exp_code, exp_msg)


def h_status_reply(status, code, text):
    """one complete status reply followed by arbitrary later bytes: the reader stops exactly at its end and decodes it"""
    c = new_client()
    G = ghost()
    c.sock = FakeSock(1, False)
    (reply, exp_code, exp_msg) = build_reply(status, code, text)
    later = sym_bytes("bytes_of_the_next_reply")
    c._Client__read_buffer = reply + later
    G["inb"] = b""
    c.errcode = b"<stale>"
    c.errmsg = b"<stale>"
    kind = None
    r = None
    try:
        r = c._Client__read_response()
        kind = "return"
    except managesieve.Error as e:
        kind = "Error"
    except Exception as e:
        kind = "crash"
        note("exception", type(e).__name__, str(e))
    note(status, code, text, kind)
    if status == "BYE":
        prove(kind == "Error", "S1.BYE-raises-Error")
        return
    prove(kind == "return", "S2.status-reply-is-decoded-without-exception")
    if kind != "return":
        return
    prove(r[0] == status.encode("ascii"), "S1.status-recognised")
    prove(c._Client__read_buffer == later, "S4.reader-stops-exactly-at-the-end-of-the-reply")
    if status == "NO":
        prove(c.errcode == exp_code, "S2.errcode-is-the-response-code")
        prove(c.errmsg == exp_msg, "S2.errmsg-is-the-text")


def h_parse_error(code):
    """__parse_error on the text part of a NO line: [ "(" CODE ")" SP ] quoted-text, for every response code atom
    (code = 'none' | 'atom' | 'slashed') and every non-empty text without quote, backslash, CR, LF: errcode / errmsg are the
    code and the text as sent"""
    c = new_client()
    t = sym_bytes("text")
    assume(in_re(t, re_safe_nonempty()))
    text = b'"' + t + b'"'
    exp_code = b""
    if code == "atom":
        a = sym_bytes("code_atom")
        assume(in_re(a, re_atom()))
        text = b"(" + a + b") " + text
        exp_code = a
    elif code == "slashed":
        a = sym_bytes("code_atom")
        b = sym_bytes("code_sub")
        assume(in_re(a, re_atom()))
        assume(in_re(b, re_atom()))
        text = b"(" + a + b"/" + b + b") " + text
        exp_code = a + b"/" + b
    c.errcode = b"<stale>"
    c.errmsg = b"<stale>"
    kind = "return"
    try:
        c._Client__parse_error(text)
    except managesieve.Error:
        kind = "Error"
    prove(kind == "return", "S2.text-shape-is-decoded")
    if kind == "return":
        prove(c.errcode == exp_code, "S2.errcode-is-the-response-code")
        prove(c.errmsg == t, "S2.errmsg-is-the-text")
